"""Generated variant for the self-validation: every local variable of every function renamed (name + "_x").
The result computes the same as the original (bound names only); every check must stay silent on it."""
import ast, glob, os, sys

def rename_tree(src_root, out):
    os.makedirs(out + "/src", exist_ok=True)
    for p in [os.path.join(src_root, "isoquant.py")] + sorted(glob.glob(os.path.join(src_root, "src", "*.py"))):
        rel = os.path.relpath(p, src_root)
        t = ast.parse(open(p).read())

        def rec(node):
            for ch in ast.iter_child_nodes(node):
                if isinstance(ch, (ast.FunctionDef, ast.AsyncFunctionDef)):
                    process_function(ch)
                else:
                    rec(ch)
        rec(t)
        open(os.path.join(out, rel), "w").write(ast.unparse(t) + "\n")


class Renamer(ast.NodeTransformer):
    def __init__(self, names):
        self.names = names
    def visit_Name(self, n):
        if n.id in self.names:
            n.id = n.id + "_x"
        return n
    def visit_Global(self, n): return n

def process_function(f):
    params = {a.arg for a in f.args.args + f.args.kwonlyargs + f.args.posonlyargs}
    if f.args.vararg: params.add(f.args.vararg.arg)
    if f.args.kwarg: params.add(f.args.kwarg.arg)
    banned = set(params)
    stores = set()
    for n in ast.walk(f):
        if n is f: continue
        if isinstance(n, (ast.FunctionDef, ast.AsyncFunctionDef, ast.Lambda)):
            for a in n.args.args + n.args.kwonlyargs + n.args.posonlyargs:
                banned.add(a.arg)
            if n.args.vararg: banned.add(n.args.vararg.arg)
            if n.args.kwarg: banned.add(n.args.kwarg.arg)
            if isinstance(n, ast.FunctionDef): banned.add(n.name)
        if isinstance(n, (ast.Global, ast.Nonlocal)):
            banned |= set(n.names)
        if isinstance(n, ast.Name) and isinstance(n.ctx, ast.Store):
            stores.add(n.id)
        if isinstance(n, ast.ExceptHandler) and n.name: banned.add(n.name)
        if isinstance(n, (ast.Import, ast.ImportFrom)):
            for a in n.names: banned.add((a.asname or a.name).split(".")[0])
    names = stores - banned
    if names:
        for st in f.body:
            Renamer(names).visit(st)


if __name__ == "__main__":
    rename_tree(sys.argv[1], sys.argv[2])
