"""Checker self-validation (thorough tier): analyse mutated scratch copies of /repo.

Every mutant is a one-site source edit (exact text, must occur exactly once) of the
current /repo tree, written to a scratch directory outside /repo and /verif.  The
mutants are *analysed*, never executed.  'fire' mutants must make the property's
check exit 1 and name the expected rule; 'silent' mutants (behaviour-preserving
refactorings) must leave it at exit 0.  A mutant whose locator no longer matches is
'stale' (reported; > 1/3 stale => ANALYSIS-ERROR).
"""
import concurrent.futures
import json
import os
import shutil
import subprocess
import sys
import tempfile

from ..engine.program import AnalysisError, repo_root
from .mutants import MUTANTS

VERIF = os.path.dirname(os.path.dirname(os.path.dirname(os.path.abspath(__file__))))


def _copy_tree(dst):
    root = repo_root()
    os.makedirs(os.path.join(dst, "src"))
    shutil.copy2(os.path.join(root, "isoquant.py"), os.path.join(dst, "isoquant.py"))
    for fn in os.listdir(os.path.join(root, "src")):
        if fn.endswith(".py"):
            shutil.copy2(os.path.join(root, "src", fn), os.path.join(dst, "src", fn))
    if os.path.isdir(os.path.join(root, "docs")):          # documentation tables some rules compare the code with
        os.makedirs(os.path.join(dst, "docs"))
        for fn in os.listdir(os.path.join(root, "docs")):
            if fn.endswith(".md"):
                shutil.copy2(os.path.join(root, "docs", fn), os.path.join(dst, "docs", fn))


def _run_one(m, base):
    d = tempfile.mkdtemp(prefix="isoqlint_mut_", dir=base)
    try:
        _copy_tree(d)
        if m.get("generated") == "rename-locals":
            from . import rename_locals
            rename_locals.rename_tree(d, d)
        if m.get("patch"):
            r = subprocess.run(["git", "apply", "--unsafe-paths", "--directory=" + d, m["patch"]], cwd=d, capture_output=True, text=True)
            if r.returncode != 0:
                # no fuzzy fallback: a patch applied with fuzz can mean something else than what was confirmed
                return m, "stale", "seeded patch no longer applies: " + (r.stdout + r.stderr)[-200:]
        edits = [] if (m.get("patch") or m.get("generated")) else (m.get("edits") or [(m["file"], m["find"], m["replace"])])
        for rel, find, repl in edits:
            p = os.path.join(d, rel)
            with open(p) as fh:
                s = fh.read()
            if s.count(find) != 1:
                return m, "stale", "locator occurs %d times in %s" % (s.count(find), rel)
            s = s.replace(find, repl)
            try:
                compile(s, p, "exec")
            except SyntaxError as e:
                return m, "broken-mutant", "mutant does not compile: %s" % e
            with open(p, "w") as fh:
                fh.write(s)
        env = dict(os.environ)
        env["ISOQLINT_REPO"] = d
        env["ISOQLINT_NO_EVIDENCE"] = "1"
        env["VERIF_TIER"] = "quick"
        r = subprocess.run([sys.executable, "-B", "-m", "isoqlint", m["prop"], "--tier", "quick"],
                           cwd=VERIF, env=env, capture_output=True, text=True, timeout=300)
        out = r.stdout + r.stderr
        if m["expect"] == "fire":
            if r.returncode != 1:
                return m, "MISSED", "exit %d, expected 1\n%s" % (r.returncode, out[-600:])
            rule = m.get("rule")
            if rule and ("[%s]" % rule) not in out:
                return m, "WRONG-RULE", "fired but not rule %s\n%s" % (rule, out[-600:])
            want = m.get("mentions")
            if want and want not in out:
                return m, "WRONG-SITE", "fired but report does not mention %r\n%s" % (want, out[-600:])
            return m, "ok", ""
        else:
            if r.returncode == 2 and m.get("undecided_ok") and "VIOLATION" not in out:
                # a recorded case in which the rules do not understand the refactored shape: the check says so (ANALYSIS-ERROR) and does
                # not claim a violation; it is listed as such in DESIGN.md 11.4 and must never turn into an alarm
                return m, "undecided", out[-300:]
            if r.returncode != 0:
                return m, "FALSE-ALARM", "exit %d, expected 0\n%s" % (r.returncode, out[-800:])
            return m, "ok", ""
    finally:
        shutil.rmtree(d, ignore_errors=True)


def seeded_mutants(prop):
    """Independent seeded changes (sub-agents) that this property's check is recorded to catch: kept as regression corpus."""
    out = []
    base = os.path.join(VERIF, "seeded")
    if not os.path.isdir(base):
        return out
    for d in sorted(os.listdir(base)):
        mp = os.path.join(base, d, "meta.json")
        if not os.path.exists(mp):
            continue
        try:
            meta = json.load(open(mp))
        except Exception:
            continue
        if meta.get("kind") == "refactoring":
            # behaviour-preserving refactorings written by independent sub-agents: must stay silent for every property whose
            # anchor modules they touch
            if not meta.get("confirmed_behaviour_preserving"):
                continue
            from ..rules.common import anchor_files
            try:
                touched = {l[6:].strip() for l in open(os.path.join(base, d, "patch.diff")) if l.startswith("+++ b/")}
            except OSError:
                continue
            if meta.get("property") == prop or (touched & anchor_files(prop)):
                known_undecided = (meta.get("checks_not_silent", {}).get(prop) or {}).get("exit") == 2
                out.append(dict(id="refactor-" + d, prop=prop, expect="silent", rule=None, note="independent behaviour-preserving refactoring " + d,
                                patch=os.path.join(base, d, "patch.diff"), file=None, find=None, replace=None, mentions=None, edits=None,
                                undecided_ok=known_undecided))
            continue
        if meta.get("property") == prop and meta.get("caught_by_own_property_check"):
            rules = (meta.get("checks_that_fire", {}).get(prop, {}) or {}).get("rules") or [None]
            out.append(dict(id="seed-" + d, prop=prop, expect="fire", rule=None, note="independent seeded change " + d,
                            patch=os.path.join(base, d, "patch.diff"), file=None, find=None, replace=None, mentions=None, edits=None))
    return out


def run_for(prop, ctx, jobs=16):
    ms = [m for m in MUTANTS if m["prop"] == prop] + seeded_mutants(prop)
    ms.append(dict(id="generated-rename-all-locals", prop=prop, expect="silent", rule=None, generated="rename-locals",
                   note="every local variable of every function renamed", patch=None, file=None, find=None, replace=None,
                   mentions=None, edits=None))
    if not ms:
        ctx.note("self-validation: no mutants registered for %s" % prop)
        return
    base = tempfile.mkdtemp(prefix="isoqlint_selftest_")
    results = []
    try:
        with concurrent.futures.ThreadPoolExecutor(max_workers=jobs) as ex:
            for m, verdict, detail in ex.map(lambda m: _run_one(m, base), ms):
                results.append((m, verdict, detail))
    finally:
        shutil.rmtree(base, ignore_errors=True)
    stale = [r for r in results if r[1] == "stale"]
    bad = [r for r in results if r[1] not in ("ok", "stale", "undecided")]
    ctx.extra["selftest"] = {
        "variants": len(results),
        "must_fire": len([m for m in ms if m["expect"] == "fire"]),
        "must_stay_silent": len([m for m in ms if m["expect"] == "silent"]),
        "ok": len([r for r in results if r[1] == "ok"]),
        "stale": [r[0]["id"] for r in stale],
        "undecided": [r[0]["id"] for r in results if r[1] == "undecided"],
        "failed": [{"id": r[0]["id"], "verdict": r[1], "detail": r[2][-400:]} for r in bad],
        "list": [{"id": r[0]["id"], "expect": r[0]["expect"], "rule": r[0].get("rule"), "verdict": r[1],
                  "what": r[0].get("note", "")} for r in results],
    }
    for m, verdict, detail in results:
        if verdict == "ok":
            ctx.ok("SELF", "selftest/%s" % m["id"], "mutant %s (%s): checker %s as required"
                   % (m["id"], m.get("note", ""), "fires" if m["expect"] == "fire" else "stays silent"))
    if bad:
        raise AnalysisError("checker self-validation failed for %s: %s" % (
            prop, "; ".join("%s=%s" % (r[0]["id"], r[1]) for r in bad)) + "\n" + "\n".join(r[2] for r in bad[:3]))
    if len(stale) * 3 > len(results):
        raise AnalysisError("more than a third of the self-validation variants of %s are stale: %s"
                            % (prop, [r[0]["id"] for r in stale]))
