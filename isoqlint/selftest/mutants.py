"""Self-validation corpus: one-site edits of /repo's current source.

fire   = the property's structural condition is broken; the check must exit 1 naming `rule`.
silent = behaviour-preserving refactoring; the check must stay at exit 0.
"""
MUTANTS = []


def M(id, prop, file, find, replace, expect="fire", rule=None, note="", mentions=None, edits=None):
    MUTANTS.append(dict(id=id, prop=prop, file=file, find=find, replace=replace, expect=expect, rule=rule,
                        note=note, mentions=mentions, edits=edits))


SER = "src/serialization.py"
ISO = "src/isoform_assignment.py"
LRA = "src/long_read_assigner.py"
JC = "src/junction_comparator.py"

# ---------------------------------------------------------------- C15
M("c15-revert-readdict", "C15", SER, "d[k] = read_int_neg(inf)", "d[k] = read_int(inf)", rule="Z2",
  note="revert of fix 5486f5e")
M("c15-swap-writes", "C15", ISO,
  "        write_string(self.mapped_strand, outfile)\n        write_string(self.strand, outfile)\n",
  "        write_string(self.strand, outfile)\n        write_string(self.mapped_strand, outfile)\n", rule="Z1",
  note="two same-typed fields written in swapped order")
M("c15-new-field-unserialised", "C15", ISO,
  "        self.cage_found = False\n", "        self.cage_found = False\n        self.umi = None\n", rule="Z3",
  note="constructor field never serialised")
M("c15-abridged-skips-field", "C15", ISO,
  "        read_string(infile)\n        read_string(infile)\n        read_string(infile)\n        read_assignment.chr_id = read_string(infile)",
  "        read_string(infile)\n        read_string(infile)\n        read_assignment.chr_id = read_string(infile)", rule="Z1",
  note="abridged reader one field short (chr_id read from strand position)")
M("c15-widen-writer", "C15", ISO, "write_short_int(self.mapping_quality, outfile)", "write_int(self.mapping_quality, outfile)",
  rule="Z1", note="writer widened, reader not")
M("c15-tag-width", "C15", "src/assignment_io.py", "self.current_id = read_short_int(self.loader)",
  "self.current_id = read_int(self.loader)", rule="Z1", note="frame tag read with another width")
M("c15-genes-isoforms-swap", "C15", ISO,
  "        read_assignment.genes = read_list(infile, read_string)\n        read_assignment.isoforms = read_list(infile, read_string)\n        return read_assignment",
  "        read_assignment.isoforms = read_list(infile, read_string)\n        read_assignment.genes = read_list(infile, read_string)\n        return read_assignment",
  rule="Z1", note="same wire types, fields crossed")
M("c15-byteorder", "C15", SER, "    return int.from_bytes(inf.read(bytes_len), BYTE_ORDER)", "    return int.from_bytes(inf.read(bytes_len), 'little')",
  rule="Z2", note="byte order differs on one side")
M("c15-signbit", "C15", SER, "        return - (val & ((1 << 31) - 1))", "        return - (val & ((1 << 30) - 1))", rule="Z2",
  note="sign mask differs")
M("c15-pickle-state", "C15", ISO, "        self.isoforms = state[12]\n        self.genes = state[13]",
  "        self.isoforms = state[13]\n        self.genes = state[12]", rule="Z1", note="pickle tuple positions crossed")
M("c15-info-order", "C15", "src/dataset_processor.py",
  "        write_int(total_assignments, info_dumper)\n        write_int(polya_assignments, info_dumper)\n        write_list(",
  "        write_list(list(all_read_groups), info_dumper, write_string)\n        write_int(total_assignments, info_dumper)\n        write_int(polya_assignments, info_dumper)\n        write_list_unused = (",
  expect="fire", rule="Z1", note="info file: list written first")
M("c15-silent-rename-local", "C15", ISO, "        exons = read_list_of_pairs(infile, read_int)\n        read_assignment.start = exons[0][0]\n        read_assignment.end = exons[-1][1]",
  "        blocks = read_list_of_pairs(infile, read_int)\n        read_assignment.start = blocks[0][0]\n        read_assignment.end = blocks[-1][1]",
  expect="silent", note="rename a local in the abridged reader")
M("c15-silent-short-alias", "C15", ISO, "write_short_int(self.mapping_quality, outfile)",
  "write_int(self.mapping_quality, outfile, SHORT_INT_BYTES)", expect="silent", note="same width spelled differently")
M("c15-silent-loop-to-writelist", "C15", "src/gene_info.py",
  "        write_int(len(self.gene_db_list), outfile)\n        for g in self.gene_db_list:\n            write_string(g.id, outfile)\n",
  "        write_list([g.id for g in self.gene_db_list], outfile, write_string)\n", expect="silent",
  note="explicit counted loop replaced by write_list")

# ---------------------------------------------------------------- C01
M("c01-unclassified", "C01", ISO, "                                       MatchEventSubtype.ism_internal,\n", "", rule="E1",
  note="ism_internal removed from is_consistent: emitted but unclassified")
M("c01-unpriced", "C01", ISO, "    MatchEventSubtype.exon_merge_novel:0.75,\n", "", rule="E2", note="cost entry removed")
M("c01-structural-made-minor", "C01", ISO,
  "        return match_event_subtype in {MatchEventSubtype.exon_elongation_left,\n                                       MatchEventSubtype.exon_elongation_right,\n                                       MatchEventSubtype.intron_shift,",
  "        return match_event_subtype in {MatchEventSubtype.exon_elongation_left,\n                                       MatchEventSubtype.exon_elongation_right,\n                                       MatchEventSubtype.exon_skipping_known,\n                                       MatchEventSubtype.intron_shift,",
  rule="E1", note="exon_skipping_known both minor and major")
M("c01-ir-moved-to-consistent", "C01", ISO, None, None, rule="E3", note="intron_retention reclassified as consistent",
  edits=[(ISO, "    MatchEventSubtype.unspliced_intron_retention, MatchEventSubtype.intron_retention,\n",
          "    MatchEventSubtype.unspliced_intron_retention,\n"),
         (ISO, "        return match_event_subtype in {MatchEventSubtype.none,\n                                       MatchEventSubtype.mono_exonic,",
          "        return match_event_subtype in {MatchEventSubtype.none, MatchEventSubtype.intron_retention,\n                                       MatchEventSubtype.mono_exonic,")])
M("c01-none-not-redispatched", "C01", LRA,
  "            if assignment is None:\n                # alternative isoforms made of known introns/exons or intron retention\n                # logger.debug(\"+ + Resolving unmatched \")\n                assignment = self.match_inconsistent(read_id, combined_read_profile)\n",
  "", rule="E4", note="None from match_consistent no longer re-dispatched")
M("c01-inconsistent-returns-none", "C01", LRA,
  "        if not read_matches:\n            return ReadAssignment(read_id, ReadAssignmentType.noninformative)\n",
  "        if not read_matches:\n            return None\n", rule="E4", note="match_inconsistent returns None on a path")
M("c01-new-event-emitted", "C01", JC, "event = MatchEventSubtype.terminal_exon_shift_novel", "event = MatchEventSubtype.alternative_tss_left",
  expect="silent", note="emitting a classified+priced major event instead: all tables still cover it")
M("c01-emit-undefined", "C01", JC, "event = MatchEventSubtype.terminal_exon_shift_novel", "event = MatchEventSubtype.undefined",
  rule="E1", note="emits an event no class contains")
M("c01-silent-reorder-set", "C01", ISO,
  "    MatchEventSubtype.alt_left_site_novel, MatchEventSubtype.alt_right_site_novel,\n    MatchEventSubtype.extra_intron_novel,",
  "    MatchEventSubtype.alt_right_site_novel, MatchEventSubtype.extra_intron_novel,\n    MatchEventSubtype.alt_left_site_novel,",
  expect="silent", note="reorder a set literal")
M("c01-silent-split-union", "C01", ISO, "all_major_events = nic_event_types.union(nnic_event_types)",
  "all_major_events = nic_event_types | nnic_event_types", expect="silent", note="union spelled with |")
M("c01-order-of-tests", "C01", LRA, None, None, rule="E1", note="minor tested before major in classify_assignment",
  edits=[(LRA, "        elif any(MatchEventSubtype.is_major_inconsistency(e) for e in all_event_types):",
          "        elif any(MatchEventSubtype.is_minor_error(e) for e in all_event_types) and False:"),
         ])

# ---------------------------------------------------------------- C11 / X2
M("c11-cost-left-only", "C11", ISO, "    MatchEventSubtype.fake_terminal_exon_left:0.2,", "    MatchEventSubtype.fake_terminal_exon_left:0.3,",
  rule="X2", note="cost changed for _left only")
M("c11-set-right-only", "C11", ISO, "                                       MatchEventSubtype.terminal_site_match_right,\n", "",
  rule="X2", note="terminal_site_match_right dropped from is_consistent, left kept")
M("c11-printable-not-mirrored", "C11", ISO, "     MatchEventSubtype.ism_right : ('ism_3', 'ism_5', 'ism'),",
  "     MatchEventSubtype.ism_right : ('ism_5', 'ism_3', 'ism'),", rule="X2", note="printable names not mirrored")
M("c11-altsites-asym", "C11", ISO, '                     ("right", False): MatchEventSubtype.alt_right_site_novel}',
  '                     ("right", False): MatchEventSubtype.alt_left_site_novel}', rule="X2", note="alternative_sites asymmetric")
M("c11-silent-both-costs", "C11", ISO, None, None, expect="silent", note="cost changed on both sides",
  edits=[(ISO, "    MatchEventSubtype.fake_terminal_exon_left:0.2,", "    MatchEventSubtype.fake_terminal_exon_left:0.3,"),
         (ISO, "    MatchEventSubtype.fake_terminal_exon_right:0.2,", "    MatchEventSubtype.fake_terminal_exon_right:0.3,")])

# ---------------------------------------------------------------- C17
IDP = "src/id_policy.py"
GMC = "src/graph_based_model_construction.py"
DSP = "src/dataset_processor.py"
M("c17-revert-getid", "C17", IDP,
  "            feature_id = chr_id + \".%d\" % self.id_distributor.increment()\n            self.id_dict[feature_tuple] = feature_id\n",
  "            feature_id = self.id_distributor.increment()\n            self.id_dict[feature_tuple] = chr_id + \".%d\" % feature_id\n",
  rule="I1", note="revert of the get_id fix")
M("c17-simple-distributor", "C17", DSP, "    transcript_id_distributor = ExcludingIdDistributor(gffutils_db, chr_id)",
  "    transcript_id_distributor = SimpleIDDistributor()", rule="I2", note="non-excluding distributor passed to the model constructor")
M("c17-no-chr-in-transcript-id", "C17", GMC,
  "                                                new_transcript_id + \".%s\" % self.gene_info.chr_id + id_suffix,\n                                                transcript_gene, novel_exons, transcript_type)",
  "                                                new_transcript_id + id_suffix,\n                                                transcript_gene, novel_exons, transcript_type)",
  rule="I3", note="chromosome dropped from spliced novel transcript id")
M("c17-key-without-strand", "C17", IDP, "        feature_tuple = (chr_id, feature[0], feature[1], strand)\n",
  "        feature_tuple = (chr_id, feature[0], feature[1])\n", rule="I4", note="lookup key lacks strand")
M("c17-increment-if", "C17", IDP, "        while self.value in self.forbidden_ids:\n            self.value += 1\n        return self.value",
  "        if self.value in self.forbidden_ids:\n            self.value += 1\n        return self.value", rule="I2",
  note="forbidden ids skipped once, not in a loop (two consecutive forbidden numbers collide)")
M("c17-number-from-len", "C17", GMC, "            new_transcript_id = TranscriptNaming.transcript_prefix + str(self.get_transcript_id())\n            # logger.debug(\"uuu %s",
  "            new_transcript_id = TranscriptNaming.transcript_prefix + str(len(self.transcript_model_storage))\n            # logger.debug(\"uuu %s",
  rule="I2", note="id number not from the distributor")
M("c17-gene-id-no-chr", "C17", GMC, None, None, rule="I3", note="novel gene id without chromosome (monoexon site)",
  edits=[(GMC, "            transcript_gene = (TranscriptNaming.novel_gene_prefix + self.gene_info.chr_id +\n                               \"_\" + str(self.get_transcript_id()))\n            transcript_type",
          "            transcript_gene = (TranscriptNaming.novel_gene_prefix +\n                               \"_\" + str(self.get_transcript_id()))\n            transcript_type")])
M("c17-silent-reread", "C17", IDP, "            feature_id =  self.id_dict[feature_tuple]\n\n        return feature_id",
  "            pass\n\n        return self.id_dict[feature_tuple]", expect="silent", note="memo rewritten to re-read the dict on both paths")
M("c17-separate-storages", "C17", DSP,
  "        tmp_extended_gff_printer = GFFPrinter(sample.out_dir, sample.prefix, exon_id_storage,\n                                              gtf_suffix",
  "        tmp_extended_gff_printer = GFFPrinter(sample.out_dir, sample.prefix, FeatureIdStorage(SimpleIDDistributor()),\n                                              gtf_suffix",
  rule="I4", note="extended annotation printer uses its own exon id storage")

# ---------------------------------------------------------------- C18
AIO = "src/assignment_io.py"
M("c18-revert-memo-key", "C18", AIO, "            site_key = (intron, strand)\n", "            site_key = intron\n", rule="K1",
  note="revert: memo keyed by intron only")
M("c18-revert-upper", "C18", AIO, "left_site = gene_info.reference_region[intron_left_pos:intron_left_pos+2].upper()",
  "left_site = gene_info.reference_region[intron_left_pos:intron_left_pos+2]", rule="K2", note="revert: no upper-casing on one site")
M("c18-refseq-without-reset", "C18", "src/gene_info.py",
  "            str(chr_record[self.all_read_region_start - 1:self.all_read_region_end])\n        self.canonical_sites = {}\n",
  "            str(chr_record[self.all_read_region_start - 1:self.all_read_region_end])\n", rule="K1",
  note="reference window moved without clearing the canonical memo")
M("c18-strand-memo-narrow", "C18", "src/gene_info.py",
  "                strand = get_intron_strand(intron, self.chr_record)\n                self.strand_dict[intron] = strand",
  "                strand = get_intron_strand(intron, self.chr_record) if len(introns) > 1 else '.'\n                self.strand_dict[intron] = strand",
  rule="K1", note="strand memo value depends on the size of the query list, not only on the key")
M("c18-silent-setdefault-style", "C18", AIO, "            if not gene_info.canonical_sites[site_key]:\n                return False",
  "            is_canonical = gene_info.canonical_sites[site_key]\n            if not is_canonical:\n                return False",
  expect="silent", note="read-back through a local")
M("c18-silent-upper-at-compare", "C18", AIO, None, None, expect="silent", note="normalisation moved to a helper local",
  edits=[(AIO, "left_site = gene_info.reference_region[intron_left_pos:intron_left_pos+2].upper()",
          "left_raw = gene_info.reference_region[intron_left_pos:intron_left_pos+2]\n                left_site = left_raw.upper()")])

# ---------------------------------------------------------------- C09
RGM = "src/read_groups.py"
LRC = "src/long_read_counter.py"
M("c09-revert-none-group", "C09", RGM,
  "            self.read_groups.add(self.default_group_id)\n            return self.default_group_id\n\n        self.read_groups.add(values[-1])",
  "            return\n\n        self.read_groups.add(values[-1])", rule="P1", note="revert: None group for reads without delimiter")
M("c09-revert-enumerate", "C09", LRC, "                for i, g in enumerate(self.ordered_groups):", "                for i, g in enumerate(read_groups):",
  rule="P2", note="revert: index table numbered in set order")
M("c09-unregistered-group", "C09", RGM,
  "        if alignment.query_name not in self.read_map:\n            self.read_groups.add(self.default_group_id)\n            return self.default_group_id",
  "        if alignment.query_name not in self.read_map:\n            return self.default_group_id", rule="P1",
  note="table grouper returns NA without registering it (KeyError if no other read is NA)")
M("c09-ordered-other-key", "C09", LRC, "            self.ordered_groups = sorted(read_groups)\n", "            self.ordered_groups = sorted(read_groups, key=len)\n",
  expect="silent", note="both tables built from the same (differently keyed) sequence: still consistent")
M("c09-two-sequences", "C09", LRC, None, None, rule="P2", note="index from sorted(), names from reversed sort",
  edits=[(LRC, "                for i, g in enumerate(self.ordered_groups):", "                for i, g in enumerate(sorted(read_groups, reverse=True)):")])
M("c09-count-under-default", "C09", LRC, "                    self.feature_counter[feature_id].inc(group_id, count_value)\n                    self.all_features.add(feature_id)\n\n        elif assignment_type.is_unique():",
  "                    self.feature_counter[feature_id].inc(0, count_value)\n                    self.all_features.add(feature_id)\n\n        elif assignment_type.is_unique():",
  rule="P3", note="inconsistent reads counted under group 0 whatever their group")
M("c09-silent-tag-local", "C09", RGM, "        self.read_groups.add(tag_value)\n        return tag_value",
  "        group = tag_value\n        self.read_groups.add(group)\n        return group", expect="silent", note="local alias for the group")

# ---------------------------------------------------------------- C20
GTF = "src/gtf2db.py"
RM = "src/read_mapper.py"
M("c20-inplace-write", "C20", RM, "    dump_json_cache(args.bed_config_path, converted_beds)",
  "    with open(args.bed_config_path, 'w') as f_out:\n        json.dump(converted_beds, f_out)", rule="A1", note="revert one writer to in-place")
M("c20-raw-read", "C20", RM, "    converted_beds = load_json_cache(args.bed_config_path)\n\n    bed_filename",
  "    with open(args.bed_config_path, 'r') as f_in:\n        converted_beds = json.load(f_in)\n\n    bed_filename", rule="A2",
  note="revert one reader to bare json.load")
M("c20-helper-not-atomic", "C20", GTF, "    os.replace(tmp_path, config_path)\n", "    shutil_copy = open(config_path, 'w'); shutil_copy.write(open(tmp_path).read()); shutil_copy.close()\n",
  rule="A1", note="helper no longer publishes atomically: every caller is affected")
M("c20-helper-not-tolerant", "C20", GTF, "    except (OSError, ValueError):\n        return {}\n", "    except OSError:\n        return {}\n", rule="A2",
  note="helper no longer tolerates undecodable content")
M("c20-check-then-act", "C20", "isoquant.py", "    args.alignment_config_path = os.path.join(config_dir, 'alignment_config.json')\n",
  "    args.alignment_config_path = os.path.join(config_dir, 'alignment_config.json')\n    if not os.path.exists(args.db_config_path):\n        with open(args.db_config_path, 'w') as f_out:\n            json.dump({}, f_out)\n",
  rule="A3", note="check-then-act creation reintroduced")
M("c20-new-shared-file", "C20", "isoquant.py", "    args.alignment_config_path = os.path.join(config_dir, 'alignment_config.json')\n",
  "    args.alignment_config_path = os.path.join(config_dir, 'alignment_config.json')\n    args.stats_config_path = os.path.join(config_dir, 'stats.json')\n    open(args.stats_config_path, 'a').close()\n",
  rule="A1", note="a new shared file written in place")
M("c20-silent-rename-helper-local", "C20", GTF, "    tmp_path = \"%s.%d.tmp\" % (config_path, os.getpid())\n    with open(tmp_path, 'w') as f_out:\n        json.dump(cache, f_out)\n    os.replace(tmp_path, config_path)",
  "    scratch = \"%s.%d.tmp\" % (config_path, os.getpid())\n    with open(scratch, 'w') as handle:\n        json.dump(cache, handle)\n    os.replace(scratch, config_path)",
  expect="silent", note="rename helper locals")

# ---------------------------------------------------------------- C16
CMN = "src/common.py"
M("c16-ins-advances-ref", "C16", CMN, "        elif cigar_event == CigarEvent.insertion:\n            read_pos += event_len\n        elif cigar_event == CigarEvent.deletion:\n            ref_pos += event_len\n        elif cigar_event == CigarEvent.skipped:",
  "        elif cigar_event == CigarEvent.insertion:\n            read_pos += event_len\n            ref_pos += event_len\n        elif cigar_event == CigarEvent.deletion:\n            ref_pos += event_len\n        elif cigar_event == CigarEvent.skipped:",
  rule="Q1", note="insertion advances the reference cursor (open-block branch only)")
M("c16-softclip-no-close", "C16", CMN, "        elif cigar_event == CigarEvent.soft_clipping:\n            if current_ref_block_start:\n                if has_match:",
  "        elif cigar_event == CigarEvent.soft_clipping:\n            if current_ref_block_start and False:\n                if has_match:",
  rule="Q1", note="soft clip no longer closes the block")
M("c16-first-del-both", "C16", CMN, "            elif cigar_event == CigarEvent.deletion:\n                ref_pos += event_len\n            else:",
  "            elif cigar_event == CigarEvent.deletion:\n                ref_pos += event_len\n                read_pos += event_len\n            else:",
  rule="Q1", note="leading deletion (block-not-open branch) consumes query too")
M("c16-record-without-match", "C16", CMN, "    if current_ref_block_start and has_match:\n        ref_blocks.append", "    if current_ref_block_start:\n        ref_blocks.append",
  rule="Q1", note="final block recorded without has_match")
M("c16-hardclip-consumes", "C16", CMN, "            read_pos += event_len\n\n        cigar_index += 1",
  "            read_pos += event_len\n        elif cigar_event == CigarEvent.hard_clipping:\n            read_pos += event_len\n\n        cigar_index += 1",
  rule="Q1", note="hard clip consumes query")
M("c16-one-list-not-trimmed", "C16", "src/alignment_info.py", "            self.read_blocks = self.read_blocks[polyt_exon_count:]\n", "", rule="Q2",
  note="read_blocks not trimmed with polyT exons")
M("c16-slice-differs", "C16", "src/alignment_info.py", "            self.cigar_blocks = self.cigar_blocks[:-polya_exon_count]", "            self.cigar_blocks = self.cigar_blocks[:-polya_exon_count - 1]",
  rule="Q2", note="one list cut with another slice")
M("c16-moveref-intron-query", "C16", "src/polya_finder.py", "        elif cigar_event in [2, 3]:\n            # deletion or intron\n            reference_length_consumed += event_len",
  "        elif cigar_event in [2]:\n            # deletion\n            reference_length_consumed += event_len", rule="Q1",
  note="intron no longer consumes the reference in move_ref_coord")
M("c16-silent-match-helper-inline", "C16", CMN, "        elif cigar_event in CigarEvent.get_match_events():\n            read_pos += event_len",
  "        elif cigar_event in {CigarEvent.match, CigarEvent.seq_match, CigarEvent.seq_mismatch}:\n            read_pos += event_len",
  expect="silent", note="helper set inlined")
M("c16-silent-reorder-branches", "C16", CMN, "        elif cigar_event == CigarEvent.insertion:\n            read_pos += event_len\n        elif cigar_event == CigarEvent.deletion:\n            ref_pos += event_len\n        elif cigar_event == CigarEvent.skipped:",
  "        elif cigar_event == CigarEvent.deletion:\n            ref_pos += event_len\n        elif cigar_event == CigarEvent.insertion:\n            read_pos += event_len\n        elif cigar_event == CigarEvent.skipped:",
  expect="silent", note="two independent branches reordered")

# ---------------------------------------------------------------- C13
LRP = "src/long_read_profiles.py"
GI = "src/gene_info.py"
AP = "src/alignment_processor.py"
M("c13-maps-swapped", "C13", LRC, "                                        read_assignment.gene_info.intron_property_map, group_id)",
  "                                        read_assignment.gene_info.exon_property_map, group_id)", rule="F1",
  note="intron profile indexed against the exon table")
M("c13-split-exon-profile", "C13", AP, "                read_assignment.exon_gene_profile = alignment_info.combined_profile.read_exon_profile.gene_profile",
  "                read_assignment.exon_gene_profile = alignment_info.combined_profile.read_split_exon_profile.gene_profile", rule="F1",
  note="exon counter fed with the split-exon profile")
M("c13-read-side-profile", "C13", AP, "                read_assignment.intron_gene_profile = alignment_info.combined_profile.read_intron_profile.gene_profile",
  "                read_assignment.intron_gene_profile = alignment_info.combined_profile.read_intron_profile.read_profile", rule="F1",
  note="read-side profile stored instead of the gene-side one")
M("c13-ctor-positional-swap", "C13", LRP, "        return CombinedReadProfiles(intron_profile, exon_profile, split_exon_profile,",
  "        return CombinedReadProfiles(exon_profile, intron_profile, split_exon_profile,", rule="F1", note="positional arguments swapped")
M("c13-minus2-excluded", "C13", LRC, "            elif gene_feature_profile[i] == -1:\n", "            elif gene_feature_profile[i] == -2:\n", rule="F2",
  note="-2 (outside) counted as exclusion")
M("c13-incl-excl-swapped", "C13", LRC, "                self.exclusion_feature_counter[feature_id].inc(group_id)", "                self.inclusion_feature_counter[feature_id].inc(group_id)",
  rule="F2", note="-1 feeds the inclusion counter")
M("c13-table-skips-feature", "C13", GI, "            feature_properties.append(FeatureInfo(self.chr_id, feature[0], feature[1], strand_str,\n                                                  feature_type, list(gene_ids)))",
  "            if gene_ids:\n                feature_properties.append(FeatureInfo(self.chr_id, feature[0], feature[1], strand_str,\n                                                  feature_type, list(gene_ids)))",
  rule="F1", note="feature table skips features: indices shift")
M("c13-propmap-wrong-profile", "C13", GI, "            self.intron_property_map = self.set_feature_properties(self.all_isoforms_introns, self.intron_profiles)",
  "            self.intron_property_map = self.set_feature_properties(self.all_isoforms_introns, self.exon_profiles)", rule="F1",
  note="intron table built over exon features")
M("c13-silent-local", "C13", LRC, "                feature_id = feature_property_map[i].id\n                self.inclusion_feature_counter[feature_id].inc(group_id)",
  "                feature_id = feature_property_map[i].id\n                counter = self.inclusion_feature_counter[feature_id]\n                counter.inc(group_id)",
  expect="silent", note="counter taken through a local")

# ---------------------------------------------------------------- C02
M("c02-return1-before-count", "C02", LRC, "        if feature_count == 1:\n            return 1.0\n        if self.strategy_flags.use_ambiguous:\n            return 1.0 / float(feature_count)",
  "        if feature_count >= 1:\n            return 1.0\n        if self.strategy_flags.use_ambiguous:\n            return 1.0 / float(feature_count)", rule="W1",
  note="weight 1 for any positive feature count")
M("c02-k-minus-one", "C02", LRC, "            return 1.0 / float(feature_count)\n", "            return 1.0 / float(feature_count - 1)\n", rule="W1", note="1/(k-1)")
M("c02-incons-without-flag", "C02", LRC, "            if self.strategy_flags.use_ambiguous and self.strategy_flags.use_inconsistent:\n                return 1.0 / feature_count",
  "            if self.strategy_flags.use_ambiguous:\n                return 1.0 / feature_count", rule="W1",
  note="inconsistent ambiguous reads counted without use_inconsistent")
M("c02-flag-table", "C02", LRC, "        return self in [CountingStrategy.all, CountingStrategy.with_ambiguous]",
  "        return self in [CountingStrategy.all, CountingStrategy.with_ambiguous, CountingStrategy.unique_inconsistent]", rule="W1",
  note="unique_inconsistent now splits ambiguous reads (docs say unique only)")
M("c02-one-in-loop", "C02", LRC, "                self.feature_counter[feature_id].inc(group_id, count_value)\n                if count_value > 0:",
  "                self.feature_counter[feature_id].inc(group_id, 1.0)\n                if count_value > 0:", rule="W2", note="1.0 added per feature in the ambiguous loop")
M("c02-len-other-collection", "C02", LRC, "            count_value = self.read_counter.process_ambiguous(len(feature_ids))\n            for feature_id in feature_ids:\n                self.feature_counter[feature_id].inc(group_id, count_value)\n                if count_value > 0:",
  "            count_value = self.read_counter.process_ambiguous(len(read_assignment.isoform_matches))\n            for feature_id in feature_ids:\n                self.feature_counter[feature_id].inc(group_id, count_value)\n                if count_value > 0:",
  rule="W2", note="k taken from another collection than the loop (genes vs isoform matches)")
M("c02-confirm-three-exons", "C02", LRC, "                 len(read_assignment.corrected_exons) > 1))", "                 len(read_assignment.corrected_exons) > 2))", rule="W3",
  note="confirmation needs > 2 exons: 2-exon unique reads get zeroed")
M("c02-zero-confirmed", "C02", LRC, "            if feature_id in self.confirmed_features:\n                continue\n", "            if feature_id in self.confirmed_features and len(self.confirmed_features) > 1:\n                continue\n",
  rule="W3", note="confirmed features may be zeroed")
M("c02-unique-in-else", "C02", LRC, "        else:\n            self.feature_counter[feature_ids[0]].inc(group_id, 1.0)\n            self.all_features.add(feature_ids[0])\n            self.reads_for_tpm += 1",
  "        if read_id:\n            self.feature_counter[feature_ids[0]].inc(group_id, 1.0)\n            self.all_features.add(feature_ids[0])\n            self.reads_for_tpm += 1",
  rule="W2", note="raw counter: first feature gets 1.0 even for shared reads")
M("c02-silent-float", "C02", LRC, "                return 1.0 / feature_count\n", "                return 1.0 / float(feature_count)\n", expect="silent", note="float() spelling")
M("c02-silent-hoist", "C02", LRC, "            for feature_id in feature_ids:\n                count_value = self.read_counter.process_ambiguous(len(feature_ids))\n                self.feature_counter[feature_id].inc(group_id, count_value)",
  "            count_value = self.read_counter.process_ambiguous(len(feature_ids))\n            for feature_id in feature_ids:\n                self.feature_counter[feature_id].inc(group_id, count_value)",
  expect="silent", note="hoist the weight out of the loop")

# ---------------------------------------------------------------- C14
ECM = "src/exon_corrector.py"
M("c14-unflagged-terminal", "C14", ECM, "            elif event.event_type == MatchEventSubtype.terminal_exon_misalignment_left and \\\n                    self.params.correct_terminal_exons:",
  "            elif event.event_type == MatchEventSubtype.terminal_exon_misalignment_left:", rule="B1",
  note="terminal exon restored without its flag")
M("c14-none-row-true", "C14", "isoquant.py", "        'none': SplicSiteCorrectionStrategy(False, False, False, False, False, False),",
  "        'none': SplicSiteCorrectionStrategy(False, False, True, False, False, False),", rule="B1", note="preset none enables a correction")
M("c14-microintron-key-unflagged", "C14", ECM, "                if e.event_type == MatchEventSubtype.fake_micro_intron_retention and \\\n                        self.params.correct_microintron_retention:",
  "                if e.event_type == MatchEventSubtype.fake_micro_intron_retention:", rule="B1",
  note="store side of the -k-1 key idiom loses its flag (the use site looks unchanged)")
M("c14-misalignment-set-unflagged", "C14", ECM, "            if self.params.correct_skipped_exons:\n                misalignment_set.append(MatchEventSubtype.exon_misalignment)",
  "            misalignment_set.append(MatchEventSubtype.exon_misalignment)", rule="B1",
  note="insertion into the guard list loses its flag")
M("c14-wrong-side", "C14", ECM, "                    left_site = read_intron[0] if indel_count == 0 and mm_count <= 1 else ref_intron[0]",
  "                    left_site = read_intron[0] if indel_count == 0 and mm_count <= 1 else ref_intron[1]", rule="B2",
  note="left site takes the annotated right site")
M("c14-region-both-ends", "C14", ECM, "                corrected_read_region = (isoform_region[0], corrected_read_region[1])",
  "                corrected_read_region = (isoform_region[0], isoform_region[1])", rule="B2", note="left event also moves the right end")
M("c14-bed-off-by-one", "C14", "src/assignment_io.py", "                            \",\".join([str(e[1] - e[0] + 1) for e in exon_blocks]),",
  "                            \",\".join([str(e[1] - e[0]) for e in exon_blocks]),", rule="B3", note="block size off by one")
M("c14-bed-chromstart", "C14", "src/assignment_io.py", "                           (chr_id, exon_blocks[0][0] - 1, exon_blocks[-1][1],", "                           (chr_id, exon_blocks[0][0], exon_blocks[-1][1],",
  rule="B3", note="chromStart not converted to 0-based")
M("c14-fuzzy-else-annot", "C14", ECM, "        else:\n            corrected_introns = read_introns\n", "        else:\n            corrected_introns = self.intron_profile_constructor.match_genomic_features(read_introns)\n",
  rule="B1", note="without the flag, introns are silently snapped to annotated ones")
M("c14-silent-reorder-sum", "C14", "src/assignment_io.py", "                            \",\".join([str(e[1] - e[0] + 1) for e in exon_blocks]),",
  "                            \",\".join([str(1 + e[1] - e[0]) for e in exon_blocks]),", expect="silent", note="arithmetic reordered")
M("c14-silent-nested-if", "C14", ECM, "            if event.event_type == MatchEventSubtype.fake_terminal_exon_left and \\\n                    self.params.correct_fake_terminal_exons:",
  "            if self.params.correct_fake_terminal_exons and \\\n                    event.event_type == MatchEventSubtype.fake_terminal_exon_left:", expect="silent", note="conjuncts swapped")

# ---------------------------------------------------------------- C03
TPR = "src/transcript_printer.py"
M("c03-no-continue", "C03", TPR, "                               (model.transcript_id, str(model.exon_blocks)))\n                continue\n",
  "                               (model.transcript_id, str(model.exon_blocks)))\n", rule="G1", note="invalid models are warned about but still printed")
M("c03-print-storage-directly", "C03", TPR, "            for model_index in gene_to_model_dict[gene_id]:\n                model = transcript_model_storage[model_index]\n                assert model.gene_id == gene_id\n",
  "            for model in transcript_model_storage:\n                if model.gene_id != gene_id:\n                    continue\n",
  rule="G1", note="printing loop bypasses the registry of validated models")
M("c03-known-ends-corrected", "C03", GMC, "            if model.transcript_type == TranscriptModelType.known:\n                pre_filtered_storage.append(model)\n                continue\n            # check coverage",
  "            if model.transcript_type == TranscriptModelType.known:\n                self.correct_novel_transcript_ends(model, self.transcript_read_ids[model.transcript_id])\n                pre_filtered_storage.append(model)\n                continue\n            # check coverage",
  rule="G3", note="end correction applied to reference models (mutates the annotation's shared exon list)")
M("c03-new-inplace-store", "C03", GMC, "            model.gene_id = transcript_to_new_gene_id[model.transcript_id]\n",
  "            model.gene_id = transcript_to_new_gene_id[model.transcript_id]\n            model.exon_blocks[0] = (max(1, model.exon_blocks[0][0]), model.exon_blocks[0][1])\n",
  rule="G3", note="a new unguarded in-place store into exon_blocks")
M("c03-strand-from-gene", "C03", GI, "        transcript_model.strand = gene_info.isoform_strands[isoform_id]", "        transcript_model.strand = gene_info.gene_strands[gene_info.gene_id_map[isoform_id]]",
  rule="G2", note="reference strand taken from the gene, not the transcript")
M("c03-known-elsewhere", "C03", GMC, "                                        transcript_gene, [coordinates], transcript_type)",
  "                                        transcript_gene, [coordinates], TranscriptModelType.known)", rule="G2",
  note="a novel mono-exon model created with type known")
M("c03-extended-filtered", "C03", TPR, "    for m in novel_model_storage:\n        all_models.append(m)\n\n    return all_models, gene_info",
  "    for m in novel_model_storage:\n        if len(m.exon_blocks) > 1:\n            all_models.append(m)\n\n    return all_models, gene_info", rule="G2",
  note="extended annotation silently drops mono-exon novel models")
M("c03-silent-if-block", "C03", TPR, "            gene_id = model.gene_id\n            gene_to_model_dict[gene_id].append(i)\n",
  "            gene_id = model.gene_id\n            registry_row = gene_to_model_dict[gene_id]\n            registry_row.append(i)\n", expect="silent", note="registry append through a local")

# ---------------------------------------------------------------- C04
M("c04-swapped-suffix", "C04", GMC, "                        transcript_type = TranscriptModelType.novel_in_catalog\n                        id_suffix = TranscriptNaming.nic_transcript_suffix",
  "                        transcript_type = TranscriptModelType.novel_in_catalog\n                        id_suffix = TranscriptNaming.nnic_transcript_suffix", rule="N1", note="nnic suffix with nic type")
M("c04-any-for-all", "C04", GMC, "                    if all(intron in self.known_introns for intron in intron_path):", "                    if any(intron in self.known_introns for intron in intron_path):",
  rule="N1", note="one annotated intron suffices for nic")
M("c04-known-introns-other", "C04", GMC, "        self.known_introns = set(self.gene_info.intron_profiles.features)", "        self.known_introns = set(self.intron_graph.intron_collector.clustered_introns.keys())",
  rule="N1", note="known_introns built from read-derived introns")
M("c04-path-mismatch", "C04", GMC, "                    if all(intron in self.known_introns for intron in intron_path):", "                    if all(intron in self.known_introns for intron in intron_path[1:]):",
  rule="N1", note="first intron not tested")
M("c04-drop-without-delete", "C04", GMC, "            if model.transcript_id in to_substitute:\n                #logger.debug(\"Novel model %s has a similar isoform %s\" % (model.transcript_id, to_substitute[model.transcript_id]))\n                self.delete_from_storage(model.transcript_id)\n                continue\n\n            filtered_storage.append(model)",
  "            if model.transcript_id in to_substitute:\n                continue\n\n            filtered_storage.append(model)", rule="N2", note="second-pass duplicate dropped but its reads kept")
M("c04-new-filter-no-delete", "C04", GMC, "            filtered_storage.append(model)\n\n        self.transcript_model_storage = filtered_storage\n\n    def delete_from_storage",
  "            if model.strand == '.':\n                continue\n            filtered_storage.append(model)\n\n        self.transcript_model_storage = filtered_storage\n\n    def delete_from_storage",
  rule="N2", note="a new drop path in pre_filter without delete_from_storage")
M("c04-silent-issubset", "C04", GMC, "                    if all(intron in self.known_introns for intron in intron_path):", "                    if set(intron_path).issubset(self.known_introns):",
  expect="silent", note="equivalent subset idiom")
M("c04-silent-negated", "C04", GMC, None, None, expect="silent", note="guard negated and branches swapped",
  edits=[(GMC, "                    if all(intron in self.known_introns for intron in intron_path):\n                        transcript_type = TranscriptModelType.novel_in_catalog\n                        id_suffix = TranscriptNaming.nic_transcript_suffix\n                    else:\n                        transcript_type = TranscriptModelType.novel_not_in_catalog\n                        id_suffix = TranscriptNaming.nnic_transcript_suffix",
          "                    if any(intron not in self.known_introns for intron in intron_path):\n                        transcript_type = TranscriptModelType.novel_not_in_catalog\n                        id_suffix = TranscriptNaming.nnic_transcript_suffix\n                    else:\n                        transcript_type = TranscriptModelType.novel_in_catalog\n                        id_suffix = TranscriptNaming.nic_transcript_suffix")])

# ---------------------------------------------------------------- C08
MRM = "src/multimap_resolver.py"
IG = "src/intron_graph.py"
M("c08-swap-priority", "C08", MRM, "        if consistent_assignments:\n            return self.filter_assignments(assignment_list, consistent_assignments)\n\n        if primary_inconsistent:\n            return self.select_best_inconsistent(assignment_list, primary_inconsistent)",
  "        if primary_inconsistent:\n            return self.select_best_inconsistent(assignment_list, primary_inconsistent)\n\n        if consistent_assignments:\n            return self.filter_assignments(assignment_list, consistent_assignments)",
  rule="M1", note="primary inconsistent beats secondary consistent")
M("c08-class-changed", "C08", MRM, "                if not a.multimapper and not a.assignment_type == ReadAssignmentType.ambiguous:\n                    primary_unique.append(i)",
  "                if not a.assignment_type == ReadAssignmentType.ambiguous:\n                    primary_unique.append(i)", rule="M1",
  note="secondary alignments enter the top class")
M("c08-loser-not-suspended", "C08", MRM, "                assignment.assignment_type = ReadAssignmentType.suspended\n                assignment.gene_assignment_type = ReadAssignmentType.suspended",
  "                assignment.gene_assignment_type = ReadAssignmentType.suspended", rule="M2", note="losers keep their assignment_type")
M("c08-gate-removed", "C08", DSP, "                elif resolved_assignment.assignment_type == ReadAssignmentType.suspended:\n                    continue\n", "", rule="M2",
  note="loader no longer drops suspended records")
M("c08-gate-other-field", "C08", DSP, "                elif resolved_assignment.assignment_type == ReadAssignmentType.suspended:", "                elif resolved_assignment.gene_assignment_type == ReadAssignmentType.suspended:",
  rule="M2", note="gate tests the gene field; ignore_multimapper only suspends assignment_type (two sites, each fine alone)")
M("c08-evidence-loop-unguarded", "C08", IG, "            if assignment.multimapper or any(intron in self.intron_collector.discarded_introns for intron in assignment.corrected_introns):",
  "            if any(intron in self.intron_collector.discarded_introns for intron in assignment.corrected_introns):", rule="M3",
  note="graph edges built from multimappers")
M("c08-terminal-unguarded", "C08", IG, "            if assignment.multimapper or not assignment.corrected_introns:\n                continue\n            if any(intron in self.intron_collector.discarded_introns for intron in\n                   assignment.corrected_introns):",
  "            if not assignment.corrected_introns:\n                continue\n            if any(intron in self.intron_collector.discarded_introns for intron in\n                   assignment.corrected_introns):",
  rule="M3", note="terminal positions collected from multimappers")
M("c08-field-one-ctor", "C08", ISO, "        self.penalty_score = 0.0\n        self.isoforms = []", "        self.penalty_score = 0.0\n        self.mapq = read_assignment.mapping_quality\n        self.isoforms = []",
  rule="M4", note="field added to the high-memory constructor only")
M("c08-start-from-corrected", "C08", ISO, "        exons = read_list_of_pairs(infile, read_int)\n        read_assignment.start = exons[0][0]\n        read_assignment.end = exons[-1][1]\n        read_list_of_pairs(infile, read_int)",
  "        read_list_of_pairs(infile, read_int)\n        exons = read_list_of_pairs(infile, read_int)\n        read_assignment.start = exons[0][0]\n        read_assignment.end = exons[-1][1]",
  rule="M4", note="default path takes start/end from corrected exons, high-memory path from original exons (duplicate detection differs)")
M("c08-silent-rename-list", "C08", MRM, None, None, expect="silent", note="rename an index list",
  edits=[(MRM, "        noninformative = []\n", "        uninformative = []\n"), (MRM, "                noninformative.append(i)", "                uninformative.append(i)"),
         (MRM, "        if noninformative:\n            return self.select_noninformative(assignment_list, noninformative)", "        if uninformative:\n            return self.select_noninformative(assignment_list, uninformative)")])

# ---------------------------------------------------------------- C05
M("c05-drop-long-reads", "C05", AP, "            alignment_info.add_polya_info(self.polya_finder, self.polya_fixer)\n            if self.params.cage:\n                alignment_info.add_cage_info(self.cage_finder)\n            alignment_info.construct_profiles(profile_constructor)",
  "            if len(alignment_info.read_exons) > 30:\n                continue\n            alignment_info.add_polya_info(self.polya_finder, self.polya_fixer)\n            if self.params.cage:\n                alignment_info.add_cage_info(self.cage_finder)\n            alignment_info.construct_profiles(profile_constructor)",
  rule="D1", note="reads with > 30 exons silently dropped")
M("c05-drop-by-coordinate", "C05", AP, "            read_id = alignment.query_name\n            logger.debug(\"=== Processing read \" + read_id + \" ===\")",
  "            if alignment.reference_start % 256 == 0:\n                continue\n            read_id = alignment.query_name\n            logger.debug(\"=== Processing read \" + read_id + \" ===\")",
  rule="D1", note="drop depends on a coordinate")
M("c05-append-conditional", "C05", AP, "            assignment_storage.append(read_assignment)\n            logger.debug(\"=== Finished read \" + read_id + \" ===\")",
  "            if read_assignment.isoform_matches:\n                assignment_storage.append(read_assignment)\n            logger.debug(\"=== Finished read \" + read_id + \" ===\")",
  rule="D1", note="append made conditional")
M("c05-break-region-loop", "C05", AP, "                alignments = alignment_storage.get_alignments(new_region)\n                yield self.process_alignments_in_region(new_region, alignments)",
  "                alignments = alignment_storage.get_alignments(new_region)\n                yield self.process_alignments_in_region(new_region, alignments)\n                if new_region[1] - new_region[0] > 10000000:\n                    break",
  rule="D3", note="region loop can exit early")
M("c05-sibling-filter", "C05", AP, "            if self.params.min_mapq and alignment.mapping_quality < self.params.min_mapq:\n                continue\n\n            read_id = alignment.query_name\n            alignment_info = AlignmentInfo(alignment)",
  "            read_id = alignment.query_name\n            alignment_info = AlignmentInfo(alignment)", rule="D2", note="min_mapq filter removed from intergenic regions only")
M("c05-stats-not-partition", "C05", AP, "            elif alignment.is_supplementary:\n                self.alignment_stat_counter.add(AlignmentType.supplementary)\n            elif alignment.reference_id != -1:",
  "            if alignment.is_supplementary:\n                self.alignment_stat_counter.add(AlignmentType.supplementary)\n            elif alignment.reference_id != -1:",
  rule="D4", note="secondary records counted twice (elif -> if)")
M("c05-no-final-flush", "C05", AP, "        if alignment_storage.region:\n            for res in self.forward_alignments(alignment_storage):\n                yield res\n\n    def forward_alignments",
  "    def forward_alignments", rule="D3", note="last region of the chromosome never processed")
M("c05-printer-checker", "C05", DSP, "            self.basic_printer = BasicTSVAssignmentPrinter(sample.out_assigned_tsv, self.args, self.io_support,\n                                                           additional_header=self.common_header, gzipped=gzipped)",
  "            self.basic_printer = BasicTSVAssignmentPrinter(sample.out_assigned_tsv, self.args, self.io_support,\n                                                           additional_header=self.common_header, gzipped=gzipped)\n            self.basic_printer.assignment_checker = None",
  rule="D1", note="printer filter rebound to None after construction: nothing is printed")
M("c05-silent-nested-if", "C05", AP, "            if alignment.reference_id == -1 or alignment.is_supplementary or \\\n                    (self.params.no_secondary and alignment.is_secondary):\n                continue\n\n            if self.params.min_mapq and alignment.mapping_quality < self.params.min_mapq:\n                continue\n\n            read_id = alignment.query_name\n            logger.debug",
  "            if alignment.reference_id == -1:\n                continue\n            if alignment.is_supplementary:\n                continue\n            if self.params.no_secondary:\n                if alignment.is_secondary:\n                    continue\n\n            if self.params.min_mapq and alignment.mapping_quality < self.params.min_mapq:\n                continue\n\n            read_id = alignment.query_name\n            logger.debug",
  expect="silent", note="compound condition rewritten as nested ifs")

TAIL = "        last_covered = split_regions[-1][1] if split_regions else genomic_region[0] - 1\n        if last_covered < genomic_region[1]:\n            split_regions.append((last_covered + 1, genomic_region[1]))\n\n        return split_regions"
M("c05-revert-tail-region", "C05", AP, TAIL, "        return split_regions", rule="D6",
  note="revert of fix ee9157a: tail after a valley in the last bin / single-bin pile-up is in no sub-region")
M("c05-tail-only-nonempty", "C05", AP, TAIL,
  "        if split_regions and split_regions[-1][1] < genomic_region[1]:\n            split_regions.append((split_regions[-1][1] + 1, genomic_region[1]))\n\n        return split_regions",
  rule="D6", note="tail repaired only when the list is non-empty: a single-bin pile-up still returns []")
M("c05-region-gap", "C05", AP, "split_regions.append((max(current_start * AbstractAlignmentStorage.COVERAGE_BIN + 1, genomic_region[0]),",
  "split_regions.append((max(current_start * AbstractAlignmentStorage.COVERAGE_BIN + 2, genomic_region[0]),", rule="D6",
  note="consecutive sub-regions leave one position uncovered")
M("c05-region-end-one-bin-short", "C05", AP, "min(pos * AbstractAlignmentStorage.COVERAGE_BIN, genomic_region[1])))",
  "min((pos - 1) * AbstractAlignmentStorage.COVERAGE_BIN, genomic_region[1])))", rule="D6",
  note="sub-region ends one bin before the next one starts")
M("c05-tail-gap", "C05", AP, "split_regions.append((last_covered + 1, genomic_region[1]))", "split_regions.append((last_covered + 2, genomic_region[1]))",
  rule="D6", note="tail region starts two past the covered prefix")
M("c05-silent-tail-guard-form", "C05", AP, TAIL,
  "        if not split_regions:\n            return [genomic_region]\n        if split_regions[-1][1] < genomic_region[1]:\n            split_regions.append((split_regions[-1][1] + 1, genomic_region[1]))\n\n        return split_regions",
  expect="silent", note="tail repair written with an early return for the empty list and direct subscripts")
M("c05-silent-tail-overlap", "C05", AP, "split_regions.append((last_covered + 1, genomic_region[1]))", "split_regions.append((last_covered, genomic_region[1]))",
  expect="silent", note="tail region overlaps the previous one by a position: nothing uncovered (duplicates are resolved later)")
M("c05-revert-end-bin", "C05", AP, "end_index = self.alignment_start_index[end_bin + 1]", "end_index = self.alignment_start_index[end_bin]",
  rule="D7", note="revert of fix c0ee55d")
M("c05-start-bin-late", "C05", AP, "start_index = self.alignment_end_index[start_bin]", "start_index = self.alignment_end_index[start_bin + 1]",
  rule="D7", note="slice starts one bin late: alignments ending in the region's first bin skipped")
M("c05-fill-short", "C05", AP, "        for pos in range(current_bin_region_end + 1, current_bin_region_start - 1, -1):\n            if pos not in self.alignment_start_index:",
  "        for pos in range(current_bin_region_end, current_bin_region_start - 1, -1):\n            if pos not in self.alignment_start_index:",
  rule="D7", note="start index not filled for last bin + 1")
M("c05-end-index-keyed-by-open-end", "C05", AP, "bin_end_position = (alignment.reference_end - 1) // self.COVERAGE_BIN",
  "bin_end_position = alignment.reference_end // self.COVERAGE_BIN", rule="D7", note="end index keyed by the half-open end")
M("c05-fetch-half-open", "C05", AP, "bp[0].fetch(self.chr_id, self.start, self.end + 1,", "bp[0].fetch(self.chr_id, self.start, self.end,",
  rule="D7", note="BAM fetch misses alignments starting at the last position of the region")
M("c05-no-overlap-filter", "C05", AP, "            if overlaps(region, (alignment.reference_start, alignment.reference_end - 1)):\n                yield bam_index, alignment",
  "            if alignment.reference_start <= region[1]:\n                yield bam_index, alignment", rule="D7",
  note="candidate filter is no longer the closed-interval overlap")
M("c05-silent-inline-bins", "C05", AP, "        end_bin = region[1] // self.COVERAGE_BIN\n        end_index = self.alignment_start_index[end_bin + 1]",
  "        end_index = self.alignment_start_index[region[1] // AbstractAlignmentStorage.COVERAGE_BIN + 1]", expect="silent",
  note="bin computed inline, other spelling of the constant")

# ---------------------------------------------------------------- C07
IQ = "isoquant.py"
M("c07-revert-stale-markers", "C07", IQ, "    if not args.resume:\n        clean_progress_markers(args)\n    save_params(args)", "    save_params(args)",
  rule="R8", note="revert of fix 3a9bd82: parameters of a new run saved while markers of a killed earlier run are still on disk")
M("c07-markers-cleaned-after-params", "C07", IQ, "    if not args.resume:\n        clean_progress_markers(args)\n    save_params(args)",
  "    save_params(args)\n    if not args.resume:\n        clean_progress_markers(args)", rule="R8",
  note="invalidation after publication: a kill between the two leaves stale markers with the new .params")
M("c07-cleaner-misses-processed", "C07", IQ, 'if marker.endswith(("_lock", "_collected", "_processed")):', 'if marker.endswith(("_lock", "_collected")):',
  rule="R8", note="the clean-up does not cover the _processed markers")
M("c07-silent-cleaner-unconditional-name", "C07", IQ, 'if marker.endswith(("_lock", "_collected", "_processed")):',
  'if marker.endswith("_lock") or marker.endswith("_collected") or marker.endswith("_processed"):', expect="silent",
  note="suffix test written as a disjunction")
M("c07-revert-tmp-close", "C07", DSP, "    tmp_printer.close()\n\n    logger.info(\"Finished processing chromosome \" + chr_id)", "    logger.info(\"Finished processing chromosome \" + chr_id)",
  rule="R1", note="revert: temp-file printer open (terminator unwritten) when _collected is created")
M("c07-revert-agg-close", "C07", DSP, "    aggregator.close()\n    tmp_gff_printer.close()", "    tmp_gff_printer.close()", rule="R1",
  note="revert: BED/TSV printers of the aggregator open at the _processed marker")
M("c07-marker-before-dump", "C07", DSP, None, None, rule="R4", note="marker moved above the dump of the counters",
  edits=[(DSP, "    aggregator.global_counter.dump()\n    aggregator.read_stat_counter.dump(read_stat_file)\n",
          "    open(lock_file, \"w\").close()\n    aggregator.global_counter.dump()\n    aggregator.read_stat_counter.dump(read_stat_file)\n"),
         (DSP, "    logger.info(\"Finished processing chromosome \" + chr_id)\n    open(lock_file, \"w\").close()\n\n    return aggregator.read_stat_counter, transcript_stat_counter",
          "    logger.info(\"Finished processing chromosome \" + chr_id)\n\n    return aggregator.read_stat_counter, transcript_stat_counter")])
M("c07-new-printer-no-close", "C07", DSP, "    novel_model_storage = []\n\n    loader = ReadAssignmentLoader(chr_dump_file, gffutils_db, current_chr_record, multimapped_reads)",
  "    novel_model_storage = []\n    extra_bed_printer = BEDPrinter(chr_dump_file + \".raw.bed\", args)\n\n    loader = ReadAssignmentLoader(chr_dump_file, gffutils_db, current_chr_record, multimapped_reads)",
  rule="R1", note="a new printer added to the chromosome task and never closed")
M("c07-close-conditional", "C07", DSP, "    aggregator.close()\n    tmp_gff_printer.close()", "    if construct_models:\n        aggregator.close()\n    tmp_gff_printer.close()", rule="R1",
  note="close made conditional: with --no_model_construction the printers stay open at the marker")
M("c07-class-close-incomplete", "C07", "src/transcript_printer.py", "        if self.output_r2t and not self.out_r2t.closed:\n            self.out_r2t.close()\n\n    def dump(self",
  "\n    def dump(self", rule="R1", note="GFFPrinter.close() forgets the read-to-model map handle")
M("c07-terminator-in-del", "C07", "src/assignment_io.py", "    def __del__(self):\n        self.close()\n\n    # writes the stream terminator; must be called before the file is declared complete\n    def close(self):\n        if not self.dumper.closed:\n            write_short_int(SHORT_TERMINATION_INT, self.dumper)\n            self.dumper.close()",
  "    def __del__(self):\n        write_short_int(SHORT_TERMINATION_INT, self.dumper)\n        self.close()\n\n    def close(self):\n        if not self.dumper.closed:\n            self.dumper.close()",
  rule="R1", note="terminator written by __del__ only")
M("c07-revert-merge-invalidate", "C07", DSP, "        clean_locks(chr_ids, dump_filename, reads_processed_lock_file_name)\n        if not self.args.no_model_construction:\n            self.merge_transcript_models",
  "        if not self.args.no_model_construction:\n            self.merge_transcript_models", rule="R2", note="revert: parts merged/deleted with live _processed markers")
M("c07-revert-cleanup-order", "C07", DSP, "            clean_locks(chr_ids, saves_file, reads_collected_lock_file_name)\n", "", rule="R2",
  note="clean-up deletes save files while _collected markers may remain")
M("c07-revert-gunzip-atomic", "C07", DSP, "                        with open(tmp_reference, \"w\") as outf:\n                            shutil.copyfileobj(gzip.open(self.args.reference, \"rt\"), outf)\n                        os.replace(tmp_reference, gunzipped_reference)",
  "                        with open(gunzipped_reference, \"w\") as outf:\n                            shutil.copyfileobj(gzip.open(self.args.reference, \"rt\"), outf)", rule="R3",
  note="revert: reference gunzipped in place, reused by --resume if it exists")
M("c07-skip-on-artefact", "C07", DSP, "    if os.path.exists(lock_file) and args.resume:\n        logger.info(\"Processed assignments from chromosome \" + chr_id + \" detected\")",
  "    if os.path.exists(read_stat_file) and args.resume:\n        logger.info(\"Processed assignments from chromosome \" + chr_id + \" detected\")", rule="R3",
  note="stage 2 skipped because a statistics file exists")
M("c07-remove-elsewhere", "C07", "src/long_read_counter.py", "    def dump_ungrouped(self, all_features):\n        with self.get_output_file_handler() as output_file:",
  "    def dump_ungrouped(self, all_features):\n        if os.path.exists(self.output_tpm_file_name):\n            os.remove(self.output_tpm_file_name)\n        with self.get_output_file_handler() as output_file:",
  rule="R2", note="files removed outside the known consumers")
M("c07-silent-with", "C07", DSP, "    info_dumper = open(info_file, \"wb\")\n        write_int(total_assignments, info_dumper)\n        write_int(polya_assignments, info_dumper)\n        write_list(list(all_read_groups), info_dumper, write_string)\n        info_dumper.close()",
  "    with open(info_file, \"wb\") as info_dumper:\n            write_int(total_assignments, info_dumper)\n            write_int(polya_assignments, info_dumper)\n            write_list(list(all_read_groups), info_dumper, write_string)",
  expect="silent", note="explicit close replaced by with")
M("c07-silent-rename-helper-var", "C07", DSP, "    aggregator.close()\n    tmp_gff_printer.close()\n    tmp_extended_gff_printer.close()\n    sqanti_t2t_printer.close()",
  "    for writer in (aggregator, tmp_gff_printer):\n        pass\n    aggregator.close()\n    tmp_extended_gff_printer.close()\n    sqanti_t2t_printer.close()\n    tmp_gff_printer.close()",
  expect="silent", note="close calls reordered")
M("c07-revert-stat-restore", "C07", DSP, "                self.alignment_stat_counter = EnumStats(alignment_stat_file)\n                return", "                return", rule="R5",
  note="revert: skip path of collect_reads does not restore the alignment statistics")

# ---------------------------------------------------------------- C10
M("c10-revert-known-reset", "C10", DSP, "    GraphBasedModelConstructor.detected_known_isoforms = set()\n", "", rule="S1",
  note="revert: class-level registry of detected known isoforms never reset")
M("c10-revert-stat-reset", "C10", DSP, "        self.all_read_groups = set()\n        self.alignment_stat_counter = EnumStats()\n        if self.args.resume",
  "        self.all_read_groups = set()\n        if self.args.resume", rule="S1", note="revert: alignment statistics accumulate over experiments")
M("c10-revert-sticky-flag", "C10", DSP, "            self.preset_monointronic_polya or self.args.requires_polya_for_construction,",
  "            self.args.require_monointronic_polya or self.args.requires_polya_for_construction,", rule="S1", note="revert: sticky polyA requirement")
M("c10-new-class-cache", "C10", "src/long_read_assigner.py", "class LongReadAssigner:\n    def __init__(self, gene_info, params, quick_mode=False):\n        self.gene_info = gene_info",
  "class LongReadAssigner:\n    score_cache = {}\n\n    def __init__(self, gene_info, params, quick_mode=False):\n        LongReadAssigner.score_cache[params.delta] = gene_info.start\n        self.gene_info = gene_info",
  rule="S1", note="a new class-level cache written at run time")
M("c10-reset-conditional", "C10", DSP, "        self.all_read_groups = set()\n        self.alignment_stat_counter = EnumStats()\n        if self.args.resume",
  "        self.all_read_groups = set()\n        if not self.args.read_assignments:\n            self.alignment_stat_counter = EnumStats()\n        if self.args.resume", rule="S1",
  note="reset made conditional")
M("c10-groups-accumulate", "C10", DSP, "        total_assignments, polya_found, self.all_read_groups = self.load_read_info(saves_file)",
  "        total_assignments, polya_found, groups = self.load_read_info(saves_file)\n        self.all_read_groups.update(groups)", expect="silent",
  note="update after an unconditional fresh write in the same iteration: still independent")
M("c10-groups-accumulate-noreset", "C10", DSP, None, None, rule="S1", note="read groups accumulate across experiments",
  edits=[(DSP, "        total_assignments, polya_found, self.all_read_groups = self.load_read_info(saves_file)",
          "        total_assignments, polya_found, groups = self.load_read_info(saves_file)\n        self.all_read_groups.update(groups)"),
         (DSP, "        self.all_read_groups = set()\n        self.alignment_stat_counter = EnumStats()\n        if self.args.resume", "        self.alignment_stat_counter = EnumStats()\n        if self.args.resume")])
M("c10-silent-instance-state", "C10", "src/graph_based_model_construction.py", "        self.transcript2transcript = []\n\n    def get_transcript_id(self):",
  "        self.transcript2transcript = []\n        self.seen_paths = set()\n\n    def get_transcript_id(self):", expect="silent", note="new per-instance state")

# ---------------------------------------------------------------- C06
LRA2 = "src/long_read_assigner.py"
M("c06-revert-gene-ids", "C06", GI, "feature_type, sorted(gene_ids)))", "feature_type, list(gene_ids)))", rule="O1", note="revert: gene list of a shared feature in set order")
M("c06-unsorted-ambiguous", "C06", LRA2, "        for isoform_id in sorted(isoform_ids):\n            isoform_matches.append(self.categorize_correct_splice_match(combined_read_profile, isoform_id))",
  "        for isoform_id in isoform_ids:\n            isoform_matches.append(self.categorize_correct_splice_match(combined_read_profile, isoform_id))", rule="O1",
  note="ambiguous matches listed in the order of a list derived from set iteration (three calls away)")
M("c06-unsorted-inconsistencies", "C06", LRA2, "        for isoform_id in sorted(matched_isoforms):\n            # logger.debug(\"Checking isoform %s\" % isoform_id)",
  "        for isoform_id in matched_isoforms:\n            # logger.debug(\"Checking isoform %s\" % isoform_id)", expect="silent",
  note="read_matches dict insertion order follows best_candidates (a list filtered from a sorted list): deterministic")
M("c06-groups-written-in-set-order", "C06", LRC, "            self.ordered_groups = sorted(read_groups)\n", "            self.ordered_groups = list(read_groups)\n", rule="O1",
  note="grouped table columns in set order")
M("c06-features-unsorted", "C06", LRC, "        all_features = sorted(filter(lambda x: x is not None, self.all_features))", "        all_features = list(filter(lambda x: x is not None, self.all_features))",
  rule="O1", note="count table rows in set order")
M("c06-as-completed", "C06", DSP, "                results = proc.map(*model_gen, chunksize=1)", "                futures = [proc.submit(construct_models_in_parallel, *a) for a in zip(*model_gen[1:])]\n                results = [f.result() for f in concurrent.futures.as_completed(futures)]",
  rule="O2", note="results consumed in completion order")
M("c06-merge-unsorted", "C06", "src/file_utils.py", "    file_names.sort(key=lambda s: [int(t) if t.isdigit() else t.lower() for t in re.split('(\\d+)', s)])\n", "", rule="O2",
  note="per-chromosome parts merged in chromosome-length order")
M("c06-tiebreak-dropped", "C06", GMC, "        ordered_genes = sorted(gene_counts.items(), key=lambda x: (x[1], x[0]), reverse=True)", "        ordered_genes = sorted(gene_counts.items(), key=lambda x: x[1], reverse=True)",
  rule="O1", note="tie between genes resolved by dict insertion order = set iteration order")
M("c06-hash-call", "C06", GMC, "                        transcript_gene = (TranscriptNaming.novel_gene_prefix + self.gene_info.chr_id +\n                                           \"_\" + str(self.get_transcript_id()))",
  "                        transcript_gene = (TranscriptNaming.novel_gene_prefix + self.gene_info.chr_id +\n                                           \"_\" + str(hash(str(intron_path)) % 100000))", rule="O1",
  note="id derived from hash(str)")
M("c06-silent-int-set", "C06", "src/intron_graph.py", "        for intron in to_remove:\n            self.discard(intron)\n            del self.intron_correction_map[intron]",
  "        for intron in list(to_remove):\n            self.discard(intron)\n            del self.intron_correction_map[intron]", expect="silent", note="list() of an int-tuple set")
M("c06-silent-membership-set", "C06", LRC, "        self.confirmed_features = set()\n        self.output_stats_file_name", "        self.confirmed_features = set()\n        self.seen_groups = set(read_groups) if read_groups else set()\n        self.output_stats_file_name",
  expect="silent", note="a new str set that is only stored")

# ---------------------------------------------------------------- C18 (K3, K4)
M("c18-revert-window", "C18", AIO, "                if region_start < gene_info.all_read_region_start or region_end > gene_info.all_read_region_end:\n                    gene_info.set_reference_sequence(region_start, region_end, self.chr_record)\n", "",
  rule="K4", note="revert: reference window not widened to the loaded read")
M("c18-window-only-left", "C18", AIO, "                region_end = max(gene_info.all_read_region_end, assignment.exons[-1][1])", "                region_end = gene_info.all_read_region_end",
  rule="K4", note="window widened on the left side only")
M("c18-rev-table-entry", "C18", "src/common.py", 'CANONICAL_REV_SITES = {("CT", "AC"), ("CT", "GC"), ("GT", "AT")}', 'CANONICAL_REV_SITES = {("CT", "AC"), ("GC", "CT"), ("GT", "AT")}',
  rule="K3", note="one reverse-strand pair is not the reverse complement of a forward pair")
M("c18-silent-window-helper", "C18", AIO, "                region_start = min(gene_info.all_read_region_start, assignment.exons[0][0])\n                region_end = max(gene_info.all_read_region_end, assignment.exons[-1][1])\n                if region_start < gene_info.all_read_region_start or region_end > gene_info.all_read_region_end:\n                    gene_info.set_reference_sequence(region_start, region_end, self.chr_record)",
  "                new_start = min(gene_info.all_read_region_start, assignment.exons[0][0])\n                new_end = max(gene_info.all_read_region_end, assignment.exons[-1][1])\n                if (new_start, new_end) != (gene_info.all_read_region_start, gene_info.all_read_region_end):\n                    gene_info.set_reference_sequence(new_start, new_end, self.chr_record)",
  expect="silent", note="same widening, locals renamed and guard rewritten")

# ---------------------------------------------------------------- C11 / X1
PVM = "src/polya_verification.py"
M("x1-revert-extra-right", "C11", LRA2, "            extra_right = 1 if read_region[1] - self.params.delta > transcript_end else 0", "            extra_right = 1 if read_region[0] - self.params.delta > transcript_end else 0",
  rule="X1", note="revert: right-side penalty tests the read start")
M("x1-revert-thread-starts", "C11", GMC, "        elif not trusted and start >= leftmost_start[1] - self.params.apa_delta and \\\n", "        elif not trusted and start >= leftmost_start[1] and \\\n",
  rule="X1", note="revert: thread_starts without the apa_delta tolerance")
M("x1-one-side-le", "C11", PVM, "            if exon[1] < polyt_pos:\n                continue", "            if exon[1] <= polyt_pos:\n                continue", rule="X1",
  note="< became <= in shift_polyt only")
M("x1-index-slip", "C11", PVM, "    return read_exons[exon_count][0] - dist_to_polya", "    return read_exons[exon_count][1] - dist_to_polya", rule="X1", note="[0]/[1] slip on the polyT side")
M("x1-tolerance-dropped", "C11", PVM, "            if len_to_polyt <= 0 or \\\n                    (len_to_polyt <= self.params.max_fake_terminal_exon_len and\n                    2 * len_to_polyt < internal_polyt_pos - exon[0]):",
  "            if len_to_polyt <= 0 or \\\n                    (2 * len_to_polyt < internal_polyt_pos - exon[0]):", rule="X1", note="length cap dropped on the polyT side only")
M("x1-event-side", "C11", PVM, "                matching_events.append(MatchEvent(MatchEventSubtype.terminal_exon_misalignment_left, (i, i)))", "                matching_events.append(MatchEvent(MatchEventSubtype.terminal_exon_misalignment_right, (i, i)))",
  rule="X1", note="polyT side emits the right-side event")
M("x1-elongation-asym", "C11", LRA2, "                elif extra_right > self.params.delta:\n                    events.append(MatchEvent(MatchEventSubtype.exon_elongation_right, event_info=extra_right))",
  "                elif extra_right >= self.params.delta:\n                    events.append(MatchEvent(MatchEventSubtype.exon_elongation_right, event_info=extra_right))", rule="X1",
  note="right elongation threshold inclusive, left exclusive")
M("x1-interval-literal", "C11", LRP, "        mapped_region = (sorted_blocks[0][1] + self.delta, sorted_blocks[-1][0] - self.delta)", "        mapped_region = (sorted_blocks[0][1] + self.delta, sorted_blocks[-1][1] - self.delta)",
  rule="X1", note="exon-skipping window not mirror symmetric")
M("x1-silent-both-sides", "C11", PVM, None, None, expect="silent", note="the same edit on both sides (<= on both)",
  edits=[(PVM, "        if exon[0] > polya_pos:\n            continue", "        if exon[0] >= polya_pos:\n            continue"),
         (PVM, "            if exon[1] < polyt_pos:\n                continue", "            if exon[1] <= polyt_pos:\n                continue")])
M("x1-silent-rename-flip", "C11", PVM, None, None, expect="silent", note="local renamed and comparison written the other way round",
  edits=[(PVM, "    dist_to_polya = 0\n    for i in range(exon_count):\n        exon = read_exons[i]\n        if exon[1] < polyt_pos:\n            continue\n        elif dist_to_polya == 0:\n            # no exons counted yet\n            dist_to_polya += exon[1] - polyt_pos\n        else:\n            dist_to_polya += interval_len(exon)\n    return read_exons[exon_count][0] - dist_to_polya",
          "    dist_to_polyt = 0\n    for i in range(exon_count):\n        exon = read_exons[i]\n        if polyt_pos > exon[1]:\n            continue\n        elif dist_to_polyt == 0:\n            # no exons counted yet\n            dist_to_polyt += exon[1] - polyt_pos\n        else:\n            dist_to_polyt += interval_len(exon)\n    return read_exons[exon_count][0] - dist_to_polyt")])
M("x1-silent-reorder", "C11", PVM, "        fake_terminal_exon_count = 0\n        terminal_exon_misaligned = 0\n\n        for i, event in enumerate(matching_events):\n            if event.event_type in [MatchEventSubtype.major_exon_elongation_left,",
  "        terminal_exon_misaligned = 0\n        fake_terminal_exon_count = 0\n\n        for i, event in enumerate(matching_events):\n            if event.event_type in [MatchEventSubtype.major_exon_elongation_left,", expect="silent",
  note="independent statements reordered on one side")

# ---------------------------------------------------------------- rules added after the second seeding round
GMC = "src/graph_based_model_construction.py"
M("c04-silent-type-helper", "C04", GMC, None, None, expect="silent", note="nic/nnic decision extracted into a helper that still tests known_introns",
  edits=[(GMC, "                    if all(intron in self.known_introns for intron in intron_path):\n                        transcript_type = TranscriptModelType.novel_in_catalog\n                        id_suffix = TranscriptNaming.nic_transcript_suffix\n                    else:\n                        transcript_type = TranscriptModelType.novel_not_in_catalog\n                        id_suffix = TranscriptNaming.nnic_transcript_suffix\n",
          "                    transcript_type, id_suffix = self.novel_transcript_type(intron_path)\n"),
         (GMC, "    def process(self, read_assignment_storage):",
          "    def novel_transcript_type(self, intron_path):\n        if all(intron in self.known_introns for intron in intron_path):\n            return TranscriptModelType.novel_in_catalog, TranscriptNaming.nic_transcript_suffix\n        return TranscriptModelType.novel_not_in_catalog, TranscriptNaming.nnic_transcript_suffix\n\n    def process(self, read_assignment_storage):")])
AI = "src/alignment_info.py"
M("c16-silent-trim-helpers", "C16", AI, None, None, expect="silent", note="trimming blocks extracted into helpers that read self.read_exons afresh",
  edits=[(AI, "            self.read_exons = self.read_exons[:-polya_exon_count]\n            self.read_blocks = self.read_blocks[:-polya_exon_count]\n            self.cigar_blocks = self.cigar_blocks[:-polya_exon_count]\n",
          "            self.cut_right(polya_exon_count)\n"),
         (AI, "            self.read_exons = self.read_exons[polyt_exon_count:]\n            self.read_blocks = self.read_blocks[polyt_exon_count:]\n            self.cigar_blocks = self.cigar_blocks[polyt_exon_count:]\n",
          "            self.cut_left(polyt_exon_count)\n"),
         (AI, "    def add_polya_info(self, polya_finder, polya_fixer):",
          "    def cut_right(self, k):\n        self.read_exons = self.read_exons[:-k]\n        self.read_blocks = self.read_blocks[:-k]\n        self.cigar_blocks = self.cigar_blocks[:-k]\n\n    def cut_left(self, k):\n        self.read_exons = self.read_exons[k:]\n        self.read_blocks = self.read_blocks[k:]\n        self.cigar_blocks = self.cigar_blocks[k:]\n\n    def add_polya_info(self, polya_finder, polya_fixer):")])
M("c16-cut-helper-misses-a-list", "C16", AI, None, None, rule="Q2", note="extracted helper forgets cigar_blocks",
  edits=[(AI, "            self.read_exons = self.read_exons[polyt_exon_count:]\n            self.read_blocks = self.read_blocks[polyt_exon_count:]\n            self.cigar_blocks = self.cigar_blocks[polyt_exon_count:]\n",
          "            self.cut_left(polyt_exon_count)\n"),
         (AI, "    def add_polya_info(self, polya_finder, polya_fixer):",
          "    def cut_left(self, k):\n        self.read_exons = self.read_exons[k:]\n        self.read_blocks = self.read_blocks[k:]\n\n    def add_polya_info(self, polya_finder, polya_fixer):")])
M("c16-silent-clip-or", "C16", "src/polya_finder.py", "        elif cigar_tuples[0][0] in [4, 5]:", "        elif cigar_tuples[0][0] == 4 or cigar_tuples[0][0] == 5:",
  expect="silent", note="membership written as a disjunction")
IDS = "src/input_data_storage.py"
M("c10-silent-yaml-ifexp", "C10", IDS, "                if 'illumina bam' in sample.keys():\n                    illumina_bam.append([normalize_path(yaml_file_path, ib) for ib in sample['illumina bam']])\n                else:\n                    illumina_bam.append(None)",
  "                short_bams = [normalize_path(yaml_file_path, ib) for ib in sample['illumina bam']] if 'illumina bam' in sample.keys() else None\n                illumina_bam.append(short_bams)",
  expect="silent", note="per-experiment local assigned unconditionally in the iteration")
M("c03-silent-drop-first-registry-test", "C03", GMC, "            if refrenence_isoform_id in GraphBasedModelConstructor.detected_known_isoforms:\n                continue\n\n            events =",
  "            events =", expect="silent", note="only the early registry test removed: the test at the append still protects uniqueness")
M("c03-silent-drop-second-registry-test", "C03", GMC, "            elif isoform_id not in GraphBasedModelConstructor.detected_known_isoforms:\n                new_model = self.transcript_from_reference(isoform_id)\n                self.transcript_model_storage.append(new_model)",
  "            else:\n                new_model = self.transcript_from_reference(isoform_id)\n                self.transcript_model_storage.append(new_model)",
  expect="silent", note="only the test at the append removed: the table is filled only for unregistered ids")
M("c03-nonfl-no-registry-test", "C03", GMC, "            if isoform_id in GraphBasedModelConstructor.detected_known_isoforms:\n                continue\n            count = len(spliced_isoform_reads[isoform_id])",
  "            count = len(spliced_isoform_reads[isoform_id])", expect="silent",
  note="non-FL registry test removed: redundant, the table is filled (after the FL pass) only for unregistered ids")
M("c03-nonfl-no-registry-test-at-all", "C03", GMC, None, None, rule="G5", note="neither the fill nor the non-FL loop tests the registry",
  edits=[(GMC, "            if isoform_id in GraphBasedModelConstructor.detected_known_isoforms:\n                continue\n            count = len(spliced_isoform_reads[isoform_id])",
          "            count = len(spliced_isoform_reads[isoform_id])"),
         (GMC, "            if refrenence_isoform_id in GraphBasedModelConstructor.detected_known_isoforms:\n                continue\n\n            events =", "            events =")])
M("c03-registry-not-updated", "C03", GMC, "                self.transcript_model_storage.append(new_model)\n                GraphBasedModelConstructor.detected_known_isoforms.add(isoform_id)\n                for read_assignment in mono_exon_isoform_reads[isoform_id]:",
  "                self.transcript_model_storage.append(new_model)\n                for read_assignment in mono_exon_isoform_reads[isoform_id]:", rule="G5",
  note="mono-exon reference model not registered")
M("c05-silent-correct-hash", "C05", "src/isoform_assignment.py", "    def __getstate__(self):\n        return (self.assignment_id,",
  "    def __hash__(self):\n        return hash((self.read_id, self.chr_id, self.start, self.end))\n\n    def __getstate__(self):\n        return (self.assignment_id,",
  expect="silent", note="a __hash__ over a subset of the __eq__ fields")
M("c05-silent-strategy-via-local", "C05", "isoquant.py", '    args.multimap_strategy = "take_best"\n', '    strategy_name = "take_best"\n    args.multimap_strategy = strategy_name\n',
  expect="silent", note="strategy name passes through a local")
M("c05-strategy-merge", "C05", "isoquant.py", '    args.multimap_strategy = "take_best"\n', '    args.multimap_strategy = "ignore_multimapper"\n', rule="D9",
  note="strategy without de-duplication selected")
DSPF = "src/dataset_processor.py"
M("c02-silent-strategy-keyword", "C02", DSPF, "            self.gene_counter = create_gene_counter(sample.out_gene_counts_tsv,\n                                                    self.args.gene_quantification,",
  "            self.gene_counter = create_gene_counter(sample.out_gene_counts_tsv,\n                                                    strategy=self.args.gene_quantification,",
  expect="silent", note="strategy passed by keyword")
M("c02-gene-counter-transcript-strategy", "C02", DSPF, "            self.gene_counter = create_gene_counter(sample.out_gene_counts_tsv,\n                                                    self.args.gene_quantification,",
  "            self.gene_counter = create_gene_counter(sample.out_gene_counts_tsv,\n                                                    self.args.transcript_quantification,",
  rule="W5", note="gene table weighted with the transcript option")
M("c02-silent-flag-eq-chain", "C02", "src/long_read_counter.py", "        return self in [CountingStrategy.unique_inconsistent, CountingStrategy.all]",
  "        return self == CountingStrategy.unique_inconsistent or self == CountingStrategy.all", expect="silent",
  note="flag method written with == / or instead of a membership list")
LRAF = "src/long_read_assigner.py"
M("c01-silent-tolerance-alias", "C01", LRAF, "            if contains_approx(self.gene_info.transcript_region(isoform_id), read_region,\n                               self.params.min_abs_exon_overlap):",
  "            slack = self.params.min_abs_exon_overlap\n            if contains_approx(self.gene_info.transcript_region(isoform_id), read_region, slack):",
  expect="silent", note="tolerance read through a local alias, same role")
M("c01-tolerance-delta-as-containment", "C01", LRAF, "            if contains_approx(self.gene_info.transcript_region(isoform_id), read_region,\n                               self.params.min_abs_exon_overlap):",
  "            if contains_approx(self.gene_info.transcript_region(isoform_id), read_region,\n                               self.params.minor_exon_extension):",
  rule="E6", note="another tolerance used as containment slack")
M("c18-silent-strand-keywords", "C18", GMC, "self.strand_detector.get_strand(intron_path, has_polya, has_polyt)", "self.strand_detector.get_strand(intron_path, has_polyt=has_polyt, has_polya=has_polya)",
  expect="silent", note="arguments passed by keyword in another order")
TPF = "src/transcript_printer.py"
M("c18-silent-window-local", "C18", TPF, "    gene_info.set_reference_sequence(1, len(chr_record), chr_record)", "    chr_len = len(chr_record)\n    gene_info.set_reference_sequence(1, chr_len, chr_record)",
  expect="silent", note="chromosome length through a local")
M("c17-silent-key-alias", "C17", TPF, "                    exon_str_id = self.exon_id_storage.get_id(model.chr_id, e, model.strand)",
  "                    exon_strand = model.strand\n                    exon_str_id = self.exon_id_storage.get_id(model.chr_id, e, exon_strand)",
  expect="silent", note="strand of the same model through a local")
M("c13-silent-valid-reordered", "C13", "src/long_read_counter.py", "        return assignment is not None and \\\n               hasattr(assignment, 'exon_gene_profile') and assignment.exon_gene_profile is not None  and \\\n               hasattr(assignment, 'intron_gene_profile') and assignment.intron_gene_profile is not None and \\\n               hasattr(assignment, 'gene_info') and assignment.gene_info is not None",
  "        if assignment is None or getattr(assignment, 'gene_info', None) is None:\n            return False\n        return getattr(assignment, 'exon_gene_profile', None) is not None and getattr(assignment, 'intron_gene_profile', None) is not None",
  expect="silent", note="validity predicate rewritten with getattr(...) is not None")
M("c09-silent-linear-line-local", "C09", "src/long_read_counter.py", "                if self.output_grouped_linear:\n                    linear_output_file.write(\"%s\\t%s\\t%.2f\\n\" % (feature_id, self.ordered_groups[group_id], count))",
  "                if self.output_grouped_linear:\n                    line = \"%s\\t%s\\t%.2f\\n\" % (feature_id, self.ordered_groups[group_id], count)\n                    linear_output_file.write(line)",
  expect="silent", note="formatted line through a local used only inside the flag block")
M("c20-silent-bed-local", "C20", "src/read_mapper.py", "                db2bed(args.genedb, bed_fname)\n                store_bed(bed_fname, args)",
  "                db2bed(args.genedb, bed_fname)\n                logger.info('Converted annotation to ' + bed_fname)\n                store_bed(bed_fname, args)",
  expect="silent", note="an unrelated statement between conversion and registration")
M("c11-silent-sentinel-guard-nested", "C11", "src/polya_verification.py", "    if exon_count == 0 or exon_count == len(read_exons) or polya_pos == -1:\n        return polya_pos\n\n    dist_to_polya = 0\n    for i in range(exon_count):\n        exon = read_exons[-i-1]\n        if exon[0] > polya_pos:",
  "    if polya_pos == -1:\n        return polya_pos\n    if exon_count == 0 or exon_count == len(read_exons):\n        return polya_pos\n\n    dist_to_polya = 0\n    for i in range(exon_count):\n        exon = read_exons[-i-1]\n        if exon[0] > polya_pos:",
  expect="silent", note="sentinel exit split off into its own if (one side only)")
