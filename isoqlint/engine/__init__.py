from .program import Program, AnalysisError, AnchorMissing  # noqa: F401
