"""Program model: import closure of isoquant.py, symbol index, anchors.

All analyses read source text from REPO (default /repo, override with
ISOQLINT_REPO for the self-validation on scratch copies) on every run.
"""
import ast
import hashlib
import os


class AnalysisError(Exception):
    """The analysis cannot decide (exit 2); never turned into a verdict."""


class AnchorMissing(AnalysisError):
    pass


def repo_root():
    return os.environ.get("ISOQLINT_REPO", "/repo")


class Module:
    def __init__(self, root, rel):
        self.rel = rel
        self.path = os.path.join(root, rel)
        with open(self.path, "rb") as f:
            raw = f.read()
        self.sha256 = hashlib.sha256(raw).hexdigest()
        self.source = raw.decode("utf-8")
        try:
            self.tree = ast.parse(self.source, filename=self.path)
        except SyntaxError as e:  # pragma: no cover
            raise AnalysisError("cannot parse %s: %s" % (rel, e))
        self.name = rel[:-3].replace("/", ".")
        self.renamed_locals = 0
        # parent links and qualified names
        self.functions = {}   # qualname -> FunctionDef
        self.classes = {}     # qualname -> ClassDef
        self.assigns = {}     # module-level name -> value node (last)
        self.imports = {}     # local name -> (module name, symbol or None)
        self.star_imports = []

    def finish(self):
        """Normalise local names against the reference snapshot and build the symbol index (after the project-wide rename pass)."""
        if not os.environ.get("ISOQLINT_NO_ALPHA"):
            from . import alpha
            self.renamed_locals = alpha.normalise_module(self.tree, self.rel)
        self._index()

    def _index(self):
        for node in ast.walk(self.tree):
            for child in ast.iter_child_nodes(node):
                child._parent = node
        self.tree._parent = None
        self.tree._module = self

        def visit(node, prefix, cls):
            for st in node.body if hasattr(node, "body") else []:
                self._index_stmt(st, prefix, cls, visit)
        visit(self.tree, "", None)
        for node in ast.walk(self.tree):
            node._module = self

    def _index_stmt(self, st, prefix, cls, visit):
        if isinstance(st, (ast.FunctionDef, ast.AsyncFunctionDef)):
            q = prefix + st.name
            st._qualname = q
            st._class = cls
            self.functions[q] = st
            # nested functions
            for sub in st.body:
                self._index_nested(sub, q + ".", cls)
        elif isinstance(st, ast.ClassDef):
            q = prefix + st.name
            st._qualname = q
            self.classes[q] = st
            visit(st, q + ".", st)
        elif isinstance(st, ast.Assign) and not prefix:
            for t in st.targets:
                if isinstance(t, ast.Name):
                    self.assigns[t.id] = st.value
        elif isinstance(st, ast.ImportFrom) and not prefix:
            mod = st.module or ""
            if st.level:
                base = self.name.rsplit(".", st.level)[0] if "." in self.name else ""
                mod = (base + "." + mod).strip(".") if mod else base
            for a in st.names:
                if a.name == "*":
                    self.star_imports.append(mod)
                else:
                    self.imports[a.asname or a.name] = (mod, a.name)
        elif isinstance(st, ast.Import) and not prefix:
            for a in st.names:
                self.imports[a.asname or a.name.split(".")[0]] = (a.name, None)
        elif isinstance(st, (ast.If, ast.Try, ast.With)) and not prefix:
            for sub in ast.iter_child_nodes(st):
                if isinstance(sub, ast.stmt):
                    self._index_stmt(sub, prefix, cls, visit)

    def _index_nested(self, st, prefix, cls):
        for node in ast.walk(st):
            if isinstance(node, (ast.FunctionDef, ast.AsyncFunctionDef)) and not hasattr(node, "_qualname"):
                node._qualname = prefix + node.name
                node._class = cls
                self.functions[node._qualname] = node


class Program:
    ENTRY = "isoquant.py"

    def __init__(self, root=None, extra_units=()):
        self.root = root or repo_root()
        self.modules = {}      # rel path -> Module
        self.by_name = {}      # dotted name -> Module
        self.not_in_closure = []
        self._load_closure(extra_units)

    # -- loading ---------------------------------------------------------
    def _load_closure(self, extra_units):
        entry = os.path.join(self.root, self.ENTRY)
        if not os.path.exists(entry):
            raise AnchorMissing("entry point %s not found" % entry)
        todo = [self.ENTRY] + list(extra_units)
        while todo:
            rel = todo.pop()
            if rel in self.modules:
                continue
            if not os.path.exists(os.path.join(self.root, rel)):
                continue
            m = Module(self.root, rel)
            self.modules[rel] = m
            self.by_name[m.name] = m
            for node in ast.walk(m.tree):
                mods = []
                if isinstance(node, ast.ImportFrom):
                    mod = node.module or ""
                    if node.level:
                        pkg = m.name.rsplit(".", 1)[0] if "." in m.name else ""
                        mod = (pkg + "." + mod).strip(".")
                    mods.append(mod)
                    for a in node.names:
                        mods.append(mod + "." + a.name)
                elif isinstance(node, ast.Import):
                    mods.extend(a.name for a in node.names)
                for mod in mods:
                    cand = mod.replace(".", "/") + ".py"
                    if cand.startswith("src/") and cand not in self.modules:
                        todo.append(cand)
        self.renamed_globals = {}
        if not os.environ.get("ISOQLINT_NO_ALPHA"):
            from . import globalnames
            self.renamed_globals = globalnames.normalise({rel: m.tree for rel, m in self.modules.items()})
        for m in self.modules.values():
            m.finish()
        srcdir = os.path.join(self.root, "src")
        if os.path.isdir(srcdir):
            for fn in sorted(os.listdir(srcdir)):
                rel = "src/" + fn
                if fn.endswith(".py") and rel not in self.modules:
                    self.not_in_closure.append(rel)

    # -- anchors ---------------------------------------------------------
    def module(self, rel):
        m = self.modules.get(rel)
        if m is None:
            raise AnchorMissing("module %s is not in the import closure of isoquant.py" % rel)
        return m

    def func(self, rel, qualname):
        m = self.module(rel)
        f = m.functions.get(qualname)
        if f is None:
            f = self._relocated(qualname)
            if f is None:
                raise AnchorMissing("function %s not found in %s" % (qualname, rel))
        return f

    def _relocated(self, qualname):
        """A function that is no longer where the rules expect it: moved to another module (same qualified name), moved up into a base
        class (inherited by the class that is named), or turned from a method into a module-level function / the other way round
        (same simple name, unique in the closure).  None if there is no unique candidate."""
        hits = [mm.functions[qualname] for mm in self.modules.values() if qualname in mm.functions]
        if len(hits) == 1:
            return hits[0]
        if "." in qualname:
            cname, mname = qualname.rsplit(".", 1)
            for _m, c in self.find_class(cname.split(".")[-1]):
                inherited = self.methods_of(c, inherited=True).get(mname)
                if inherited is not None:
                    return inherited
        simple = qualname.rsplit(".", 1)[-1]
        if simple.startswith("__"):
            return None
        same = [f for _m, q, f in self.all_functions() if q.rsplit(".", 1)[-1] == simple and q.count(".") <= 1]
        if len(same) == 1:
            return same[0]
        return None

    def func_inlined(self, rel, qualname, depth=2, exclude=()):
        """The function with calls to sibling helpers expanded (see engine/inline.py); cached.  `exclude`: callee names to keep as calls."""
        key = (rel, qualname, depth, tuple(sorted(exclude)))
        cache = self.__dict__.setdefault("_inlined_cache", {})
        if key not in cache:
            from . import inline
            f = self.func(rel, qualname)
            owner = None
            if "." in qualname:
                # a method that the named class inherits: self.x() inside it means the named class's own x()
                named = [c for _m, c in self.find_class(qualname.rsplit(".", 1)[0].split(".")[-1])]
                if len(named) == 1 and getattr(f, "_parent", None) is not named[0] and isinstance(getattr(f, "_parent", None), ast.ClassDef):
                    owner = named[0]
            cache[key] = inline.inlined(self, f, depth, exclude=exclude, owner=owner)
        return cache[key]

    def cls(self, rel, qualname):
        m = self.module(rel)
        c = m.classes.get(qualname)
        if c is None:
            hits = [mm.classes[qualname] for mm in self.modules.values() if qualname in mm.classes]
            if len(hits) == 1:
                return hits[0]
            raise AnchorMissing("class %s not found in %s" % (qualname, rel))
        return c

    def try_func(self, rel, qualname):
        m = self.modules.get(rel)
        f = m.functions.get(qualname) if m else None
        if f is None:
            f = self._relocated(qualname)
        return f

    def const(self, rel, name):
        m = self.module(rel)
        v = m.assigns.get(name)
        if v is None:
            raise AnchorMissing("module-level name %s not found in %s" % (name, rel))
        return v

    def all_functions(self):
        for rel in sorted(self.modules):
            m = self.modules[rel]
            for q in sorted(m.functions):
                yield m, q, m.functions[q]

    def all_classes(self):
        for rel in sorted(self.modules):
            m = self.modules[rel]
            for q in sorted(m.classes):
                yield m, q, m.classes[q]

    def find_class(self, name):
        """All classes with this simple name in the closure."""
        return [(m, c) for m, q, c in self.all_classes() if c.name == name]

    def methods_of(self, clsdef, inherited=True):
        """name -> FunctionDef for a class, base classes resolved by simple name."""
        out = {}
        seen = set()

        def rec(c):
            if id(c) in seen:
                return
            seen.add(id(c))
            for st in c.body:
                if isinstance(st, ast.FunctionDef) and st.name not in out:
                    out[st.name] = st
            if inherited:
                for b in c.bases:
                    bname = b.id if isinstance(b, ast.Name) else (b.attr if isinstance(b, ast.Attribute) else None)
                    for _m, bc in self.find_class(bname) if bname else []:
                        rec(bc)
        rec(clsdef)
        return out

    def subclasses_of(self, name):
        out = []
        changed = True
        names = {name}
        while changed:
            changed = False
            for m, q, c in self.all_classes():
                if c.name in names:
                    continue
                for b in c.bases:
                    bname = b.id if isinstance(b, ast.Name) else (b.attr if isinstance(b, ast.Attribute) else None)
                    if bname in names:
                        names.add(c.name)
                        out.append((m, c))
                        changed = True
                        break
        return out

    def units_summary(self):
        return [{"module": rel, "sha256": self.modules[rel].sha256[:16],
                 "functions": len(self.modules[rel].functions)}
                for rel in sorted(self.modules)]


# -- small AST helpers ---------------------------------------------------

def src(node):
    """Normalised source text of a node (insensitive to layout/comments)."""
    try:
        return ast.unparse(node)
    except Exception:  # pragma: no cover
        return "<unparse failed>"


def dotted(node):
    """'a.b.c' for Name/Attribute chains, else None."""
    parts = []
    while isinstance(node, ast.Attribute):
        parts.append(node.attr)
        node = node.value
    if isinstance(node, ast.Name):
        parts.append(node.id)
        return ".".join(reversed(parts))
    return None


def call_name(call):
    """Dotted name of the callee of a Call node, or None."""
    if isinstance(call, ast.Call):
        return dotted(call.func)
    return None


def loc(node):
    m = getattr(node, "_module", None)
    return "%s:%d" % (m.rel if m else "?", getattr(node, "lineno", 0))


def enclosing_function(node):
    n = getattr(node, "_parent", None)
    while n is not None and not isinstance(n, (ast.FunctionDef, ast.AsyncFunctionDef, ast.Lambda)):
        n = getattr(n, "_parent", None)
    return n


def enclosing_stmt(node):
    n = node
    while n is not None and not isinstance(n, ast.stmt):
        n = getattr(n, "_parent", None)
    return n


def walk_no_nested(node):
    """ast.walk that does not descend into nested function/class definitions."""
    todo = [node]
    first = True
    while todo:
        n = todo.pop()
        if not first and isinstance(n, (ast.FunctionDef, ast.AsyncFunctionDef, ast.ClassDef, ast.Lambda)):
            continue
        first = False
        yield n
        todo.extend(ast.iter_child_nodes(n))


def calls_in(node, nested=False):
    it = ast.walk(node) if nested else walk_no_nested(node)
    return [n for n in it if isinstance(n, ast.Call)]


def shape(func, node):
    """Source text of `node` with the local variables of `func` replaced by `$` (the text that does not change when locals are
    renamed).  Parameters, attributes, globals and callee names stay."""
    if func is None or not isinstance(func, (ast.FunctionDef, ast.AsyncFunctionDef)):
        func = enclosing_function(node) if not isinstance(node, (ast.FunctionDef, ast.AsyncFunctionDef)) else node
    locals_ = {n.id for n in ast.walk(func) if isinstance(n, ast.Name) and isinstance(n.ctx, ast.Store)} if func is not None else set()
    locals_ |= {a.arg for x in ast.walk(func) if isinstance(x, ast.Lambda) for a in x.args.args} if func is not None else set()

    def clone(n):
        if isinstance(n, list):
            return [clone(x) for x in n]
        if not isinstance(n, ast.AST):
            return n
        if isinstance(n, ast.Name) and n.id in locals_:
            return ast.Name(id="__L__", ctx=ast.Load())
        new = type(n)()
        for f_ in n._fields:
            if hasattr(n, f_):
                setattr(new, f_, clone(getattr(n, f_)))
        return new
    try:
        return ast.unparse(ast.fix_missing_locations(clone(node))).replace("__L__", "$")
    except Exception:
        return src(node)
