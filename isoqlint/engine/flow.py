"""Syntax-directed control-flow facts: dominating guards and path enumeration.

No CFG library exists for Python; this is the "CFG-lite" walker of DESIGN 2.1.
Statement kinds handled: If/For/While/Try/With/Return/Raise/Break/Continue/
Assert and simple statements.  (The closure uses no match/async/global.)
"""
import ast

from .program import AnalysisError, src

PATH_BOUND = 4096


# ---------------------------------------------------------------------------
# block termination
# ---------------------------------------------------------------------------

def always_exits(stmts):
    """True if control can never fall out of the end of this statement list."""
    for st in stmts:
        if isinstance(st, (ast.Return, ast.Raise, ast.Continue, ast.Break)):
            return True
        if isinstance(st, ast.If) and st.orelse and always_exits(st.body) and always_exits(st.orelse):
            return True
        if isinstance(st, ast.With) and always_exits(st.body):
            return True
        if isinstance(st, ast.Try):
            if st.finalbody and always_exits(st.finalbody):
                return True
            if always_exits(st.body) and all(always_exits(h.body) for h in st.handlers):
                return True
    return False


# ---------------------------------------------------------------------------
# dominating guards
# ---------------------------------------------------------------------------

class Guard:
    __slots__ = ("test", "polarity", "kind")

    def __init__(self, test, polarity, kind):
        self.test = test
        self.polarity = polarity
        self.kind = kind  # 'if' | 'while' | 'early-exit' | 'assert' | 'ifexp' | 'comp' | 'boolop'

    def text(self):
        t = src(self.test)
        return t if self.polarity else "not (%s)" % t

    def __repr__(self):
        return "<%s %s>" % (self.kind, self.text())


def _block_of(parent, child):
    for name in ("body", "orelse", "finalbody"):
        blk = getattr(parent, name, None)
        if isinstance(blk, list) and any(c is child for c in blk):
            return name, blk
    if isinstance(parent, ast.Try):
        for h in parent.handlers:
            if any(c is child for c in h.body):
                return "handler", h.body
    return None, None


class _RenameName(ast.NodeTransformer):
    def __init__(self, a, b):
        self.a, self.b = a, b

    def visit_Name(self, n):
        if n.id == self.a:
            return ast.copy_location(ast.Name(id=self.b, ctx=n.ctx), n)
        return n


def _element_guards(loop):
    """Facts about the loop variable that come from how the iterated collection was built:
    `for x in [e for e in S if c(e)]` (directly or through a local defined once) makes c(x) hold in the body."""
    if not isinstance(loop.target, ast.Name):
        return []
    it = loop.iter
    if isinstance(it, ast.Call) and isinstance(it.func, ast.Name) and it.func.id in ("sorted", "list", "reversed", "tuple") and len(it.args) == 1:
        it = it.args[0]
    if isinstance(it, ast.Name):
        fn = loop
        while fn is not None and not isinstance(fn, (ast.FunctionDef, ast.AsyncFunctionDef)):
            fn = getattr(fn, "_parent", None)
        if fn is None:
            return []
        defs = [s for s in ast.walk(fn) if isinstance(s, ast.Assign) and len(s.targets) == 1 and isinstance(s.targets[0], ast.Name)
                and s.targets[0].id == it.id]
        stores = [n for n in ast.walk(fn) if isinstance(n, ast.Name) and n.id == it.id and isinstance(n.ctx, ast.Store)]
        if len(defs) != 1 or len(stores) != 1:
            return []
        it = defs[0].value
        if isinstance(it, ast.Call) and isinstance(it.func, ast.Name) and it.func.id in ("sorted", "list", "reversed", "tuple") and len(it.args) == 1:
            it = it.args[0]
    out = []
    if isinstance(it, (ast.ListComp, ast.GeneratorExp, ast.SetComp)) and len(it.generators) == 1 \
            and isinstance(it.generators[0].target, ast.Name) and isinstance(it.elt, ast.Name) and it.elt.id == it.generators[0].target.id:
        import copy
        for c in it.generators[0].ifs:
            from .symexec import clone
            t = _RenameName(it.elt.id, loop.target.id).visit(clone(c))
            out.append(Guard(ast.fix_missing_locations(t), True, "comp"))
    return out


def guards_of(node, stop=None):
    """Conditions known to hold whenever `node` executes, inside its function.

    Returns a list of Guard, outermost first.  `stop` is the function node at
    which the walk ends (default: nearest enclosing def).
    """
    out = []
    cur = node
    while True:
        parent = getattr(cur, "_parent", None)
        if parent is None or cur is stop:
            break
        if isinstance(cur, (ast.FunctionDef, ast.AsyncFunctionDef, ast.Lambda)) and cur is not node:
            break
        if isinstance(parent, ast.ExceptHandler):
            cur = parent
            continue
        # expression-level guards
        if isinstance(parent, ast.IfExp):
            if cur is parent.body:
                out.append(Guard(parent.test, True, "ifexp"))
            elif cur is parent.orelse:
                out.append(Guard(parent.test, False, "ifexp"))
        elif isinstance(parent, ast.BoolOp):
            idx = [i for i, v in enumerate(parent.values) if v is cur]
            if idx:
                for prev in parent.values[:idx[0]]:
                    out.append(Guard(prev, isinstance(parent.op, ast.And), "boolop"))
        elif isinstance(parent, ast.comprehension):
            pass
        elif isinstance(parent, (ast.ListComp, ast.SetComp, ast.GeneratorExp, ast.DictComp)):
            if cur is getattr(parent, "elt", None) or cur is getattr(parent, "key", None) \
                    or cur is getattr(parent, "value", None):
                for gen in parent.generators:
                    for c in gen.ifs:
                        out.append(Guard(c, True, "comp"))
        if isinstance(cur, ast.stmt):
            name, blk = _block_of(parent, cur)
            if blk is not None:
                # earlier siblings that exit early
                i = [k for k, c in enumerate(blk) if c is cur][0]
                sib = []
                for prev in blk[:i]:
                    if isinstance(prev, ast.If):
                        if always_exits(prev.body) and not (prev.orelse and always_exits(prev.orelse)):
                            sib.append(Guard(prev.test, False, "early-exit"))
                            # elif chain: if c1: exit elif c2: exit
                            e = prev.orelse
                            while len(e) == 1 and isinstance(e[0], ast.If):
                                if always_exits(e[0].body):
                                    sib.append(Guard(e[0].test, False, "early-exit"))
                                e = e[0].orelse
                        elif prev.orelse and always_exits(prev.orelse) and not always_exits(prev.body):
                            sib.append(Guard(prev.test, True, "early-exit"))
                    elif isinstance(prev, ast.Assert):
                        sib.append(Guard(prev.test, True, "assert"))
                out.extend(reversed(sib))
                if isinstance(parent, ast.If):
                    if name == "body":
                        out.append(Guard(parent.test, True, "if"))
                    elif name == "orelse":
                        out.append(Guard(parent.test, False, "if"))
                elif isinstance(parent, ast.While) and name == "body":
                    out.append(Guard(parent.test, True, "while"))
                elif isinstance(parent, ast.For) and name == "body":
                    out.extend(_element_guards(parent))
        if isinstance(parent, (ast.FunctionDef, ast.AsyncFunctionDef, ast.Lambda, ast.Module, ast.ClassDef)):
            break
        cur = parent
    out.reverse()
    return out


def enclosing_loops(node):
    out = []
    cur = node
    while True:
        parent = getattr(cur, "_parent", None)
        if parent is None or isinstance(parent, (ast.FunctionDef, ast.AsyncFunctionDef, ast.Lambda, ast.Module)):
            break
        if isinstance(parent, (ast.For, ast.While)) and any(c is cur for c in parent.body):
            out.append(parent)
        elif isinstance(parent, (ast.ListComp, ast.SetComp, ast.GeneratorExp, ast.DictComp)):
            out.append(parent)
        cur = parent
    out.reverse()
    return out


def conjuncts(test, polarity=True):
    """Split a guard into atomic (expr, polarity) facts that certainly hold.

    and/True -> all conjuncts; or/False -> all negated disjuncts; not -> flip.
    A disjunction known True (or conjunction known False) stays one atom.
    """
    if isinstance(test, ast.UnaryOp) and isinstance(test.op, ast.Not):
        return conjuncts(test.operand, not polarity)
    if isinstance(test, ast.BoolOp):
        if isinstance(test.op, ast.And) and polarity:
            out = []
            for v in test.values:
                out.extend(conjuncts(v, True))
            return out
        if isinstance(test.op, ast.Or) and not polarity:
            out = []
            for v in test.values:
                out.extend(conjuncts(v, False))
            return out
    return [(test, polarity)]


def atoms(test):
    """All atomic predicates (leaves of and/or/not) of a boolean expression."""
    if isinstance(test, ast.UnaryOp) and isinstance(test.op, ast.Not):
        return atoms(test.operand)
    if isinstance(test, ast.BoolOp):
        out = []
        for v in test.values:
            out.extend(atoms(v))
        return out
    return [test]


def guard_facts(node, stop=None):
    """Flattened list of (expr, polarity) certainly true when node executes."""
    out = []
    for g in guards_of(node, stop):
        out.extend(conjuncts(g.test, g.polarity))
    return out


# ---------------------------------------------------------------------------
# path enumeration
# ---------------------------------------------------------------------------

class Path:
    __slots__ = ("events", "exit", "exit_node")

    def __init__(self, events, exit_kind, exit_node):
        self.events = events      # list of ('stmt', node) | ('cond', test, polarity) | ('iter', For) | ('except', handler)
        self.exit = exit_kind     # 'return' | 'raise' | 'fall' | 'break' | 'continue'
        self.exit_node = exit_node

    def stmts(self):
        return [e[1] for e in self.events if e[0] == "stmt"]

    def conds(self):
        return [(e[1], e[2]) for e in self.events if e[0] == "cond"]

    def describe(self):
        parts = []
        for e in self.events:
            if e[0] == "cond":
                parts.append(("" if e[2] else "not ") + "(" + src(e[1]) + ")")
        tail = self.exit + ("@%d" % self.exit_node.lineno if self.exit_node is not None else "")
        return " -> ".join(parts + [tail])


class _Counter:
    def __init__(self, bound):
        self.n = 0
        self.bound = bound

    def tick(self, what):
        self.n += 1
        if self.n > self.bound:
            raise AnalysisError("path bound %d exceeded in %s" % (self.bound, what))


def _seq(stmts, ctr, what):
    """Yield (events, exit_kind, exit_node) for a statement list."""
    if not stmts:
        yield [], "fall", None
        return
    head, rest = stmts[0], stmts[1:]
    for ev, kind, node in _stmt(head, ctr, what):
        if kind == "fall":
            for ev2, kind2, node2 in _seq(rest, ctr, what):
                yield ev + ev2, kind2, node2
        else:
            yield ev, kind, node


def _stmt(st, ctr, what):
    ctr.tick(what)
    if isinstance(st, ast.Return) and isinstance(st.value, ast.IfExp):
        # `return a if c else b` is `if c: return a` / `else: return b`: the two results are reported as separate paths
        for pol, val in ((True, st.value.body), (False, st.value.orelse)):
            r = ast.Return(value=val)
            ast.copy_location(r, st)
            r._parent = getattr(st, "_parent", None)
            r._module = getattr(st, "_module", None)
            for ev, k, n in _stmt(r, ctr, what):
                yield [("cond", st.value.test, pol)] + ev, k, n
    elif isinstance(st, ast.Return):
        yield [("stmt", st)], "return", st
    elif isinstance(st, ast.Raise):
        yield [("stmt", st)], "raise", st
    elif isinstance(st, ast.Break):
        yield [("stmt", st)], "break", st
    elif isinstance(st, ast.Continue):
        yield [("stmt", st)], "continue", st
    elif isinstance(st, ast.If):
        for ev, k, n in _seq(st.body, ctr, what):
            yield [("cond", st.test, True)] + ev, k, n
        for ev, k, n in _seq(st.orelse, ctr, what):
            yield [("cond", st.test, False)] + ev, k, n
    elif isinstance(st, (ast.For, ast.While)):
        head = [("stmt", st)]
        # zero iterations
        exit_ev = [("cond", st.test, False)] if isinstance(st, ast.While) else []     # leaving a while loop normally: its test is false
        for ev, k, n in _seq(st.orelse, ctr, what):
            yield head + [("iter", st, 0)] + exit_ev + ev, k, n
        # one iteration
        for ev, k, n in _seq(st.body, ctr, what):
            pre = head + [("iter", st, 1)]
            if isinstance(st, ast.While):
                pre = pre + [("cond", st.test, True)]
            if k in ("fall", "continue"):
                for ev2, k2, n2 in _seq(st.orelse, ctr, what):
                    yield pre + ev + exit_ev + ev2, k2, n2
            elif k == "break":
                yield pre + ev, "fall", None
            else:
                yield pre + ev, k, n
    elif isinstance(st, ast.With):
        for ev, k, n in _seq(st.body, ctr, what):
            yield [("stmt", st)] + ev, k, n
    elif isinstance(st, ast.Try):
        fin = list(_seq(st.finalbody, ctr, what)) if st.finalbody else [([], "fall", None)]
        bodies = list(_seq(st.body, ctr, what))
        outs = []
        for ev, k, n in bodies:
            if k == "fall" and st.orelse:
                for ev2, k2, n2 in _seq(st.orelse, ctr, what):
                    outs.append((ev + ev2, k2, n2))
            else:
                outs.append((ev, k, n))
        for h in st.handlers:
            for ev, k, n in _seq(h.body, ctr, what):
                outs.append(([("except", h)] + ev, k, n))
        for ev, k, n in outs:
            for fev, fk, fn in fin:
                if fk == "fall":
                    yield ev + fev, k, n
                else:
                    yield ev + fev, fk, fn
    else:
        yield [("stmt", st)], "fall", None


def paths(func, bound=PATH_BOUND):
    """All syntactic paths through a function body (loops: 0 or 1 iteration)."""
    ctr = _Counter(bound * 8)
    what = getattr(func, "_qualname", getattr(func, "name", "?"))
    out = []
    for ev, k, n in _seq(func.body, ctr, what):
        out.append(Path(ev, "return" if k == "fall" else k, n))
        if len(out) > bound:
            raise AnalysisError("path bound %d exceeded in %s" % (bound, what))
    return out


def block_paths(stmts, what="block", bound=PATH_BOUND):
    ctr = _Counter(bound * 8)
    out = []
    for ev, k, n in _seq(stmts, ctr, what):
        out.append(Path(ev, k, n))
        if len(out) > bound:
            raise AnalysisError("path bound %d exceeded in %s" % (bound, what))
    return out


def dnf(test, polarity=True):
    """Disjunctive normal form of a guard: list of alternatives, each a list of (atom, polarity)."""
    if isinstance(test, ast.UnaryOp) and isinstance(test.op, ast.Not):
        return dnf(test.operand, not polarity)
    if isinstance(test, ast.BoolOp):
        conj = isinstance(test.op, ast.And) == polarity
        parts = [dnf(v, polarity) for v in test.values]
        if conj:
            out = [[]]
            for alts in parts:
                out = [a + b for a in out for b in alts]
                if len(out) > 256:
                    raise AnalysisError("condition too large for DNF expansion")
            return out
        return [alt for alts in parts for alt in alts]
    return [[(test, polarity)]]


def path_scenarios(path, subst=None):
    """All DNF scenarios of a path condition: each a list of (atom, polarity).  `subst(test, event index)` may rewrite a test
    (e.g. replace local aliases by their definitions) before expansion."""
    out = [[]]
    for i, ev in enumerate(path.events):
        if ev[0] != "cond":
            continue
        t = subst(ev[1], i) if subst else ev[1]
        alts = dnf(t, ev[2])
        out = [a + b for a in out for b in alts]
        if len(out) > 512:
            raise AnalysisError("path condition too large for DNF expansion")
    return out


def index_loop(loop, seq_text):
    """Name of the index variable if `loop` visits every index of the sequence: `for i in range(len(S))` / `for i, x in enumerate(S)`."""
    if not isinstance(loop, ast.For):
        return None
    it = loop.iter
    if isinstance(it, ast.Call) and isinstance(it.func, ast.Name):
        if it.func.id == "range" and len(it.args) == 1 and src(it.args[0]) == "len(%s)" % seq_text and isinstance(loop.target, ast.Name):
            return loop.target.id
        if it.func.id == "enumerate" and len(it.args) == 1 and src(it.args[0]) == seq_text and isinstance(loop.target, ast.Tuple) \
                and len(loop.target.elts) == 2 and isinstance(loop.target.elts[0], ast.Name):
            return loop.target.elts[0].id
    return None
