"""Wire-type trees: what a serialize()/deserialize() pair writes and reads.

A writer is reduced to a sequence of codec operations in statement order; a
reader to the same in *evaluation* order.  Both carry, where derivable, the
name of the object field the value comes from / goes to.

Op forms (tuples, nested):
  ('int', width)  ('int_neg',)  ('str',)  ('str?',)  ('bools', n)
  ('list', T)  ('pairs', T)  ('dict',)  ('obj', ClassName)
where T is an op or a tuple of ops.
"""
import ast

from .program import AnalysisError, dotted, src, walk_no_nested
from . import staticeval

PRIMS_W = {"write_int", "write_short_int", "write_int_neg", "write_string", "write_string_or_none",
           "write_bool_array", "write_list", "write_list_of_pairs", "write_dict"}
PRIMS_R = {"read_int", "read_short_int", "read_int_neg", "read_string", "read_string_or_none",
           "read_bool_array", "read_list", "read_list_of_pairs", "read_dict"}


class WireCtx:
    def __init__(self, prog):
        self.prog = prog
        self.optional = {}          # qualname -> [optional segments: flag, condition, fields / defaults]
        ser = prog.module("src/serialization.py")
        self.consts = {}
        for name, v in ser.assigns.items():
            try:
                self.consts[name] = staticeval.const_expr(v, dict(self.consts))
            except staticeval.NoEval:
                pass

    def width(self, node):
        """Evaluate a byte-width expression (literal or serialization constant)."""
        if node is None:
            return self.consts.get("LONG_INT_BYTES")
        if isinstance(node, ast.Constant) and isinstance(node.value, int):
            return node.value
        d = dotted(node)
        if d and d.split(".")[-1] in self.consts:
            return self.consts[d.split(".")[-1]]
        raise AnalysisError("cannot evaluate integer width %s" % src(node))


def _simple_name(call):
    d = dotted(call.func)
    return d.split(".")[-1] if d else None


def _opaque_codec(wc, name, prefix):
    """A codec of src/serialization.py that is not one of the modelled primitives: an opaque wire unit named after it.
    Writer and reader must use the same-named codec at the same position; its inside is Z2's business."""
    if not name or not name.startswith(prefix):
        return None
    ser = wc.prog.module("src/serialization.py")
    if name in ser.functions and name not in PRIMS_W and name not in PRIMS_R:
        return name[len(prefix):]
    return None


def _func_ref_op(wc, node, writing):
    """Op for a function reference passed to write_list/read_list (write_string, X.serialize...)."""
    d = dotted(node)
    if d is None:
        raise AnalysisError("unsupported element codec %s" % src(node))
    last = d.split(".")[-1]
    table = {"write_int": ("int", wc.width(None)), "read_int": ("int", wc.width(None)),
             "write_short_int": ("int", wc.consts.get("SHORT_INT_BYTES")),
             "read_short_int": ("int", wc.consts.get("SHORT_INT_BYTES")),
             "write_int_neg": ("int_neg",), "read_int_neg": ("int_neg",),
             "write_string": ("str",), "read_string": ("str",),
             "write_string_or_none": ("str?",), "read_string_or_none": ("str?",),
             "write_dict": ("dict",), "read_dict": ("dict",)}
    if last in table:
        return table[last]
    if last in ("serialize", "deserialize") and "." in d:
        return ("obj", d.split(".")[-2])
    raise AnalysisError("unsupported element codec %s" % d)


def _field_of_expr(e):
    """Name of the object field a written expression is taken from."""
    while True:
        if isinstance(e, ast.Call):
            fn = dotted(e.func)
            if fn in ("int", "float", "len", "bool", "str", "list") and e.args:
                e = e.args[0]
                continue
            return None
        if isinstance(e, ast.BinOp):
            e = e.left
            continue
        break
    sub = ""
    while isinstance(e, ast.Subscript):
        idx = e.slice
        if isinstance(idx, ast.Constant):
            sub = "[%r]" % (idx.value,) + sub
        else:
            sub = "[?]" + sub
        e = e.value
    d = dotted(e)
    if d is None:
        return None
    parts = d.split(".")
    if parts[-1] == "value" and len(parts) > 1:   # enum .value
        parts = parts[:-1]
    if parts[0] in ("self",) or len(parts) > 1:
        parts = parts[1:]
    return ".".join(parts) + sub if parts else None


def writer_ops(wc, func):
    """[(op, field-name-or-None, node)] for a serialize-like function."""
    out = []

    def stmt_ops(stmts):
        seq = []
        for st in stmts:
            if isinstance(st, ast.Expr) and isinstance(st.value, ast.Call):
                seq.extend(call_ops(st.value))
            elif isinstance(st, ast.For):
                inner = stmt_ops(st.body)
                if inner:
                    seq.append((("rep", tuple(o for o, _f, _n in inner)), _field_of_expr(st.iter), st))
            elif isinstance(st, (ast.If, ast.While, ast.With, ast.Try)):
                has_w = lambda node: any(isinstance(n, ast.Call) and (_simple_name(n) in PRIMS_W or _opaque_codec(wc, _simple_name(n), "write_"))
                                         for n in walk_no_nested(node))
                if not has_w(st):
                    continue
                # optional segment:  <flag written just before> ; if <flag>: <writes>      (no writes in else)
                if isinstance(st, ast.If) and not any(has_w(x) for x in st.orelse) and seq and seq[-1][0][0] == "bools" \
                        and not has_w(st.test):
                    inner = stmt_ops(st.body)
                    seq.append((("opt", tuple(o for o, _f, _n in inner)), None, st))
                    wc.optional.setdefault(func._qualname, []).append(
                        {"side": "writer", "node": st, "cond": st.test, "flag_op": seq[-2], "fields": [(f_, n_) for _o, f_, n_ in inner]})
                    continue
                raise AnalysisError("writer %s has conditional serialisation at line %d (unsupported shape)"
                                    % (func._qualname, st.lineno))
            else:
                for n in walk_no_nested(st):
                    if isinstance(n, ast.Call) and (_simple_name(n) in PRIMS_W or _opaque_codec(wc, _simple_name(n), "write_")):
                        raise AnalysisError("writer %s: codec call in unsupported statement at line %d"
                                            % (func._qualname, st.lineno))
        return seq

    def call_ops(c):
        name = _simple_name(c)
        a = c.args
        kw = {k.arg: k.value for k in c.keywords}
        if name == "write_int":
            w = a[2] if len(a) > 2 else kw.get("bytes_len")
            return [(("int", wc.width(w)), _field_of_expr(a[0]), c)]
        if name == "write_short_int":
            return [(("int", wc.consts.get("SHORT_INT_BYTES")), _field_of_expr(a[0]), c)]
        if name == "write_int_neg":
            return [(("int_neg",), _field_of_expr(a[0]), c)]
        if name == "write_string":
            return [(("str",), _field_of_expr(a[0]), c)]
        if name == "write_string_or_none":
            return [(("str?",), _field_of_expr(a[0]), c)]
        if name == "write_dict":
            return [(("dict",), _field_of_expr(a[0]), c)]
        if name == "write_bool_array":
            if not isinstance(a[0], (ast.List, ast.Tuple)):
                raise AnalysisError("write_bool_array with non-literal array in %s" % func._qualname)
            names = tuple(_field_of_expr(e) for e in a[0].elts)
            return [(("bools", len(a[0].elts)), names, c)]
        if name == "write_list":
            return [(("list", _func_ref_op(wc, a[2], True)), _field_of_expr(a[0]), c)]
        if name == "write_list_of_pairs":
            return [(("pairs", _func_ref_op(wc, a[2], True)), _field_of_expr(a[0]), c)]
        if name == "serialize" and isinstance(c.func, ast.Attribute):
            return [(("obj", "?"), _field_of_expr(c.func.value), c)]
        oc = _opaque_codec(wc, name, "write_")
        if oc and a:
            return [(("codec", oc), _field_of_expr(a[0]), c)]
        return []

    seq = stmt_ops(func.body)
    # merge   int4(len(L)) ; rep(...) over L   ->  list(...)
    i = 0
    while i < len(seq):
        op, fld, node = seq[i]
        if op[0] == "rep":
            prev = out[-1] if out else None
            if prev and prev[0] == ("int", wc.width(None)) and isinstance(prev[2], ast.Call) \
                    and isinstance(prev[2].args[0], ast.Call) and dotted(prev[2].args[0].func) == "len" \
                    and src(prev[2].args[0].args[0]) == src(node.iter):
                out.pop()
                inner = op[1][0] if len(op[1]) == 1 else op[1]
                out.append((("list", inner), fld, node))
            else:
                raise AnalysisError("writer %s: loop at line %d is not preceded by write_int(len(<same sequence>))"
                                    % (func._qualname, node.lineno))
        else:
            out.append((op, fld, node))
        i += 1
    return out


def _calls_in_eval_order(node):
    """Call nodes inside an expression/statement in left-to-right evaluation order (post-order)."""
    res = []

    def rec(n):
        if isinstance(n, (ast.FunctionDef, ast.Lambda, ast.ClassDef)):
            return
        if isinstance(n, ast.Call):
            rec(n.func)
            for x in n.args:
                rec(x)
            for k in n.keywords:
                rec(k.value)
            res.append(n)
            return
        for c in ast.iter_child_nodes(n):
            rec(c)
    rec(node)
    return res


def reader_ops(wc, func):
    """[(op, field-name-or-None, node)] for a deserialize-like function."""
    prog = wc.prog
    out = []
    count_vars = {}   # local name -> index in out of the int op that defined it
    temp_vars = {}    # local name -> index in out
    obj_names = set() # local names bound to cls.__new__(cls)

    def target_field(t):
        if isinstance(t, ast.Attribute) and isinstance(t.value, ast.Name):
            return t.attr
        return None

    def one_read(c):
        name = _simple_name(c)
        a = c.args
        kw = {k.arg: k.value for k in c.keywords}
        if name == "read_int":
            w = a[1] if len(a) > 1 else kw.get("bytes_len")
            return ("int", wc.width(w))
        if name == "read_short_int":
            return ("int", wc.consts.get("SHORT_INT_BYTES"))
        if name == "read_int_neg":
            return ("int_neg",)
        if name == "read_string":
            return ("str",)
        if name == "read_string_or_none":
            return ("str?",)
        if name == "read_dict":
            return ("dict",)
        if name == "read_bool_array":
            n = a[1] if len(a) > 1 else kw.get("arr_size")
            return ("bools", wc.width(n) if n is not None else 1)
        if name == "read_list":
            return ("list", _func_ref_op(wc, a[1], False))
        if name == "read_list_of_pairs":
            return ("pairs", _func_ref_op(wc, a[1], False))
        if name in ("deserialize", "deserialize_from_read_assignment") and isinstance(c.func, ast.Attribute):
            d = dotted(c.func)
            return ("obj", d.split(".")[-2] if d and "." in d else "?")
        oc = _opaque_codec(wc, name, "read_")
        if oc:
            return ("codec", oc)
        return None

    def name_reads(value, base):
        """Assign field names to reads inside `value` being stored to field `base`."""
        names = {}
        v = value
        # strip wrappers Enum(read), float(read)/x, bool(read)
        def strip(e):
            while True:
                if isinstance(e, ast.BinOp):
                    e = e.left
                elif isinstance(e, ast.Call) and one_read(e) is None and len(e.args) == 1 and not e.keywords:
                    e = e.args[0]
                else:
                    return e
        v = strip(v)
        if isinstance(v, ast.Call) and one_read(v) is not None:
            names[id(v)] = base
        elif isinstance(v, ast.Tuple):
            for i, e in enumerate(v.elts):
                e = strip(e)
                if isinstance(e, ast.Call) and one_read(e) is not None:
                    names[id(e)] = "%s[%d]" % (base, i)
        elif isinstance(v, ast.Call):
            # constructor call: map positional args to attribute names through __init__
            cname = dotted(v.func)
            cl = prog.find_class(cname.split(".")[-1]) if cname else []
            if cl:
                init = prog.methods_of(cl[0][1]).get("__init__")
                if init:
                    params = [a.arg for a in init.args.args[1:]]
                    p2attr = {}
                    for st in init.body:
                        if isinstance(st, ast.Assign) and isinstance(st.value, ast.Name) \
                                and isinstance(st.targets[0], ast.Attribute):
                            p2attr[st.value.id] = st.targets[0].attr
                    for i, e in enumerate(v.args):
                        e = strip(e)
                        if i < len(params) and isinstance(e, ast.Call) and one_read(e) is not None:
                            names[id(e)] = "%s.%s" % (base, p2attr.get(params[i], params[i]))
        return names

    def handle_stmt(st):
        if isinstance(st, ast.For):
            # for _ in range(n): ...   with n read before
            it = st.iter
            if isinstance(it, ast.Call) and dotted(it.func) == "range" and len(it.args) == 1 \
                    and isinstance(it.args[0], ast.Name) and it.args[0].id in count_vars:
                idx = count_vars[it.args[0].id]
                start = len(out)
                for s in st.body:
                    handle_stmt(s)
                inner = [o for o, _f, _n in out[start:]]
                del out[start:]
                if idx != len(out) - 1:
                    raise AnalysisError("reader %s: counted loop at line %d does not directly follow its count"
                                        % (func._qualname, st.lineno))
                out.pop()
                # name: attribute appended to in the loop body
                fld = None
                for n in walk_no_nested(st):
                    if isinstance(n, ast.Call) and isinstance(n.func, ast.Attribute) and n.func.attr == "append":
                        fld = _field_of_expr(n.func.value)
                out.append((("list", inner[0] if len(inner) == 1 else tuple(inner)), fld, st))
                return
            if any(isinstance(n, ast.Call) and one_read(n) is not None for n in walk_no_nested(st)):
                raise AnalysisError("reader %s: reads inside an uncounted loop at line %d" % (func._qualname, st.lineno))
            return
        if isinstance(st, (ast.If, ast.While, ast.Try, ast.With)):
            has_r = lambda node: any(isinstance(n, ast.Call) and one_read(n) is not None for n in walk_no_nested(node))
            if not has_r(st):
                return
            # optional segment:  if <flag just read / read in the test>: <reads> else: <defaults, no reads>
            if isinstance(st, ast.If) and not any(has_r(x) for x in st.orelse) and any(has_r(x) for x in st.body):
                flag_idx = None
                if has_r(st.test):
                    for c in _calls_in_eval_order(st.test):
                        op = one_read(c)
                        if op is not None:
                            out.append((op, None, c))
                    flag_idx = len(out) - 1
                else:
                    names_t = {n.id for n in ast.walk(st.test) if isinstance(n, ast.Name)}
                    idxs = [temp_vars[v] for v in names_t if v in temp_vars]
                    flag_idx = max(idxs) if idxs else None
                if flag_idx is not None and flag_idx == len(out) - 1 and out[flag_idx][0][0] == "bools":
                    start = len(out)
                    for s_ in st.body:
                        handle_stmt(s_)
                    inner = out[start:]
                    del out[start:]
                    defaults = {}
                    for s_ in st.orelse:
                        if isinstance(s_, ast.Assign) and len(s_.targets) == 1 and target_field(s_.targets[0]):
                            defaults[target_field(s_.targets[0])] = s_.value
                    out.append((("opt", tuple(o for o, _f, _n in inner)), None, st))
                    wc.optional.setdefault(func._qualname, []).append(
                        {"side": "reader", "node": st, "cond": st.test, "fields": [(f_, n_) for _o, f_, n_ in inner], "defaults": defaults})
                    return
            raise AnalysisError("reader %s has conditional deserialisation at line %d (unsupported shape)"
                                % (func._qualname, st.lineno))
        names = {}
        tgt_var = None
        if isinstance(st, ast.Assign) and len(st.targets) == 1:
            t = st.targets[0]
            f = target_field(t)
            if f is not None:
                names = name_reads(st.value, f)
            elif isinstance(t, ast.Name):
                tgt_var = t.id
        for c in _calls_in_eval_order(st):
            op = one_read(c)
            if op is None:
                continue
            out.append((op, names.get(id(c)), c))
            if tgt_var is not None and isinstance(st, ast.Assign) and st.value is c:
                if op == ("int", wc.width(None)):
                    count_vars[tgt_var] = len(out) - 1
                temp_vars[tgt_var] = len(out) - 1

    for st in func.body:
        handle_stmt(st)

    # name values that went through temporaries:  bool_arr = read_bool_array(..); x.a = bool_arr[0]
    for st in ast.walk(func):
        if isinstance(st, ast.Assign) and len(st.targets) == 1:
            f = target_field(st.targets[0])
            v = st.value
            if f and isinstance(v, ast.Subscript) and isinstance(v.value, ast.Name) and v.value.id in temp_vars \
                    and isinstance(v.slice, ast.Constant) and isinstance(v.slice.value, int):
                idx = temp_vars[v.value.id]
                if idx < len(out) and out[idx][0][0] == "bools":
                    op, names, node = out[idx]
                    names = list(names) if isinstance(names, (list, tuple)) else [None] * op[1]
                    if v.slice.value < len(names):
                        names[v.slice.value] = f
                    out[idx] = (op, tuple(names), node)
            elif f and isinstance(v, ast.Name) and v.id in temp_vars:
                idx = temp_vars[v.id]
                if idx < len(out) and out[idx][1] is None:
                    out[idx] = (out[idx][0], f, out[idx][2])
    return out


def fmt(op):
    if isinstance(op, tuple) and op and isinstance(op[0], str):
        if op[0] == "int":
            return "int%d" % (op[1] * 8)
        if op[0] in ("list", "pairs"):
            return "%s<%s>" % (op[0], fmt(op[1]))
        if op[0] == "bools":
            return "bools[%d]" % op[1]
        if op[0] == "obj":
            return "obj:%s" % op[1]
        if op[0] == "codec":
            return "codec:%s" % op[1]
        if op[0] == "opt":
            return "optional<%s>" % ",".join(fmt(o) for o in op[1])
        return op[0]
    if isinstance(op, tuple):
        return "(" + ",".join(fmt(o) for o in op) + ")"
    return str(op)


def ops_equal(a, b):
    if isinstance(a, tuple) and isinstance(b, tuple) and a and b and a[0] == "obj" and b[0] == "obj":
        return a[1] == b[1] or "?" in (a[1], b[1])
    if isinstance(a, tuple) and isinstance(b, tuple):
        if len(a) != len(b):
            return False
        return all(ops_equal(x, y) for x, y in zip(a, b))
    return a == b
