"""Loop-carried state analysis (S1 for C10, O3 for C06).

Locations that outlive an iteration:
  * class-level attributes holding mutable values or rebound through the class (Cls.attr = / += / .add(...))
  * module-level mutable globals mutated inside functions
  * attributes of the long-lived driver object (DatasetProcessor.self.* and the shared args namespace self.args.*)
A location is *fresh* if an unconditional plain write precedes every other access in the iteration's linearised body
(self-calls inlined); otherwise, if it is mutated anywhere in the iteration, it is *carried*.
"""
import ast

from .program import dotted, src, walk_no_nested, call_name

MUTATING_METHODS = {"add", "update", "append", "extend", "insert", "remove", "discard", "pop", "clear", "merge",
                    "increment", "setdefault", "popitem", "sort"}
MUTABLE_CTORS = {"set", "dict", "list", "defaultdict", "OrderedDict", "Counter", "deque"}


def class_level_locations(prog):
    """{(class name, attr): (module, classdef, assign stmt, why)}"""
    out = {}
    class_names = {c.name for _m, _q, c in prog.all_classes()}
    rebound = {}
    for m, q, f in prog.all_functions():
        for n in walk_no_nested(f):
            tg = None
            if isinstance(n, ast.Assign):
                tg = n.targets
            elif isinstance(n, ast.AugAssign):
                tg = [n.target]
            for t in tg or []:
                if isinstance(t, ast.Attribute) and isinstance(t.value, ast.Name) and t.value.id in class_names:
                    rebound.setdefault((t.value.id, t.attr), []).append(n)
                # cls.X = ... in a method of the class, type(self).X = ..., self.__class__.X = ...
                own = getattr(f, "_class", None)
                if own is not None and isinstance(t, ast.Attribute):
                    v = t.value
                    via_cls = (isinstance(v, ast.Name) and v.id == "cls") or \
                        (isinstance(v, ast.Attribute) and v.attr == "__class__") or \
                        (isinstance(v, ast.Call) and call_name(v) == "type")
                    if via_cls:
                        rebound.setdefault((own.name, t.attr), []).append(n)
    for m, q, c in prog.all_classes():
        is_enum = any((dotted(b) or "").split(".")[-1] == "Enum" for b in c.bases)
        if is_enum:
            continue
        for st in c.body:
            if isinstance(st, ast.Assign) and len(st.targets) == 1 and isinstance(st.targets[0], ast.Name):
                v = st.value
                name = st.targets[0].id
                why = None
                if isinstance(v, (ast.Dict, ast.List, ast.Set)):
                    why = "mutable literal"
                elif isinstance(v, ast.Call):
                    cn = (call_name(v) or "").split(".")[-1]
                    if cn in MUTABLE_CTORS or cn in class_names:
                        why = "instance of %s shared by all objects" % cn
                if (c.name, name) in rebound:
                    why = (why + "; " if why else "") + "rebound through the class"
                if why:
                    out[(c.name, name)] = (m, c, st, why)
    return out


def accesses_of_class_attr(prog, cname, attr):
    """[(module, qualname, func, node, kind)] kind in read | write | mutate."""
    out = []
    for m, q, f in prog.all_functions():
        in_class = getattr(f, "_class", None) is not None and f._class.name == cname
        for n in walk_no_nested(f):
            if not (isinstance(n, ast.Attribute) and n.attr == attr and isinstance(n.value, ast.Name)):
                continue
            base = n.value.id
            if not (base == cname or (in_class and base in ("self", "cls"))):
                continue
            parent = n._parent
            kind = "read"
            if isinstance(n.ctx, ast.Store):
                kind = "mutate" if isinstance(parent, ast.AugAssign) else "write"
            elif isinstance(parent, ast.Attribute) and parent.attr in MUTATING_METHODS and isinstance(parent._parent, ast.Call) \
                    and parent._parent.func is parent:
                kind = "mutate"
            elif isinstance(parent, ast.Subscript) and isinstance(parent.ctx, (ast.Store, ast.Del)):
                kind = "mutate"
            out.append((m, q, f, n, kind))
    return out


def unconditional(stmt, func):
    """Statement is a direct child of the function body (not under if/loop/try/with)."""
    return getattr(stmt, "_parent", None) is func


def stmt_of(node):
    while node is not None and not isinstance(node, ast.stmt):
        node = getattr(node, "_parent", None)
    return node


class Linearizer:
    """Source-order access sequence of self.* / self.args.* locations, inlining self.method() calls."""

    def __init__(self, prog, clsdef, depth=6):
        self.prog = prog
        self.cls = clsdef
        self.methods = prog.methods_of(clsdef, inherited=True)
        self.depth = depth

    def run(self, entry):
        seq = []
        self._walk_func(self.methods[entry], True, 0, seq, [entry])
        return seq

    def _walk_func(self, f, uncond, depth, seq, stack):
        for st in f.body:
            self._walk_stmt(st, uncond, depth, seq, stack, f)

    def _walk_stmt(self, st, uncond, depth, seq, stack, f):
        if isinstance(st, (ast.FunctionDef, ast.ClassDef)):
            return
        if isinstance(st, (ast.If, ast.For, ast.While, ast.Try, ast.With)):
            for fld in ("test", "iter", "items"):
                v = getattr(st, fld, None)
                if v is not None:
                    for e in (v if isinstance(v, list) else [v]):
                        self._walk_expr(e, uncond, depth, seq, stack, f, st)
            inner_uncond = uncond and isinstance(st, ast.With)
            for fld in ("body", "orelse", "finalbody"):
                for s in getattr(st, fld, []) or []:
                    self._walk_stmt(s, inner_uncond, depth, seq, stack, f)
            for h in getattr(st, "handlers", []) or []:
                for s in h.body:
                    self._walk_stmt(s, False, depth, seq, stack, f)
            return
        # simple statement: RHS first (reads), then targets (writes)
        if isinstance(st, ast.Assign):
            self._walk_expr(st.value, uncond, depth, seq, stack, f, st)
            for t in st.targets:
                self._record_target(t, "write", uncond, seq, stack, f, st)
        elif isinstance(st, ast.AugAssign):
            self._walk_expr(st.value, uncond, depth, seq, stack, f, st)
            self._record_target(st.target, "rmw", uncond, seq, stack, f, st)
        else:
            self._walk_expr(st, uncond, depth, seq, stack, f, st)

    def _loc(self, node):
        d = dotted(node)
        if d is None:
            return None
        parts = d.split(".")
        if parts[0] != "self" or len(parts) < 2:
            return None
        if parts[1] == "args" and len(parts) >= 3:
            return "self.args." + parts[2]
        return "self." + parts[1]

    def _record_target(self, t, kind, uncond, seq, stack, f, st):
        if isinstance(t, (ast.Tuple, ast.List)):
            for e in t.elts:
                self._record_target(e, kind, uncond, seq, stack, f, st)
            return
        if isinstance(t, ast.Subscript):
            loc = self._loc(t.value)
            if loc:
                seq.append((loc, "rmw", uncond, f, st))
            return
        loc = self._loc(t)
        if loc:
            d = dotted(t)
            exact = d == loc
            seq.append((loc, kind if exact else "rmw", uncond, f, st))

    def _walk_expr(self, e, uncond, depth, seq, stack, f, st):
        if e is None:
            return
        for n in self._preorder(e):
            if isinstance(n, ast.Call):
                cn = call_name(n)
                if cn and cn.startswith("self.") and cn.count(".") == 1 and cn[5:] in self.methods and depth < self.depth \
                        and cn[5:] not in stack:
                    # arguments first
                    callee = self.methods[cn[5:]]
                    self._walk_func(callee, uncond and unconditional(st, f), depth + 1, seq, stack + [cn[5:]])
                elif isinstance(n.func, ast.Attribute) and n.func.attr in MUTATING_METHODS:
                    loc = self._loc(n.func.value)
                    if loc:
                        seq.append((loc, "rmw", uncond and unconditional(st, f), f, st))
            elif isinstance(n, ast.Attribute) and isinstance(n.ctx, ast.Load):
                loc = self._loc(n)
                parent = n._parent
                if loc and not (isinstance(parent, ast.Attribute) and self._loc(parent) == loc):
                    # outermost attribute node that still denotes this location
                    seq.append((loc, "read", uncond and unconditional(st, f), f, st))

    def _preorder(self, e):
        todo = [e]
        while todo:
            n = todo.pop(0)
            if isinstance(n, (ast.Lambda, ast.FunctionDef)):
                continue
            yield n
            todo = list(ast.iter_child_nodes(n)) + todo
