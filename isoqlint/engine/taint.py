"""Path-wise influence ("taint") propagation: which labelled inputs can a value depend on when a path is executed.

Facts are may-facts on ONE syntactic path (loops taken 0 or 1 times as enumerated by flow.paths): the influence set of a name is
the union of the labels of everything that flowed into it by assignment, loop/with binding or a mutating method call.  Object
fields are tracked by their dotted text; reading `a.b` also sees what flowed into `a`.  `x.clear()` forgets what flowed into x.
"""
import ast

from .program import dotted, walk_no_nested

MUTATORS = {"add", "append", "update", "extend", "insert", "setdefault", "merge", "appendleft", "put", "put_nowait", "write", "increment"}
FORGET = {"clear"}


def names_in(expr):
    out = []
    for n in ast.walk(expr):
        if isinstance(n, (ast.Name, ast.Attribute)):
            d = dotted(n)
            if d:
                out.append(d)
    return out


def influence(expr, env):
    s = set()
    for c in ast.walk(expr):
        if isinstance(c, ast.Call):
            cn = dotted(c.func)
            if cn:
                s.add("call:" + cn.split(".")[-1])           # the result of a call carries the callee's name as a label
    for d in names_in(expr):
        parts = d.split(".")
        for i in range(1, len(parts) + 1):
            s |= env.get(".".join(parts[:i]), set())
    return s


def _bind(target, labels, env, sources=None):
    for n in ast.walk(target):
        d = dotted(n) if isinstance(n, (ast.Name, ast.Attribute)) else None
        if d and isinstance(getattr(n, "ctx", None), ast.Store):
            env[d] = set(labels) | set((sources or {}).get(d, ()))     # a labelled name keeps its label when it is (re)defined
            for k in [k for k in env if k.startswith(d + ".")]:
                if k in (sources or {}):
                    env[k] = set(sources[k])
                else:
                    del env[k]


def run(path, sources, on_stmt=None):
    """sources: {name: {labels}}.  Returns the environment {dotted name: labels} at the end of the path.
    on_stmt(stmt, env) is called with the environment as it is just before each statement of the path takes effect."""
    env = {k: set(v) for k, v in sources.items()}
    for ev in path.events:
        if ev[0] == "stmt":
            st = ev[1]
            if on_stmt is not None and not isinstance(st, (ast.For, ast.While)):
                on_stmt(st, env)
            if isinstance(st, ast.Assign):
                lab = influence(st.value, env)
                for t in st.targets:
                    _bind(t, lab, env, sources)
                # x = y makes x an alias of the object y: what is known about y's fields is known about x's fields
                sv = dotted(st.value) if isinstance(st.value, (ast.Name, ast.Attribute)) else None
                if sv:
                    for t in st.targets:
                        dt = dotted(t) if isinstance(t, (ast.Name, ast.Attribute)) else None
                        if dt:
                            for k in [k for k in env if k.startswith(sv + ".")]:
                                env[dt + k[len(sv):]] = set(env[k])
            elif isinstance(st, ast.AugAssign):
                d = dotted(st.target)
                if d:
                    env[d] = env.get(d, set()) | influence(st.value, env)
            elif isinstance(st, ast.AnnAssign) and st.value is not None:
                _bind(st.target, influence(st.value, env), env, sources)
            elif isinstance(st, ast.For):
                pass                                   # bound at the 'iter' event when the body is entered
            elif isinstance(st, ast.With):
                for it in st.items:
                    if it.optional_vars is not None:
                        _bind(it.optional_vars, influence(it.context_expr, env), env, sources)
            elif isinstance(st, ast.Expr) and isinstance(st.value, ast.Call):
                _call(st.value, env)
        elif ev[0] == "cond" and on_stmt is not None:
            on_stmt(ev[1], env)                         # the test of a branch / loop is looked at like a statement
        elif ev[0] == "iter" and len(ev) > 2 and ev[2] and isinstance(ev[1], ast.For):
            _bind(ev[1].target, influence(ev[1].iter, env), env, sources)
    return env


def _call(c, env):
    if isinstance(c.func, ast.Attribute):
        recv = dotted(c.func.value)
        if recv and c.func.attr in FORGET:
            env[recv] = set()
            return
        if recv and c.func.attr in MUTATORS:
            lab = set()
            for a in list(c.args) + [k.value for k in c.keywords]:
                lab |= influence(a, env)
            env[recv] = env.get(recv, set()) | lab
