"""Static evaluation of pure expressions / straight-line if-chains over small concrete values (finite case analysis).

No repository code is executed: the evaluator interprets a handful of AST node kinds itself and raises NoEval for anything else.
"""
import ast

from .program import dotted, src


class NoEval(Exception):
    pass


def evaluate(e, env):
    """Static evaluation of a pure expression over small concrete tuples (finite case analysis, no repository code is run)."""
    if isinstance(e, ast.Constant):
        return e.value
    if isinstance(e, ast.Name):
        if e.id in env:
            return env[e.id]
        raise NoEval(e.id)
    if isinstance(e, ast.Tuple):
        return tuple(evaluate(x, env) for x in e.elts)
    if isinstance(e, (ast.List, ast.Set)):
        return [evaluate(x, env) for x in e.elts]
    if isinstance(e, ast.UnaryOp) and isinstance(e.op, ast.USub):
        return -evaluate(e.operand, env)
    if isinstance(e, ast.UnaryOp) and isinstance(e.op, ast.Not):
        return not evaluate(e.operand, env)
    if isinstance(e, ast.BinOp) and isinstance(e.op, (ast.Add, ast.Sub)):
        l, r = evaluate(e.left, env), evaluate(e.right, env)
        return l + r if isinstance(e.op, ast.Add) else l - r
    if isinstance(e, ast.Subscript) and isinstance(e.slice, ast.Slice):
        sl = e.slice
        return evaluate(e.value, env)[slice(*(None if x is None else evaluate(x, env) for x in (sl.lower, sl.upper, sl.step)))]
    if isinstance(e, ast.Subscript):
        return evaluate(e.value, env)[evaluate(e.slice, env)]
    if isinstance(e, ast.Call) and "__stubs__" in env and src(e) in env["__stubs__"]:
        return env["__stubs__"][src(e)]          # a call whose result is supplied as a case parameter (never executed)
    if isinstance(e, ast.Call) and isinstance(e.func, ast.Name) and e.func.id == "len" and len(e.args) == 1:
        return len(evaluate(e.args[0], env))
    if isinstance(e, ast.Call) and isinstance(e.func, ast.Attribute) and isinstance(e.func.value, ast.Name) and not e.keywords \
            and e.func.attr in env.get("__methods__", {}) and (e.func.value.id in ("self", "cls") or e.func.value.id[:1].isupper()):
        # a sibling method of the class under analysis (static helper or method on self): interpreted the same way
        md = env["__methods__"][e.func.attr]
        first = md.args.args[0].arg if md.args.args else None
        is_static = any(isinstance(d, ast.Name) and d.id == "staticmethod" for d in md.decorator_list)
        args = ([] if is_static or first not in ("self", "cls") else [env.get("self", "<self>")]) + [evaluate(a, env) for a in e.args]
        return call_function(md, args, stubs=env.get("__stubs__"), funcs=env.get("__funcs__"), methods=env["__methods__"],
                             _depth=env.get("__depth__", 0) + 1)
    if isinstance(e, ast.Call) and isinstance(e.func, ast.Name) and e.func.id in env.get("__funcs__", {}) and not e.keywords:
        # a module-level helper of the analysed program: interpreted the same way (never executed)
        return call_function(env["__funcs__"][e.func.id], [evaluate(a, env) for a in e.args], stubs=env.get("__stubs__"),
                             funcs=env["__funcs__"], methods=env.get("__methods__"), _depth=env.get("__depth__", 0) + 1)
    if isinstance(e, ast.Call) and isinstance(e.func, ast.Name) and e.func.id in _PURE and e.func.id not in env:
        kw = {k.arg: evaluate(k.value, env) for k in e.keywords}
        if any(k is None for k in kw) or (kw and set(kw) - {"reverse"}):
            raise NoEval(src(e)[:40])
        args = [evaluate(a, env) for a in e.args]
        v = _PURE[e.func.id](*args, **kw)
        return list(v) if e.func.id in ("reversed", "zip", "enumerate", "range", "map") else v
    if isinstance(e, (ast.ListComp, ast.GeneratorExp, ast.SetComp)):
        out = []

        def rec(i, env2):
            if i == len(e.generators):
                out.append(evaluate(e.elt, env2))
                return
            g = e.generators[i]
            for item in evaluate(g.iter, env2):
                env3 = dict(env2)
                _bind(g.target, item, env3)
                if all(evaluate(c, env3) for c in g.ifs):
                    rec(i + 1, env3)
        rec(0, env)
        return out
    if isinstance(e, ast.IfExp):
        return evaluate(e.body, env) if evaluate(e.test, env) else evaluate(e.orelse, env)
    if isinstance(e, ast.Attribute):
        d = dotted(e)
        if d in env:
            return env[d]
        raise NoEval(d)
    if isinstance(e, ast.BoolOp):
        vals = e.values
        if isinstance(e.op, ast.And):
            for v in vals:
                if not evaluate(v, env):
                    return False
            return True
        for v in vals:
            if evaluate(v, env):
                return True
        return False
    if isinstance(e, ast.Compare) and len(e.ops) > 1:
        left = e.left
        for op, right in zip(e.ops, e.comparators):
            if not evaluate(ast.Compare(left=left, ops=[op], comparators=[right]), env):
                return False
            left = right
        return True
    if isinstance(e, ast.Compare) and len(e.ops) == 1:
        l, r = evaluate(e.left, env), evaluate(e.comparators[0], env)
        op = e.ops[0]
        table = {ast.Eq: lambda: l == r, ast.NotEq: lambda: l != r, ast.Lt: lambda: l < r, ast.LtE: lambda: l <= r,
                 ast.Gt: lambda: l > r, ast.GtE: lambda: l >= r, ast.In: lambda: l in r, ast.NotIn: lambda: l not in r,
                 ast.Is: lambda: l is r, ast.IsNot: lambda: l is not r}
        if isinstance(op, (ast.Is, ast.IsNot)) and not (l is None or r is None):
            raise NoEval("identity test of non-None values")
        if type(op) in table:
            return table[type(op)]()
    raise NoEval(src(e)[:40])


_PURE = {"sorted": sorted, "all": all, "any": any, "min": min, "max": max, "abs": abs, "sum": sum, "list": list, "tuple": tuple,
         "reversed": reversed, "zip": zip, "enumerate": enumerate, "range": range, "set": lambda *a: sorted(set(*a)), "int": int, "bool": bool}


def _bind(target, value, env):
    if isinstance(target, ast.Name):
        env[target.id] = value
    elif isinstance(target, (ast.Tuple, ast.List)):
        vals = list(value)
        if len(vals) != len(target.elts):
            raise NoEval("unpacking")
        for t, v in zip(target.elts, vals):
            _bind(t, v, env)
    else:
        raise NoEval("binding target")


def execute(stmts, env):
    for st in stmts:
        if isinstance(st, ast.Assign) and len(st.targets) == 1 and isinstance(st.targets[0], ast.Name):
            env[st.targets[0].id] = evaluate(st.value, env)
        elif isinstance(st, ast.AugAssign) and isinstance(st.target, ast.Name) and isinstance(st.op, (ast.Add, ast.Sub)):
            v = evaluate(st.value, env)
            env[st.target.id] = env[st.target.id] + v if isinstance(st.op, ast.Add) else env[st.target.id] - v
        elif isinstance(st, ast.If):
            execute(st.body if evaluate(st.test, env) else st.orelse, env)
        elif isinstance(st, (ast.Expr, ast.Pass)):
            continue
        else:
            raise NoEval(src(st)[:40])




class _Return(Exception):
    def __init__(self, value):
        self.value = value


class _Break(Exception):
    pass


class _Continue(Exception):
    pass


def _run(stmts, env, fuel):
    for st in stmts:
        fuel[0] -= 1
        if fuel[0] < 0:
            raise NoEval("evaluation budget exceeded")
        if isinstance(st, ast.Return):
            raise _Return(None if st.value is None else evaluate(st.value, env))
        if isinstance(st, ast.Assign) and len(st.targets) == 1:
            _bind(st.targets[0], evaluate(st.value, env), env)
        elif isinstance(st, ast.AugAssign) and isinstance(st.target, ast.Name) and isinstance(st.op, (ast.Add, ast.Sub)):
            v = evaluate(st.value, env)
            env[st.target.id] = env[st.target.id] + v if isinstance(st.op, ast.Add) else env[st.target.id] - v
        elif isinstance(st, ast.If):
            _run(st.body if evaluate(st.test, env) else st.orelse, env, fuel)
        elif isinstance(st, ast.For):
            broke = False
            for item in evaluate(st.iter, env):
                _bind(st.target, item, env)
                try:
                    _run(st.body, env, fuel)
                except _Break:
                    broke = True
                    break
                except _Continue:
                    continue
            if not broke:
                _run(st.orelse, env, fuel)
        elif isinstance(st, ast.While):
            while evaluate(st.test, env):
                try:
                    _run(st.body, env, fuel)
                except _Break:
                    break
                except _Continue:
                    continue
        elif isinstance(st, ast.Assert):
            if not evaluate(st.test, env):
                raise NoEval("assertion fails: " + src(st.test)[:40])
        elif isinstance(st, ast.Break):
            raise _Break()
        elif isinstance(st, ast.Continue):
            raise _Continue()
        elif isinstance(st, ast.Pass) or (isinstance(st, ast.Expr) and isinstance(st.value, ast.Constant)):
            continue
        elif isinstance(st, ast.Expr) and isinstance(st.value, ast.Call) and (dotted(st.value.func) or "").startswith("logger."):
            continue
        else:
            raise NoEval(src(st)[:40])


def call_function(funcdef, args, fuel=20000, stubs=None, funcs=None, _depth=0, methods=None):
    """Abstractly interpret a small pure function (assignments, if/for/while, return; pure builtins) on concrete arguments.
    Nothing of the repository is imported or executed; anything outside the interpreted subset raises NoEval."""
    params = [a.arg for a in funcdef.args.args]
    args = list(args)
    if len(args) < len(params):
        # trailing parameters the case does not supply take their (constant) defaults
        defaults = dict(zip(params[len(params) - len(funcdef.args.defaults):], funcdef.args.defaults))
        for pn in params[len(args):]:
            if pn not in defaults:
                raise NoEval("arity")
            args.append(const_expr(defaults[pn], {}))
    if len(params) != len(args):
        raise NoEval("arity")
    env = dict(zip(params, args))
    if stubs:
        env["__stubs__"] = stubs
    if _depth > 6:
        raise NoEval("helper nesting too deep")
    env["__depth__"] = _depth
    if funcs:
        env["__funcs__"] = funcs
    if methods:
        env["__methods__"] = methods
    try:
        _run(funcdef.body, env, [fuel])
    except _Return as r:
        return r.value
    return None


def module_helpers(prog):
    """Module-level functions of the analysed program by (unique) name, for call_function(..., funcs=...)."""
    out = {}
    for _m, q, f in prog.all_functions():
        if "." not in q:
            out[q] = None if q in out else f
    return {k: v for k, v in out.items() if v is not None}



def const_expr(e, env):
    """Value of a constant expression (numbers, strings, tuples, arithmetic over names of `env`) - read off the syntax tree, nothing is
    compiled or executed.  Raises NoEval for anything else (calls, attribute access on objects, comprehensions ...)."""
    if isinstance(e, ast.Constant) and isinstance(e.value, (int, float, str, bytes, bool, type(None))):
        return e.value
    if isinstance(e, ast.Name):
        if e.id in env:
            return env[e.id]
        raise NoEval(e.id)
    if isinstance(e, (ast.Tuple, ast.List)):
        vals = [const_expr(x, env) for x in e.elts]
        return tuple(vals) if isinstance(e, ast.Tuple) else vals
    if isinstance(e, ast.UnaryOp) and isinstance(e.op, (ast.USub, ast.UAdd, ast.Invert)):
        v = const_expr(e.operand, env)
        return -v if isinstance(e.op, ast.USub) else (+v if isinstance(e.op, ast.UAdd) else ~v)
    if isinstance(e, ast.BinOp):
        l, r = const_expr(e.left, env), const_expr(e.right, env)
        ops = {ast.Add: lambda a, b: a + b, ast.Sub: lambda a, b: a - b, ast.Mult: lambda a, b: a * b, ast.FloorDiv: lambda a, b: a // b,
               ast.Div: lambda a, b: a / b, ast.Mod: lambda a, b: a % b, ast.LShift: lambda a, b: a << b, ast.RShift: lambda a, b: a >> b,
               ast.BitOr: lambda a, b: a | b, ast.BitAnd: lambda a, b: a & b, ast.BitXor: lambda a, b: a ^ b}
        if type(e.op) is ast.Pow and isinstance(l, int) and isinstance(r, int) and 0 <= r <= 64:
            return l ** r
        f = ops.get(type(e.op))
        if f is None or isinstance(l, (str, bytes)) and not isinstance(e.op, (ast.Add, ast.Mult, ast.Mod)):
            raise NoEval(src(e)[:40])
        try:
            return f(l, r)
        except Exception:
            raise NoEval(src(e)[:40])
    raise NoEval(src(e)[:40])
