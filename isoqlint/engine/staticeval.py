"""Static evaluation of pure expressions / straight-line if-chains over small concrete values (finite case analysis).

No repository code is executed: the evaluator interprets a handful of AST node kinds itself and raises NoEval for anything else.
"""
import ast

from .program import dotted, src


class NoEval(Exception):
    pass


def evaluate(e, env):
    """Static evaluation of a pure expression over small concrete tuples (finite case analysis, no repository code is run)."""
    if isinstance(e, ast.Constant):
        return e.value
    if isinstance(e, ast.Name):
        if e.id in env:
            return env[e.id]
        raise NoEval(e.id)
    if isinstance(e, (ast.List, ast.Tuple, ast.Set)):
        return [evaluate(x, env) for x in e.elts]
    if isinstance(e, ast.UnaryOp) and isinstance(e.op, ast.USub):
        return -evaluate(e.operand, env)
    if isinstance(e, ast.UnaryOp) and isinstance(e.op, ast.Not):
        return not evaluate(e.operand, env)
    if isinstance(e, ast.BinOp) and isinstance(e.op, (ast.Add, ast.Sub)):
        l, r = evaluate(e.left, env), evaluate(e.right, env)
        return l + r if isinstance(e.op, ast.Add) else l - r
    if isinstance(e, ast.Subscript):
        return evaluate(e.value, env)[evaluate(e.slice, env)]
    if isinstance(e, ast.Call) and isinstance(e.func, ast.Name) and e.func.id == "len" and len(e.args) == 1:
        return len(evaluate(e.args[0], env))
    if isinstance(e, ast.Attribute):
        d = dotted(e)
        if d in env:
            return env[d]
        raise NoEval(d)
    if isinstance(e, ast.BoolOp):
        vals = e.values
        if isinstance(e.op, ast.And):
            for v in vals:
                if not evaluate(v, env):
                    return False
            return True
        for v in vals:
            if evaluate(v, env):
                return True
        return False
    if isinstance(e, ast.Compare) and len(e.ops) == 1:
        l, r = evaluate(e.left, env), evaluate(e.comparators[0], env)
        op = e.ops[0]
        table = {ast.Eq: lambda: l == r, ast.NotEq: lambda: l != r, ast.Lt: lambda: l < r, ast.LtE: lambda: l <= r,
                 ast.Gt: lambda: l > r, ast.GtE: lambda: l >= r, ast.In: lambda: l in r, ast.NotIn: lambda: l not in r}
        if type(op) in table:
            return table[type(op)]()
    raise NoEval(src(e)[:40])


def execute(stmts, env):
    for st in stmts:
        if isinstance(st, ast.Assign) and len(st.targets) == 1 and isinstance(st.targets[0], ast.Name):
            env[st.targets[0].id] = evaluate(st.value, env)
        elif isinstance(st, ast.AugAssign) and isinstance(st.target, ast.Name) and isinstance(st.op, (ast.Add, ast.Sub)):
            v = evaluate(st.value, env)
            env[st.target.id] = env[st.target.id] + v if isinstance(st.op, ast.Add) else env[st.target.id] - v
        elif isinstance(st, ast.If):
            execute(st.body if evaluate(st.test, env) else st.orelse, env)
        elif isinstance(st, (ast.Expr, ast.Pass)):
            continue
        else:
            raise NoEval(src(st)[:40])


