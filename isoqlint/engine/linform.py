"""Linear normal forms of integer expressions: {atom text: coefficient, '1': constant}."""
import ast

from .program import src


def linform(e, env=None):
    """Return dict atom->coeff for expressions built from + - * const; other nodes are opaque atoms."""
    env = env or {}
    if isinstance(e, ast.Constant) and isinstance(e.value, (int, float)) and not isinstance(e.value, bool):
        return {"1": e.value} if e.value else {}
    if isinstance(e, ast.Name) and e.id in env:
        return linform(env[e.id], env)
    if isinstance(e, ast.UnaryOp) and isinstance(e.op, ast.USub):
        return {k: -v for k, v in linform(e.operand, env).items()}
    if isinstance(e, ast.UnaryOp) and isinstance(e.op, ast.UAdd):
        return linform(e.operand, env)
    if isinstance(e, ast.BinOp) and isinstance(e.op, (ast.Add, ast.Sub)):
        l, r = linform(e.left, env), linform(e.right, env)
        out = dict(l)
        sign = 1 if isinstance(e.op, ast.Add) else -1
        for k, v in r.items():
            out[k] = out.get(k, 0) + sign * v
        return {k: v for k, v in out.items() if v != 0}
    if isinstance(e, ast.BinOp) and isinstance(e.op, ast.Mult):
        l, r = linform(e.left, env), linform(e.right, env)
        if set(l) <= {"1"}:
            c = l.get("1", 0)
            return {k: c * v for k, v in r.items() if c * v != 0}
        if set(r) <= {"1"}:
            c = r.get("1", 0)
            return {k: c * v for k, v in l.items() if c * v != 0}
    return {src(e): 1}


def fmt(form):
    if not form:
        return "0"
    parts = []
    for k in sorted(form, key=lambda x: (x == "1", x)):
        v = form[k]
        if k == "1":
            parts.append("%+g" % v)
        elif v == 1:
            parts.append("+" + k)
        elif v == -1:
            parts.append("-" + k)
        else:
            parts.append("%+g*%s" % (v, k))
    return " ".join(parts)
