"""Static evaluation of the MatchEventSubtype classification tables (isoform_assignment.py)."""
import ast

from .program import AnalysisError, AnchorMissing, dotted, src, walk_no_nested

ISO = "src/isoform_assignment.py"
ENUM = "MatchEventSubtype"


class EventTables:
    def __init__(self, prog):
        self.prog = prog
        self.mod = prog.module(ISO)
        enum = prog.cls(ISO, ENUM)
        self.members = {}
        for st in enum.body:
            if isinstance(st, ast.Assign) and len(st.targets) == 1 and isinstance(st.targets[0], ast.Name) \
                    and isinstance(st.value, ast.Constant):
                self.members[st.targets[0].id] = st.value.value
        if len(self.members) < 40:
            raise AnalysisError("MatchEventSubtype has only %d members (expected >= 40)" % len(self.members))
        self._cache = {}
        self.predicates = {}
        for st in enum.body:
            if isinstance(st, ast.FunctionDef) and st.name.startswith("is_"):
                ret = [s for s in st.body if isinstance(s, ast.Return)]
                if len(ret) == 1 and isinstance(ret[0].value, ast.Compare) and isinstance(ret[0].value.ops[0], ast.In):
                    self.predicates[st.name] = self.eval_set(ret[0].value.comparators[0])
        self.cost = {}
        cost = self.mod.assigns.get("event_subtype_cost")
        if not isinstance(cost, ast.Dict):
            raise AnchorMissing("event_subtype_cost dict literal not found in " + ISO)
        for k, v in zip(cost.keys, cost.values):
            m = self.member_of(k)
            if m is None or not isinstance(v, ast.Constant):
                raise AnalysisError("event_subtype_cost has a non-literal entry: %s" % src(k))
            if m in self.cost:
                raise AnalysisError("event_subtype_cost lists %s twice" % m)
            self.cost[m] = v.value
        self.alternative_sites = {}
        alt = self.mod.assigns.get("alternative_sites")
        if isinstance(alt, ast.Dict):
            for k, v in zip(alt.keys, alt.values):
                self.alternative_sites[ast.literal_eval(k)] = self.member_of(v)
        self.printable = {}
        pn = self.mod.assigns.get("match_subtype_printable_names")
        if isinstance(pn, ast.Dict):
            for k, v in zip(pn.keys, pn.values):
                self.printable[self.member_of(k)] = ast.literal_eval(v)

    def member_of(self, node):
        d = dotted(node)
        if d and d.startswith(ENUM + ".") and d.split(".")[1] in self.members and d.count(".") == 1:
            return d.split(".")[1]
        return None

    def named_set(self, name):
        if name in self._cache:
            return self._cache[name]
        v = self.mod.assigns.get(name)
        if v is None:
            raise AnchorMissing("set %s not found in %s" % (name, ISO))
        self._cache[name] = None  # cycle guard
        s = self.eval_set(v)
        self._cache[name] = s
        return s

    def eval_set(self, node):
        if isinstance(node, (ast.Set, ast.List, ast.Tuple)):
            out = set()
            for e in node.elts:
                m = self.member_of(e)
                if m is None:
                    raise AnalysisError("non-member in event set literal: %s" % src(e))
                out.add(m)
            return frozenset(out)
        if isinstance(node, ast.Name):
            s = self.named_set(node.id)
            if s is None:
                raise AnalysisError("cyclic set definition %s" % node.id)
            return s
        if isinstance(node, ast.Call):
            fn = node.func
            if isinstance(fn, ast.Name) and fn.id in ("set", "frozenset") and len(node.args) == 1:
                return self.eval_set(node.args[0])
            if isinstance(fn, ast.Attribute) and fn.attr in ("union", "difference", "intersection", "symmetric_difference"):
                base = self.eval_set(fn.value)
                for a in node.args:
                    other = self.eval_set(a)
                    base = {"union": base | other, "difference": base - other, "intersection": base & other,
                            "symmetric_difference": base ^ other}[fn.attr]
                return frozenset(base)
        if isinstance(node, ast.BinOp):
            l, r = self.eval_set(node.left), self.eval_set(node.right)
            if isinstance(node.op, ast.BitOr):
                return l | r
            if isinstance(node.op, ast.Sub):
                return l - r
            if isinstance(node.op, ast.BitAnd):
                return l & r
        raise AnalysisError("cannot evaluate event set expression: %s" % src(node))

    def pred(self, name):
        if name not in self.predicates:
            # predicates defined through a named set (is_major_inconsistency -> all_major_events)
            raise AnchorMissing("predicate %s.%s not found or not of the form 'return x in <set>'" % (ENUM, name))
        return self.predicates[name]


def member_uses(prog, tables, rel):
    """All 'MatchEventSubtype.<member>' nodes in a module with their syntactic role."""
    m = prog.module(rel)
    out = []
    for node in ast.walk(m.tree):
        if not isinstance(node, ast.Attribute):
            continue
        mem = tables.member_of(node)
        if mem is None:
            continue
        role = "value"
        cur = node
        while True:
            parent = getattr(cur, "_parent", None)
            if parent is None or isinstance(parent, ast.stmt):
                break
            if isinstance(parent, ast.Compare):
                role = "compare"
                break
            if isinstance(parent, ast.Subscript) and cur is parent.slice:
                role = "index"
                break
            if isinstance(parent, ast.Dict) and any(k is cur for k in parent.keys):
                role = "dictkey"
                break
            cur = parent
        out.append((node, mem, role))
    return out
