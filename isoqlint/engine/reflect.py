"""Typed strand reflection of code (X1).

The reflection rho maps a genomic coordinate c to -c, an interval [s, e] to [-e, -s], reverses coordinate-ordered
sequences (index i <-> -i-1, slice [a:b] <-> [-b:-a]) and leaves lengths, counts and parameters unchanged.  Identifiers are
mapped by a token-wise dual dictionary (polya<->polyt, end<->start, right<->left, ...).  A function L and its declared
mirror R are both reduced to a multiset of canonical facts (guards and effects in linear normal form); equivariance under
reflection requires facts(rho(L)) == facts(R).

Unsupported constructs raise Unsupported (-> ANALYSIS-ERROR for that pair, never a violation).
"""
import ast
import re

from .program import src, dotted
from .symexec import clone

DUAL_TOKENS = [("polya", "polyt"), ("end", "start"), ("ends", "starts"), ("right", "left"), ("last", "first"),
               ("outgoing", "incoming"), ("out", "inc"), ("rightmost", "leftmost"), ("beyond", "before"), ("tail", "head"),
               ("fwd", "rev"), ("forward", "backward")]
DUAL = {}
for a, b in DUAL_TOKENS:
    DUAL.setdefault(a, b)
    DUAL.setdefault(b, a)


class Unsupported(Exception):
    pass


def dual_ident(name, extra=None):
    if extra and name in extra:
        return extra[name]
    parts = re.split(r"(_)", name)
    out = []
    for p in parts:
        low = p.lower()
        if low in DUAL:
            d = DUAL[low]
            out.append(d.upper() if p.isupper() else d)
        elif low.startswith("polya") and len(low) > 5:
            out.append("polyt" + p[5:])
        elif low.startswith("polyt") and len(low) > 5:
            out.append("polya" + p[5:])
        else:
            out.append(p)
    return "".join(out)


class Roles:
    """Typing of identifiers for one pair.  Each entry is a set of names or compiled regexes."""

    def __init__(self, coord=(), interval=(), seq=(), length=(), tagged=(), returns=None, extra_dual=None, drop_calls=("logger",),
                 coord_re=None, interval_re=None, seq_re=None, inline=(), index_args=None, other=()):
        self.other = set(other)
        self.seq_elem = {}
        self.index_vars = {}
        self.opaque_index = set()       # index variables that are dual by name only (S[first_idx] <-> S[last_idx])
        self.singleton_seq = set()      # names of sequences known to hold exactly one element here: S[0] and S[-1] are the same element
        self.singleton_index = set()    # source texts X of index pairs with X[0] == X[1] in the compared code: S[X[c]] is one opaque position
        self.coord_funcs = set()        # callees returning a coordinate
        self.coord_iterables = set()    # dicts / collections whose keys are coordinates
        self.coord_src = set()          # source texts of expressions that are coordinates (e.g. 'best_pair[0]')
        self.inline = set(inline)           # single-definition locals substituted into their uses
        self.index_args = {}                # (callee, arg position) -> AST of (n - 1): index j reflects to (n - 1) - j
        for k, v in (index_args or {}).items():
            self.index_args[k] = ast.parse(v, mode="eval").body
        self.coord = set(coord)
        self.interval = set(interval)
        self.seq = set(seq)
        self.length = set(length)
        self.tagged = set(tagged)
        self.returns = returns
        self.extra_dual = extra_dual or {}
        self.drop_calls = drop_calls
        self.coord_re = re.compile(coord_re or r"(^|_)(pos|position|site)($|_)|_(start|end)$|^(start|end)$")
        self.interval_re = re.compile(interval_re or r"^(exon|intron|region|e|inc|out)$|_(exon|intron|region)$")
        self.seq_re = re.compile(seq_re or r"(exons|introns|blocks)$")

    def explicit_names(self):
        return self.other | self.length | self.coord | self.interval | self.seq | self.tagged | set(self.index_vars) | self.opaque_index

    def explicit(self, name):
        """Role given explicitly in the pair table (None if the name is not listed)."""
        for t, names in (("O", self.other), ("L", self.length), ("C", self.coord), ("I", self.interval), ("S", self.seq), ("T", self.tagged)):
            if name in names:
                return t
        return None

    def of_name(self, name):
        if name in self.other:
            return "O"
        if name in self.length:
            return "L"
        if name in self.coord:
            return "C"
        if name in self.interval:
            return "I"
        if name in self.seq:
            return "S"
        if name in self.tagged:
            return "T"
        if re.search(r"(_len|_length|_count|_index|_delta|count|dist_|^dist|_cov|_step)", name) or name in ("i", "j", "s", "ind", "n"):
            return "L"
        if self.seq_re.search(name):
            return "S"
        if self.interval_re.search(name):
            return "I"
        if self.coord_re.search(name):
            return "C"
        return "O"


def polarity_free(name):
    return min(name, dual_ident(name))


class Reflector:
    def __init__(self, roles, mirror, func=None, scope=None):
        self.r = roles
        self.mirror = mirror     # True: apply rho; False: canonicalise only
        self.params = {}
        self.locals = set()
        self.local_token = {}    # local name -> positional token (order of first store): local names carry no meaning
        self.local_defs = {}     # local name -> [("assign", expr) | ("elem", iterable expr)]
        self._ty_busy = set()
        self.auto_inl = {}
        self.value_defs = {}     # local name -> [(kind, expr)]: every way the local gets a value
        self._tok_busy = set()
        self._tok_cache = {}
        self.idents = None
        mod = getattr(func, "_module", None) if func is not None else None
        if mod is not None:
            cache = mod.__dict__.setdefault("_all_idents", None)
            if cache is None:
                cache = set()
                for n_ in ast.walk(mod.tree):
                    if isinstance(n_, ast.Name):
                        cache.add(n_.id)
                    elif isinstance(n_, ast.Attribute):
                        cache.add(n_.attr)
                    elif isinstance(n_, (ast.FunctionDef, ast.ClassDef)):
                        cache.add(n_.name)
                    elif isinstance(n_, ast.arg):
                        cache.add(n_.arg)
                    elif isinstance(n_, ast.keyword) and n_.arg:
                        cache.add(n_.arg)
                mod.__dict__["_all_idents"] = cache
            self.idents = cache
        if func is not None:
            for i, a in enumerate(func.args.args):
                self.params[a.arg] = "self" if a.arg in ("self", "cls") else "$%d" % i
            order = []
            for n in ast.walk(func):
                if isinstance(n, ast.Name) and isinstance(n.ctx, ast.Store):
                    self.locals.add(n.id)
                    order.append((n.lineno, n.col_offset, n.id))
                elif isinstance(n, ast.comprehension):
                    for x in ast.walk(n.target):
                        if isinstance(x, ast.Name):
                            self.locals.add(x.id)
                if isinstance(n, ast.Assign) and len(n.targets) == 1 and isinstance(n.targets[0], ast.Name):
                    self.local_defs.setdefault(n.targets[0].id, []).append(("assign", n.value))
                elif isinstance(n, (ast.For, ast.comprehension)) and isinstance(n.target, ast.Name):
                    self.local_defs.setdefault(n.target.id, []).append(("elem", n.iter))
                if isinstance(n, ast.Assign):
                    for t in n.targets:
                        if isinstance(t, ast.Name):
                            self.value_defs.setdefault(t.id, []).append(("assign", n.value))
                        elif isinstance(t, (ast.Tuple, ast.List)):
                            for i, x in enumerate(t.elts):
                                if isinstance(x, ast.Name):
                                    self.value_defs.setdefault(x.id, []).append(("unpack%d" % i, n.value))
                elif isinstance(n, ast.AugAssign) and isinstance(n.target, ast.Name):
                    self.value_defs.setdefault(n.target.id, []).append(("aug" + type(n.op).__name__, n.value))
                elif isinstance(n, (ast.For, ast.comprehension)):
                    if isinstance(n.target, ast.Name):
                        self.value_defs.setdefault(n.target.id, []).append(("elem", n.iter))
                    else:
                        for i, x in enumerate(getattr(n.target, "elts", [])):
                            if isinstance(x, ast.Name):
                                self.value_defs.setdefault(x.id, []).append(("elem%d" % i, n.iter))
            self.func = func
            self.frame_free = set()
            if scope is not None:
                inside_ids = {id(n) for st in scope for n in ast.walk(st)}
                stored_in = {n.id for st in scope for n in ast.walk(st) if isinstance(n, ast.Name) and isinstance(n.ctx, ast.Store)}
                stored_out = {n.id for n in ast.walk(func) if isinstance(n, ast.Name) and isinstance(n.ctx, ast.Store) and id(n) not in inside_ids}
                # locals that get (all) their values outside the compared statements are the same object on both sides
                self.frame_free = {nm for nm in self.locals if nm not in stored_in or nm in stored_out}
                vd = {}
                for st in scope:
                    for n in ast.walk(st):
                        if isinstance(n, ast.Assign):
                            for t in n.targets:
                                if isinstance(t, ast.Name):
                                    vd.setdefault(t.id, []).append(("assign", n.value))
                                elif isinstance(t, (ast.Tuple, ast.List)):
                                    for i, x in enumerate(t.elts):
                                        if isinstance(x, ast.Name):
                                            vd.setdefault(x.id, []).append(("unpack%d" % i, n.value))
                        elif isinstance(n, ast.AugAssign) and isinstance(n.target, ast.Name):
                            vd.setdefault(n.target.id, []).append(("aug" + type(n.op).__name__, n.value))
                        elif isinstance(n, (ast.For, ast.comprehension)):
                            if isinstance(n.target, ast.Name):
                                vd.setdefault(n.target.id, []).append(("elem", n.iter))
                            else:
                                for i, x in enumerate(getattr(n.target, "elts", [])):
                                    if isinstance(x, ast.Name):
                                        vd.setdefault(x.id, []).append(("elem%d" % i, n.iter))
                for nm in stored_in:
                    if nm in stored_out:
                        vd.setdefault(nm, []).append(("outer", ast.Constant(value="<value on entry>")))
                self.scope_defs = vd
            else:
                self.scope_defs = None
            scoped = []
            if scope:
                for st in scope:
                    for n in ast.walk(st):
                        if isinstance(n, ast.Name) and isinstance(n.ctx, ast.Store):
                            scoped.append((n.lineno, n.col_offset, n.id))
            first_in_scope = {}
            for ln, co, nm in sorted(scoped):
                first_in_scope.setdefault(nm, len(first_in_scope))
            stored_outside = set()
            if scope:
                inside = {id(n) for st in scope for n in ast.walk(st)}
                for n in ast.walk(func):
                    if isinstance(n, ast.Name) and isinstance(n.ctx, ast.Store) and id(n) not in inside:
                        stored_outside.add(n.id)
            self.auto_inl = self._single_use_locals(func)
            k = 0
            for ln, co, nm in sorted(order):
                if nm in self.local_token or nm in self.params or nm in self.r.inline or nm in self.auto_inl:
                    continue
                if dual_ident(nm, self.r.extra_dual) != nm or nm in self.r.index_vars or nm in self.r.opaque_index:
                    continue          # the name carries a side (left/right, polya/polyt ...): canonicalised through its dual
                if nm in first_in_scope and nm not in stored_outside:
                    self.local_token[nm] = "%%b%d" % first_in_scope[nm]
                else:
                    self.local_token[nm] = "%%f%d" % k
                    k += 1

    def name(self, ident):
        """Canonical token for a plain Name: positional for parameters, polarity-free for locals, dual for globals."""
        if ident in self.params:
            return self.params[ident]
        if ident in self.local_token:
            return self._value_token(ident)
        if ident in self.locals:
            return min(ident, dual_ident(ident, self.r.extra_dual))
        return self.dn(ident)

    def _value_token(self, ident):
        """Name-free token of a side-neutral local: a digest of the canonical forms of everything assigned to it
        (in the current frame, so a mirrored definition yields the mirrored token)."""
        if ident in self._tok_cache:
            return self._tok_cache[ident]
        if ident in getattr(self, "frame_free", ()) and (self.mirror or self.scope_defs is not None):
            if getattr(self, "_plain_r", None) is None:
                self._plain_r = Reflector(self.r, False, self.func)
            tok = self._plain_r._value_token(ident) if ident in self._plain_r.local_token else self._plain_r.name(ident)
            self._tok_cache[ident] = tok
            return tok
        defs = self.scope_defs if self.scope_defs is not None else self.value_defs
        if ident in self._tok_busy or ident not in defs:
            return "%rec" if ident in self._tok_busy else self.local_token[ident]
        self._tok_busy.add(ident)
        try:
            texts = []
            tgt = ast.Name(id=ident, ctx=ast.Store())
            for kind, v in defs[ident]:
                try:
                    if kind == "assign":
                        t = self._assign(tgt, self._subst_inline(v))      # same canonical form as the fact (the target renders as %rec)
                    elif kind.startswith("aug"):
                        t = self.pos_coord(v) if self.ty(tgt) == "C" else self.expr(v)
                    elif kind.startswith("elem"):
                        t = self.iter_canon(v, ordered=False)
                    else:
                        t = self.expr(v)
                except Unsupported:
                    t = "?" + type(v).__name__
                texts.append("%s:%s" % (kind, t))
        finally:
            self._tok_busy.discard(ident)
        import hashlib
        tok = "%" + hashlib.md5("|".join(sorted(set(texts))).encode()).hexdigest()[:8]
        self._tok_cache[ident] = tok
        return tok

    # ---------------- typing
    def ty(self, e):
        if self.r.coord_src and not isinstance(e, ast.Constant) and src(e) in self.r.coord_src:
            return "C"
        if isinstance(e, ast.Constant):
            return "L" if isinstance(e.value, (int, float)) and not isinstance(e.value, bool) else "O"
        if isinstance(e, ast.Name):
            t = self.r.explicit(e.id)
            if t is not None:
                return t
            if e.id in self.local_defs and e.id not in self.params and e.id not in self._ty_busy \
                    and e.id not in self.r.opaque_index and e.id not in self.r.index_vars:
                self._ty_busy.add(e.id)
                try:
                    ts = set()
                    for kind, v in self.local_defs[e.id]:
                        tv = self.ty(v)
                        if kind == "elem":
                            tv = self._elem_ty(v, tv)
                        ts.add(tv)
                finally:
                    self._ty_busy.discard(e.id)
                ts.discard("O")
                if len(ts) == 1:
                    return ts.pop()
            return self.r.of_name(e.id)
        if isinstance(e, ast.Attribute):
            d = dotted(e) or ""
            if ".params." in d or d.startswith("params."):
                return "L"
            if isinstance(e.value, ast.Name) and e.value.id[:1].isupper():
                return "O"
            return self.r.of_name(e.attr)
        if isinstance(e, ast.Subscript):
            bt = self.ty(e.value)
            if isinstance(e.slice, ast.Slice):
                return bt if bt == "S" else "O"
            if bt == "S":
                base_name = e.value.id if isinstance(e.value, ast.Name) else (e.value.attr if isinstance(e.value, ast.Attribute) else None)
                if base_name in self.r.seq_elem:
                    return self.r.seq_elem[base_name]
                return "T" if base_name and "path" in base_name else "I"
            if bt == "I":
                return "C"
            if bt == "T":
                if isinstance(e.slice, ast.Constant) and e.slice.value == 1:
                    return "C"
                return "O"
            return "O"
        if isinstance(e, ast.UnaryOp) and isinstance(e.op, ast.USub):
            return self.ty(e.operand)
        if isinstance(e, ast.BinOp):
            l, r = self.ty(e.left), self.ty(e.right)
            if isinstance(e.op, (ast.Add, ast.Sub)):
                if l == "C" and r == "C":
                    return "L" if isinstance(e.op, ast.Sub) else "O"
                if "C" in (l, r):
                    return "C"
                return "L"
            return "L" if l in ("L",) and r in ("L",) else ("L" if "C" not in (l, r) else "O")
        if isinstance(e, ast.Call):
            fn = dotted(e.func) or ""
            last = fn.split(".")[-1]
            if last in ("len", "abs", "interval_len", "intervals_total_length", "int", "round", "float"):
                return "L"
            if last in self.r.coord_funcs:
                return "C"
            if last == "next" and e.args and isinstance(e.args[0], (ast.ListComp, ast.GeneratorExp)):
                return self.ty(e.args[0].elt)              # first element of a generated sequence (default: None = no position)
            if last in ("max", "min"):
                ts = [self.ty(a) for a in e.args]
                if len(e.args) == 1 and isinstance(e.args[0], (ast.ListComp, ast.GeneratorExp)):
                    return self.ty(e.args[0].elt)
                if len(e.args) == 1 and isinstance(e.args[0], ast.Call) and isinstance(e.args[0].func, ast.Attribute) \
                        and e.args[0].func.attr == "keys":
                    b = e.args[0].func.value
                    bn = b.id if isinstance(b, ast.Name) else (b.attr if isinstance(b, ast.Attribute) else None)
                    if bn in self.r.coord_iterables:
                        return "C"
                return "C" if ts and all(t == "C" for t in ts) else ("L" if all(t in ("L",) for t in ts) else "O")
            return "O"
        if isinstance(e, ast.IfExp):
            return self.ty(e.body)
        if isinstance(e, ast.Tuple):
            return "O"
        return "O"

    @staticmethod
    def _order_sensitive(loop):
        """A loop that can stop early (break) or returns something other than a constant depends on the direction it walks in;
        a pure search (`return True` on a hit) or a commutative accumulation does not."""
        for n in ast.walk(loop):
            if isinstance(n, ast.Break):
                return True
            if isinstance(n, ast.Return) and not (n.value is None or isinstance(n.value, ast.Constant)):
                return True
        if isinstance(loop.iter, ast.Call) and isinstance(loop.iter.func, ast.Name) and loop.iter.func.id == "reversed":
            return True
        # loop-carried control dependence: a branch of the body tests a variable that the body itself updates arithmetically
        # ("first element seen so far" logic).  A min/max accumulation (`if d < best: best = d`) is not order-sensitive.
        updated = {n.target.id for n in ast.walk(loop) if isinstance(n, ast.AugAssign) and isinstance(n.target, ast.Name)}
        for n in ast.walk(loop):
            if isinstance(n, (ast.If, ast.IfExp, ast.While)):
                if updated & {x.id for x in ast.walk(n.test) if isinstance(x, ast.Name)}:
                    return True
        return False

    def iter_canon(self, it, ordered=True):
        """Canonical text of an iterated expression: walking a coordinate-ordered sequence forward is the mirror image of walking it
        backward (`for e in exons` <-> `for e in reversed(exons)`)."""
        inner, backward = it, False
        if isinstance(it, ast.Call) and isinstance(it.func, ast.Name) and it.func.id == "reversed" and len(it.args) == 1:
            inner, backward = it.args[0], True
        if self.ty(inner) == "S":
            if not ordered:
                return self.expr(inner)
            if self.mirror:
                backward = not backward
            return "%s%s" % (self.expr(inner), " backwards" if backward else " forwards")
        return self.expr(it)

    def _elem_ty(self, iterable, t_iter):
        """Type of an element of `iterable` (already typed t_iter)."""
        if isinstance(iterable, ast.Call) and isinstance(iterable.func, ast.Name) and iterable.func.id == "reversed" and len(iterable.args) == 1:
            return self._elem_ty(iterable.args[0], self.ty(iterable.args[0]))
        if t_iter == "S":
            bn = iterable.id if isinstance(iterable, ast.Name) else (iterable.attr if isinstance(iterable, ast.Attribute) else None)
            if bn in self.r.seq_elem:
                return self.r.seq_elem[bn]
            return "T" if bn and "path" in bn else "I"
        if isinstance(iterable, ast.Call) and (dotted(iterable.func) or "") in ("range", "enumerate"):
            return "L" if dotted(iterable.func) == "range" else "O"
        return "O"

    def dn(self, name):
        if not self.mirror:
            return name
        d = dual_ident(name, self.r.extra_dual)
        # an identifier is side-specific only if its dual exists too (polya_pos / polyt_pos); `polya_confirmed` without a
        # `polyt_confirmed` anywhere in the module is a side-neutral name that merely contains the word
        if d != name and self.idents is not None and d not in self.idents and name not in (self.r.extra_dual or {}):
            return name
        return d

    # ---------------- linear forms over canonical atoms
    def lin(self, e, neg_coords=True):
        """{atom: coeff} of an arithmetic expression in the (possibly reflected) frame."""
        if isinstance(e, ast.Constant) and isinstance(e.value, (int, float)) and not isinstance(e.value, bool):
            return {"1": e.value} if e.value else {}
        if isinstance(e, ast.UnaryOp) and isinstance(e.op, ast.USub):
            return {k: -v for k, v in self.lin(e.operand).items()}
        if isinstance(e, ast.BinOp) and isinstance(e.op, (ast.Add, ast.Sub)):
            l, r = self.lin(e.left), self.lin(e.right)
            out = dict(l)
            sg = 1 if isinstance(e.op, ast.Add) else -1
            for k, v in r.items():
                out[k] = out.get(k, 0) + sg * v
            return {k: v for k, v in out.items() if v != 0}
        if isinstance(e, ast.BinOp) and isinstance(e.op, ast.Mult):
            l, r = self.lin(e.left), self.lin(e.right)
            if set(l) <= {"1"}:
                c = l.get("1", 0)
                return {k: c * v for k, v in r.items() if c * v}
            if set(r) <= {"1"}:
                c = r.get("1", 0)
                return {k: c * v for k, v in l.items() if c * v}
        # atom
        if isinstance(e, ast.Name) and e.id in self.r.index_vars and self.mirror:
            f = dict(self.lin(self.r.index_vars[e.id]))
            k = self.atom(e)
            f[k] = f.get(k, 0) - 1
            return {a: b for a, b in f.items() if b != 0}
        t = self.ty(e)
        if t == "C" and self.mirror:
            return {self.atom(e, coord=True): -1}
        return {self.atom(e): 1}

    def fmt(self, form):
        if not form:
            return "0"
        parts = []
        for k in sorted(form, key=lambda x: (x == "1", x)):
            v = form[k]
            parts.append(("%+g" % v) if k == "1" else ("%+g*%s" % (v, k)))
        return " ".join(parts)

    def norm_sign(self, form):
        """Make the first non-constant atom positive; return (form, flipped)."""
        keys = sorted(k for k in form if k != "1")
        if keys and form[keys[0]] < 0:
            return {k: -v for k, v in form.items()}, True
        if not keys and form.get("1", 0) < 0:
            return {k: -v for k, v in form.items()}, True
        return form, False

    # ---------------- atoms (non-arithmetic sub-expressions) in canonical text
    def atom(self, e, coord=False):
        """Canonical text of a non-arithmetic expression, in positive (dual) form when coord=True."""
        if isinstance(e, ast.Name):
            return self.name(e.id)
        if isinstance(e, ast.Constant) and getattr(e, "_flag", False):
            return repr((not e.value) if self.mirror else e.value)
        if isinstance(e, ast.Constant):
            if isinstance(e.value, str) and self.mirror and e.value in ("+", "-"):
                return repr("-" if e.value == "+" else "+")
            return repr(e.value)
        if isinstance(e, ast.Attribute):
            if isinstance(e.value, ast.Name) and e.value.id[:1].isupper():
                # enum / class constants: only the side token is dual (alternative_polya_site_left <-> _right)
                attr = e.attr
                if self.mirror:
                    attr = "_".join({"left": "right", "right": "left"}.get(t, t) for t in attr.split("_"))
                    attr = self.r.extra_dual.get(e.attr, attr)
                return "%s.%s" % (e.value.id, attr)
            return "%s.%s" % (self.atom(e.value), self.dn(e.attr))
        if isinstance(e, ast.Subscript):
            bt = self.ty(e.value)
            base = self.atom(e.value)
            if isinstance(e.slice, ast.Slice):
                lo, hi = e.slice.lower, e.slice.upper
                if bt == "S" and self.mirror:
                    nlo = None if hi is None else ast.UnaryOp(op=ast.USub(), operand=hi)
                    nhi = None if lo is None else ast.UnaryOp(op=ast.USub(), operand=lo)
                    lo, hi = nlo, nhi
                return "%s[%s:%s]" % (base, "" if lo is None else self.fmt(self.lin(lo)), "" if hi is None else self.fmt(self.lin(hi)))
            idx = e.slice
            if bt == "S" and src(idx) in ("0", "-1"):
                bn = e.value.id if isinstance(e.value, ast.Name) else (e.value.attr if isinstance(e.value, ast.Attribute) else None)
                if bn in self.r.singleton_seq:
                    return "%s[only]" % base
            if bt == "I" and self.mirror and isinstance(idx, ast.Constant) and idx.value in (0, 1):
                return "%s[%s]" % (base, self.fmt({"1": 1 - idx.value} if 1 - idx.value else {}))
            if bt == "S" and isinstance(idx, ast.Name) and (idx.id in self.r.opaque_index or idx.id in self.r.index_vars):
                return "%s[%s]" % (base, self.name(idx.id))
            if bt == "S" and isinstance(idx, ast.Subscript) and src(idx.value) in self.r.singleton_index \
                    and isinstance(idx.slice, ast.Constant) and idx.slice.value in (0, 1):
                return "%s[ix:%s]" % (base, src(idx.value))
            if bt not in ("S", "I", "T") and self.ty(idx) == "C":
                return "%s[C:%s]" % (base, self.pos_coord(idx))
            if bt == "S" and self.mirror:
                f = self.lin(idx)
                f = {k: -v for k, v in f.items()}
                f["1"] = f.get("1", 0) - 1
                f = {k: v for k, v in f.items() if v != 0}
                return "%s[%s]" % (base, self.fmt(f))
            if self.ty(idx) in ("L", "C") or isinstance(idx, (ast.BinOp, ast.UnaryOp)):
                return "%s[%s]" % (base, self.fmt(self.lin(idx)))
            return "%s[%s]" % (base, self.expr(idx))
        if isinstance(e, ast.Call):
            return self.call(e)
        if isinstance(e, ast.Tuple):
            return "(" + ", ".join(self.expr(x) for x in e.elts) + ")"
        if isinstance(e, ast.List):
            return "[" + ", ".join(self.expr(x) for x in e.elts) + "]"
        if isinstance(e, (ast.ListComp, ast.GeneratorExp)):
            gens = " ".join("for %s in %s%s" % (self.atom(g.target), self.expr(g.iter),
                                                "".join(" if " + self.cond(c) for c in g.ifs)) for g in e.generators)
            return "[%s %s]" % (self.expr(e.elt), gens)
        if isinstance(e, ast.IfExp):
            return "(%s if %s else %s)" % (self.expr(e.body), self.cond(e.test), self.expr(e.orelse))
        if isinstance(e, ast.BinOp) and not isinstance(e.op, (ast.Add, ast.Sub)):
            lin_mult = isinstance(e.op, ast.Mult) and (isinstance(e.left, ast.Constant) or isinstance(e.right, ast.Constant))
            if not lin_mult:
                return "(%s %s %s)" % (self.expr(e.left), type(e.op).__name__, self.expr(e.right))
        if isinstance(e, ast.UnaryOp) and not isinstance(e.op, ast.USub):
            return "(%s %s)" % (type(e.op).__name__, self.expr(e.operand))
        if isinstance(e, (ast.BinOp, ast.UnaryOp)):
            return "(" + self.fmt(self.lin(e)) + ")"
        if isinstance(e, (ast.Compare, ast.BoolOp)):
            return self.cond(e)
        if isinstance(e, ast.Lambda):
            return "lambda:" + src(e.body)      # component selector (sort key): positional, not reflected
        if isinstance(e, ast.Set):
            return "{" + ", ".join(sorted(self.expr(x) for x in e.elts)) + "}"
        if isinstance(e, ast.Dict):
            return "{" + ", ".join(sorted("%s: %s" % (self.expr(k), self.expr(v)) for k, v in zip(e.keys, e.values))) + "}"
        raise Unsupported("expression %s" % type(e).__name__)

    def call(self, e):
        fn = dotted(e.func)
        if fn is None:
            if isinstance(e.func, ast.Attribute):
                fn = "?." + e.func.attr
            else:
                raise Unsupported("call of %s" % src(e.func))
        parts = fn.split(".")
        last = parts[-1]
        recv = self.atom(e.func.value) if isinstance(e.func, ast.Attribute) else ""
        if last == "range" and len(e.args) == 2 and self.ty(e.args[0]) == "C" and self.ty(e.args[1]) == "C":
            lo = e.args[0]
            hi = ast.BinOp(left=e.args[1], op=ast.Sub(), right=ast.Constant(value=1))
            a, b = (hi, lo) if self.mirror else (lo, hi)
            return "crange(C:%s, C:%s)" % (self.pos_coord(a), self.pos_coord(b))
        # sorting a collection of coordinates: ascending order of the mirrored coordinates is descending order of the original ones
        if last == "sorted" and e.args and self._coord_collection(e.args[0]):
            desc = any(k.arg == "reverse" and isinstance(k.value, ast.Constant) and k.value.value is True for k in e.keywords)
            if any(k.arg not in ("reverse",) or not isinstance(k.value, ast.Constant) for k in e.keywords) or len(e.args) != 1:
                raise Unsupported("sorted() of coordinates with a key / computed direction")
            if self.mirror:
                desc = not desc
            return "sorted_coords(%s, %s)" % (self.atom(e.args[0]), "outermost-right first" if desc else "outermost-left first")
        # sequence growth at the far end / near end
        if last == "append" and isinstance(e.func, ast.Attribute) and self.ty(e.func.value) == "S" and len(e.args) == 1:
            return "%s(%s, %s)" % ("seq_add_first" if self.mirror else "seq_add_last", recv, self.expr(e.args[0]))
        if last in ("max", "min") and self.ty(e) == "C" and len(e.args) == 1 and isinstance(e.args[0], ast.Call) \
                and isinstance(e.args[0].func, ast.Attribute) and e.args[0].func.attr == "keys":
            nm = ({"max": "min", "min": "max"}[last]) if self.mirror else last
            return "%s(%s.keys())" % (nm, self.atom(e.args[0].func.value))
        name = self.dn(last) if len(parts) > 1 or last not in self.locals and last not in self.params else self.name(last)
        if last in ("max", "min") and self.ty(e) == "C":
            # -max(a, b) = min(-a, -b): returned in positive dual form by the caller through lin()
            args = [self.pos_coord(a) for a in e.args]
            nm = ({"max": "min", "min": "max"}[last]) if self.mirror else last
            return "%s(%s)" % (nm, ", ".join(sorted(args)))
        args = []
        for i, a in enumerate(e.args):
            base = self.r.index_args.get((last, i))
            if base is not None and self.mirror and isinstance(a, ast.Tuple):
                elts = []
                for x in a.elts:
                    f = self.lin(base)
                    for k, v in self.lin(x).items():
                        f[k] = f.get(k, 0) - v
                    elts.append(self.fmt({k: v for k, v in f.items() if v != 0}))
                args.append("(" + ", ".join(elts) + ")")
            elif base is not None and isinstance(a, ast.Tuple):
                args.append("(" + ", ".join(self.fmt(self.lin(x)) for x in a.elts) + ")")
            elif base is not None:
                f = self.lin(a)
                if self.mirror:
                    g = self.lin(base)
                    for k, v in f.items():
                        g[k] = g.get(k, 0) - v
                    f = {k: v for k, v in g.items() if v != 0}
                args.append(self.fmt(f))
            else:
                args.append(self.expr(a))
        args += ["%s=%s" % ((self.r.extra_dual.get(k.arg, k.arg) if self.mirror else k.arg), self.expr(k.value)) for k in e.keywords]
        if last in ("max", "min", "abs"):
            if last == "abs":
                f, _ = self.norm_sign(self.lin(e.args[0]))
                return "abs(%s)" % self.fmt(f)
            args = sorted(args)
        return "%s%s(%s)" % (recv + "." if recv else "", name, ", ".join(args))

    def _coord_collection(self, e):
        bn = e.id if isinstance(e, ast.Name) else (e.attr if isinstance(e, ast.Attribute) else None)
        return bn is not None and (bn in self.r.coord_iterables or self.dn(bn) in self.r.coord_iterables)

    def pos_coord(self, e):
        """Canonical text of a C-typed expression in positive dual form (i.e. of -rho(e))."""
        if isinstance(e, (ast.ListComp, ast.GeneratorExp)):
            gens = " ".join("for %s in %s" % (self.atom(g.target), self.expr(g.iter)) for g in e.generators)
            return "[%s %s]" % (self.pos_coord(e.elt), gens)
        f = self.lin(e)
        if self.mirror:
            f = {k: -v for k, v in f.items()}
        return self.fmt(f)

    def expr(self, e):
        """Canonical text of a value expression (arithmetic -> linear form)."""
        if isinstance(e, ast.Constant) and e.value is None:
            return "None"                       # 'no position': the same on both strands
        t = self.ty(e)
        if isinstance(e, (ast.BinOp, ast.UnaryOp)) or (t == "C" and not isinstance(e, (ast.Tuple, ast.List))):
            if t == "C":
                return "C:" + self.pos_coord(e)
            return self.fmt(self.lin(e))
        return self.atom(e)

    # ---------------- conditions
    def cond(self, t):
        if isinstance(t, ast.BoolOp):
            op = " and " if isinstance(t.op, ast.And) else " or "
            return "(" + op.join(sorted(self.cond(v) for v in t.values)) + ")"
        if isinstance(t, ast.UnaryOp) and isinstance(t.op, ast.Not):
            return "not " + self.cond(t.operand)
        if isinstance(t, ast.Compare):
            parts = []
            left = t.left
            for op, right in zip(t.ops, t.comparators):
                parts.append(self.cmp(left, op, right))
                left = right
            return "(" + " and ".join(sorted(parts)) + ")" if len(parts) > 1 else parts[0]
        return self.expr(t)

    def cmp(self, l, op, r):
        if isinstance(op, (ast.In, ast.NotIn, ast.Is, ast.IsNot)):
            return "%s %s %s" % (self.expr(l), type(op).__name__, self.expr(r))
        # sentinel tests  x == -1 / x != -1  are flags, not coordinates
        for a, b in ((l, r), (r, l)):
            if isinstance(b, ast.UnaryOp) and isinstance(b.op, ast.USub) and isinstance(b.operand, ast.Constant) and b.operand.value == 1 \
                    and isinstance(op, (ast.Eq, ast.NotEq)):
                return "%s %s absent" % (self.atom(a), type(op).__name__)
        tl, tr = self.ty(l), self.ty(r)
        arith = {"C", "L"}
        if tl in arith and tr in arith or isinstance(l, (ast.BinOp,)) or isinstance(r, (ast.BinOp,)):
            f = self.lin(ast.BinOp(left=l, op=ast.Sub(), right=r))
            name = type(op).__name__
            # integers: strict -> non-strict  (f > 0  ==  f - 1 >= 0 ;  f < 0  ==  f + 1 <= 0)
            integral = all(isinstance(v, int) for v in f.values()) and not any(("rel" in k or "fraction" in k or "ratio" in k) for k in f)
            if integral and name == "Gt":
                f = dict(f); f["1"] = f.get("1", 0) - 1; name = "GtE"
            elif integral and name == "Lt":
                f = dict(f); f["1"] = f.get("1", 0) + 1; name = "LtE"
            f = {k: v for k, v in f.items() if v != 0}
            f, flipped = self.norm_sign(f)
            if flipped:
                name = {"Lt": "Gt", "Gt": "Lt", "LtE": "GtE", "GtE": "LtE"}.get(name, name)
            return "%s %s 0" % (self.fmt(f), name)
        a, b = self.expr(l), self.expr(r)
        if isinstance(op, (ast.Eq, ast.NotEq)):
            a, b = sorted((a, b))
        return "%s %s %s" % (a, type(op).__name__, b)

    # ---------------- statements -> facts
    def facts(self, func):
        out = []
        self.inl = {}
        if self.r.inline:
            for n in ast.walk(func):
                if isinstance(n, ast.Assign) and len(n.targets) == 1 and isinstance(n.targets[0], ast.Name) \
                        and n.targets[0].id in self.r.inline:
                    self.inl[n.targets[0].id] = n.value
        self.inl.update(getattr(self, "auto_inl", {}))
        self._block(func.body, (), out)
        return out

    def _single_use_locals(self, func):
        """Locals stored once (plain `name = expr`) and loaded once, in the same statement list right after: temporaries.
        Substituting them makes the facts independent of whether a sub-expression was given a name."""
        stores, loads = {}, {}
        for n in ast.walk(func):
            if isinstance(n, ast.Name):
                (stores if isinstance(n.ctx, ast.Store) else loads).setdefault(n.id, []).append(n)
        out = {}
        for name, st in stores.items():
            if len(st) != 1 or len(loads.get(name, [])) != 1 or name in self.params or name in self.r.index_vars:
                continue
            a = st[0]._parent if hasattr(st[0], "_parent") else None
            if not (isinstance(a, ast.Assign) and len(a.targets) == 1 and a.targets[0] is st[0]):
                continue
            if isinstance(a.value, (ast.Tuple, ast.List)) or any(isinstance(x, (ast.Call,)) and not isinstance(a.value, ast.Tuple) for x in [a.value]):
                pass
            # the single load must follow in the same block (no loop boundary between definition and use)
            blk = getattr(a._parent, "body", None) if hasattr(a, "_parent") else None
            if not isinstance(blk, list) or a not in blk:
                continue
            i = blk.index(a)
            use = loads[name][0]
            owner = use
            while owner is not None and owner not in blk:
                owner = getattr(owner, "_parent", None)
            if owner is None or blk.index(owner) <= i or isinstance(owner, (ast.For, ast.While)) and any(use is x for x in ast.walk(owner)) and \
                    not any(use is x for x in ast.walk(owner.iter if isinstance(owner, ast.For) else owner.test)):
                continue
            if name in self.r.explicit_names():
                continue
            out[name] = a.value
        return out

    def _subst_inline(self, e):
        if not getattr(self, "inl", None):
            return e

        class T(ast.NodeTransformer):
            def visit_Name(s2, node):
                if isinstance(node.ctx, ast.Load) and node.id in self.inl:
                    return clone(self.inl[node.id])
                return node
        return T().visit(clone(e))

    def _dropped(self, st):
        if isinstance(st, ast.Expr) and isinstance(st.value, ast.Call):
            fn = dotted(st.value.func) or ""
            return fn.split(".")[0] in self.r.drop_calls
        if isinstance(st, ast.Expr) and isinstance(st.value, ast.Constant):
            return True   # docstring
        return isinstance(st, ast.Pass)

    def _block(self, stmts, ctx, out):
        for st in stmts:
            if self._dropped(st):
                continue
            if isinstance(st, ast.If):
                c = self.cond(st.test)
                self._block(st.body, ctx + (c,), out)
                if st.orelse:
                    self._block(st.orelse, ctx + ("not " + c,), out)
                else:
                    # a guard clause (`if c: ... return / continue / break / raise`): whatever follows in this block runs under `not c`
                    from . import flow as _flow
                    if _flow.always_exits(st.body):
                        ctx = ctx + ("not " + c,)
            elif isinstance(st, ast.While):
                c = self.cond(st.test)
                out.append((ctx, "while " + c))
                self._block(st.body, ctx + ("while " + c,), out)
            elif isinstance(st, ast.For):
                it = self.iter_canon(st.iter, ordered=self._order_sensitive(st))
                hdr = "for %s in %s" % (self.atom(st.target) if not isinstance(st.target, ast.Tuple) else self.atom(st.target), it)
                out.append((ctx, hdr))
                self._block(st.body, ctx + (hdr,), out)
            elif isinstance(st, ast.Assign):
                if len(st.targets) == 1 and isinstance(st.targets[0], ast.Name) and st.targets[0].id in getattr(self, "inl", {}):
                    continue
                for t in st.targets:
                    out.append((ctx, self._assign(t, self._subst_inline(st.value))))
            elif isinstance(st, ast.AugAssign) and isinstance(st.target, ast.Name) and st.target.id in self.r.index_vars:
                opn = type(st.op).__name__
                if self.mirror:
                    opn = {"Add": "Sub", "Sub": "Add"}.get(opn, opn)
                out.append((ctx, "%s %s= %s" % (self.name(st.target.id), opn, self.fmt(Reflector(self.r, False).lin(st.value)))))
            elif isinstance(st, ast.AugAssign):
                tt = self.ty(st.target)
                v = st.value
                txt = self.pos_coord(v) if tt == "C" else self.expr(v)
                out.append((ctx, "%s %s= %s" % (self.atom(st.target), type(st.op).__name__, txt)))
            elif isinstance(st, ast.Return):
                out.append((ctx, "return " + self._ret(st.value)))
            elif isinstance(st, ast.Expr):
                out.append((ctx, self.expr(self._subst_inline(st.value))))
            elif isinstance(st, (ast.Break, ast.Continue)):
                out.append((ctx, type(st).__name__.lower()))
            elif isinstance(st, ast.Assert):
                out.append((ctx, "assert " + self.cond(st.test)))
            elif isinstance(st, ast.Delete):
                out.append((ctx, "del " + ", ".join(self.atom(t) for t in st.targets)))
            else:
                raise Unsupported("statement %s" % type(st).__name__)

    def _assign(self, t, v):
        if isinstance(t, ast.Tuple) and isinstance(v, ast.Tuple) and len(t.elts) == len(v.elts):
            return "; ".join(sorted(self._assign(a, b) for a, b in zip(t.elts, v.elts)))
        if isinstance(t, ast.Tuple):
            return "(%s) := %s" % (", ".join(self.atom(x) for x in t.elts), self.expr(v))
        if self.ty(t) == "I" and isinstance(v, ast.Tuple) and len(v.elts) == 2 and all(self.ty(x) == "C" for x in v.elts):
            a, b = (v.elts[1], v.elts[0]) if self.mirror else (v.elts[0], v.elts[1])
            return "%s := [C:%s, C:%s]" % (self.atom(t), self.pos_coord(a), self.pos_coord(b))
        if isinstance(t, ast.Name) and t.id in self.r.index_vars:
            f = self.lin(v)
            if self.mirror:
                g = self.lin(self.r.index_vars[t.id])
                # lin(base) of a plain expression is not index-reflected; value v is (it is an index expression)
                f = {k: g.get(k, 0) - f.get(k, 0) for k in set(g) | set(f)}
                f = {k: x for k, x in f.items() if x != 0}
            return "%s := %s" % (self.name(t.id), self.fmt(f))
        tt = self.ty(t)
        if tt == "S" and isinstance(v, ast.BinOp) and isinstance(v.op, ast.Add) and isinstance(v.left, ast.List) and len(v.left.elts) == 1 \
                and src(v.right) == src(t):
            return "%s(%s, %s)" % ("seq_add_last" if self.mirror else "seq_add_first", self.atom(t), self.expr(v.left.elts[0]))
        if tt == "C" and not (isinstance(v, ast.Constant) and v.value is None):
            return "%s := C:%s" % (self.atom(t), self.pos_coord(v))
        return "%s := %s" % (self.atom(t), self.expr(v))

    def _ret(self, v):
        if v is None:
            return "None"
        role = self.r.returns
        if isinstance(v, ast.Tuple):
            roles = role if isinstance(role, (list, tuple)) else [None] * len(v.elts)
            return "(" + ", ".join(self._ret_one(x, roles[i] if i < len(roles) else None) for i, x in enumerate(v.elts)) + ")"
        return self._ret_one(v, role if not isinstance(role, (list, tuple)) else None)

    def _ret_one(self, v, role):
        if role == "C" or (role is None and self.ty(v) == "C"):
            return "C:" + self.pos_coord(v)
        return self.expr(v)


def compare(func_l, func_r, roles_l, roles_r=None):
    """Return (only_in_mirrored_left, only_in_right) fact lists (with multiplicity)."""
    fl = Reflector(roles_l, True, func_l).facts(func_l)
    fr = Reflector(roles_r or roles_l, False, func_r).facts(func_r)

    def key(f):
        return (tuple(sorted(f[0])), f[1])
    from collections import Counter
    cl, cr = Counter(key(f) for f in fl), Counter(key(f) for f in fr)
    only_l = list((cl - cr).elements())
    only_r = list((cr - cl).elements())
    return only_l, only_r, len(fl), len(fr)


def block_facts(stmts, func, roles, mirror):
    r = Reflector(roles, mirror, func, scope=stmts)
    r.inl = dict(getattr(r, "auto_inl", {}))
    out = []
    r._block(stmts, (), out)
    return out


def compare_blocks(stmts_l, stmts_r, func, roles):
    from collections import Counter
    fl = block_facts(stmts_l, func, roles, True)
    fr = block_facts(stmts_r, func, roles, False)
    key = lambda f: (tuple(sorted(f[0])), f[1])
    cl, cr = Counter(key(f) for f in fl), Counter(key(f) for f in fr)
    return list((cl - cr).elements()), list((cr - cl).elements()), len(fl), len(fr)
