"""Normalisation of project-wide renames (functions, methods, attributes, classes, parameters, keywords) against the reference snapshot.

The rules find their anchors by the names the pinned tree uses.  A consistent project-wide rename (`get_clean_strand` ->
`get_unanimous_strand`, attribute `read_groups` -> `seen_groups`) is a behaviour-preserving edit that must not cost a rule its
anchor, let alone make it alarm.  Before the rules run:

 1. identifiers of the current tree that do not occur ANYWHERE in the reference tree are collected (`fresh`); if there are none,
    nothing happens (the usual case costs one set difference);
 2. every current function is aligned with its reference counterpart (same qualified name; functions without one are paired with
    the most similar unmatched reference function of the same module) and walked in parallel, as engine/alpha.py does for locals;
    wherever a fresh identifier stands at the position of a reference identifier, that is a vote `fresh -> reference`;
 3. a fresh identifier whose votes agree (>= 80 %, injective) is rewritten to the reference identifier in every module - in names,
    attribute accesses, definitions, parameters, keyword arguments and imports.

Because a fresh identifier denotes nothing in the reference tree, rewriting all its occurrences restores the reference spelling of
one entity and cannot merge it with an unrelated one that the reference tree kept apart.  Whatever is not a pure rename (different
structure, an identifier used for two different reference names) is left as written and analysed as such.
"""
import ast
import difflib

from . import alpha


def identifiers(tree):
    out = set()
    for n in ast.walk(tree):
        if isinstance(n, ast.Name):
            out.add(n.id)
        elif isinstance(n, ast.Attribute):
            out.add(n.attr)
        elif isinstance(n, (ast.FunctionDef, ast.AsyncFunctionDef, ast.ClassDef)):
            out.add(n.name)
        elif isinstance(n, ast.arg):
            out.add(n.arg)
        elif isinstance(n, ast.keyword) and n.arg:
            out.add(n.arg)
        elif isinstance(n, ast.alias):
            out.add((n.asname or n.name).split(".")[-1])
    return out


def _occurrences(n):
    if isinstance(n, ast.Name):
        yield "name", n.id
    elif isinstance(n, ast.Attribute):
        yield "attr", n.attr
    elif isinstance(n, (ast.FunctionDef, ast.AsyncFunctionDef, ast.ClassDef)):
        yield "def", n.name
    elif isinstance(n, ast.arg):
        yield "arg", n.arg
    elif isinstance(n, ast.keyword) and n.arg:
        yield "arg", n.arg


def _functions(tree):
    out = {}

    def visit(node, prefix):
        for st in getattr(node, "body", []):
            if isinstance(st, (ast.FunctionDef, ast.AsyncFunctionDef)):
                out[prefix + st.name] = st
            elif isinstance(st, ast.ClassDef):
                visit(st, prefix + st.name + ".")
    visit(tree, "")
    return out


def _shape(node, blank):
    """Name-free structural text of a statement (identifiers in `blank` and all plain names replaced), for alignment only."""
    parts = []
    for n in ast.walk(node):
        parts.append(type(n).__name__)
        if isinstance(n, ast.Attribute):
            parts.append("_" if n.attr in blank else n.attr)
        elif isinstance(n, ast.Constant):
            parts.append(repr(n.value)[:20])
    return " ".join(parts)


class _Voter:
    def __init__(self, fresh, vanishing):
        self.fresh = fresh
        self.vanishing = vanishing
        self.votes = {}

    def vote(self, a, b):
        if a in self.fresh and isinstance(b, str) and b not in self.fresh:
            self.votes.setdefault(a, {}).setdefault(b, 0)
            self.votes[a][b] += 1

    def pairs(self, a, b):
        if type(a) is not type(b):
            return
        if isinstance(a, ast.Name):
            self.vote(a.id, b.id)
            return
        if isinstance(a, ast.Attribute):
            self.vote(a.attr, b.attr)
        elif isinstance(a, (ast.FunctionDef, ast.AsyncFunctionDef, ast.ClassDef)):
            self.vote(a.name, b.name)
        elif isinstance(a, ast.arg):
            self.vote(a.arg, b.arg)
        elif isinstance(a, ast.keyword) and a.arg and b.arg:
            self.vote(a.arg, b.arg)
        for fld in a._fields:
            va, vb = getattr(a, fld, None), getattr(b, fld, None)
            if isinstance(va, list) and isinstance(vb, list):
                if (va and isinstance(va[0], ast.stmt)) or (vb and isinstance(vb[0], ast.stmt)):
                    self.align(va, vb)
                elif len(va) == len(vb):
                    for x, y in zip(va, vb):
                        if isinstance(x, ast.AST) and isinstance(y, ast.AST):
                            self.pairs(x, y)
                elif va and vb and isinstance(va[0], ast.keyword) and isinstance(vb[0], ast.keyword):
                    pass
            elif isinstance(va, ast.AST) and isinstance(vb, ast.AST):
                self.pairs(va, vb)

    def align(self, sa, sb):
        ka = [_shape(s, self.fresh) for s in sa]
        kb = [_shape(s, self.vanishing) for s in sb]
        sm = difflib.SequenceMatcher(a=ka, b=kb, autojunk=False)
        ma, mb = set(), set()
        for blk in sm.get_matching_blocks():
            for k in range(blk.size):
                self.pairs(sa[blk.a + k], sb[blk.b + k])
                ma.add(blk.a + k)
                mb.add(blk.b + k)
        ra = [i for i in range(len(sa)) if i not in ma]
        rb = [j for j in range(len(sb)) if j not in mb]
        j0 = 0
        for i in ra:
            for jj in range(j0, len(rb)):
                if type(sa[i]) is type(sb[rb[jj]]):
                    self.pairs(sa[i], sb[rb[jj]])
                    j0 = jj + 1
                    break


class _Rewrite(ast.NodeVisitor):
    def __init__(self, m):
        self.m = m
        self.n = 0

    def generic_visit(self, node):
        m = self.m
        if isinstance(node, ast.Name) and node.id in m:
            node.id = m[node.id]
            self.n += 1
        elif isinstance(node, ast.Attribute) and node.attr in m:
            node.attr = m[node.attr]
            self.n += 1
        elif isinstance(node, (ast.FunctionDef, ast.AsyncFunctionDef, ast.ClassDef)) and node.name in m:
            node.name = m[node.name]
            self.n += 1
        elif isinstance(node, ast.arg) and node.arg in m:
            node.arg = m[node.arg]
            self.n += 1
        elif isinstance(node, ast.keyword) and node.arg in m:
            node.arg = m[node.arg]
            self.n += 1
        elif isinstance(node, ast.alias):
            if node.name in m:
                node.name = m[node.name]
                self.n += 1
            if node.asname and node.asname in m:
                node.asname = m[node.asname]
        super().generic_visit(node)


def rename_map(trees):
    """trees: {rel: module AST}.  Returns {fresh identifier: reference identifier} (possibly empty)."""
    ref = alpha.reference()
    ref_ids = set(ref.get("__identifiers__") or ())
    if not ref_ids:
        return {}
    cur_ids = set()
    for t in trees.values():
        cur_ids |= identifiers(t)
    fresh = {x for x in cur_ids - ref_ids if not x.startswith("__")}
    # function-local variables are the business of engine/alpha.py (per function, capture-checked): an identifier that occurs only as
    # a plain name inside functions is not a project-wide name
    non_local = set()
    for t in trees.values():
        for n in ast.walk(t):
            if isinstance(n, ast.Attribute):
                non_local.add(n.attr)
            elif isinstance(n, (ast.FunctionDef, ast.AsyncFunctionDef, ast.ClassDef)):
                non_local.add(n.name)
            elif isinstance(n, ast.arg):
                non_local.add(n.arg)
            elif isinstance(n, ast.keyword) and n.arg:
                non_local.add(n.arg)
            elif isinstance(n, ast.alias):
                non_local.add((n.asname or n.name).split(".")[-1])
        for st in t.body:                                    # module-level assignments
            for n in ast.walk(st) if isinstance(st, (ast.Assign, ast.AugAssign, ast.AnnAssign)) else ():
                if isinstance(n, ast.Name) and isinstance(n.ctx, ast.Store):
                    non_local.add(n.id)
    fresh &= non_local
    if not fresh:
        return {}
    vanishing = ref_ids - cur_ids
    voter = _Voter(fresh, vanishing)
    for rel, tree in trees.items():
        rfuncs_src = ref.get(rel) or {}
        cfuncs = _functions(tree)
        rcache = {}

        def rfunc(q):
            if q not in rcache:
                try:
                    rcache[q] = ast.parse(rfuncs_src[q]).body[0]
                except (SyntaxError, KeyError):
                    rcache[q] = None
            return rcache[q]
        unmatched_c = []
        for q, cf in cfuncs.items():
            if q in rfuncs_src:
                if identifiers(cf) & fresh:
                    rf = rfunc(q)
                    if rf is not None:
                        voter.pairs(cf, rf)
            else:
                unmatched_c.append(q)
        unmatched_r = [q for q in rfuncs_src if q not in cfuncs]
        # functions that have no counterpart under their own name: pair by similarity of their name-free shape
        used = set()
        for q in unmatched_c:
            cf = cfuncs[q]
            cshape = _shape(cf, fresh)
            best, best_r = 0.0, None
            for rq in unmatched_r:
                if rq in used:
                    continue            # (a method may have become a module-level function or the other way round)
                rf = rfunc(rq)
                if rf is None:
                    continue
                r = difflib.SequenceMatcher(a=cshape.split(), b=_shape(rf, vanishing).split(), autojunk=False).ratio()
                if q.rsplit(".", 1)[0] == rq.rsplit(".", 1)[0]:
                    r += 0.05
                if r > best:
                    best, best_r = r, rq
            if best_r is not None and best >= 0.75:
                used.add(best_r)
                voter.pairs(cf, rfunc(best_r))
    cur_defs = set()
    for t in trees.values():
        for n in ast.walk(t):
            if isinstance(n, (ast.FunctionDef, ast.AsyncFunctionDef, ast.ClassDef)):
                cur_defs.add(n.name)
    out = {}
    for a, d in voter.votes.items():
        best = max(d.items(), key=lambda kv: kv[1])
        total = sum(d.values())
        if best[1] * 5 < total * 4:
            continue
        if a in cur_defs and best[0] in cur_defs:
            continue        # a new function next to a surviving one of the old name is a restructuring (template method, split), not a rename
        out[a] = best[0]
    # no merging: where the fresh identifier occurs (module, kind of occurrence), the reference identifier must not still be in use in
    # the same role - otherwise rewriting would identify two entities that the current tree keeps apart
    occ = {}
    for rel, t in trees.items():
        scope = {}
        for c in ast.walk(t):
            if isinstance(c, ast.ClassDef):
                for n in ast.walk(c):
                    scope.setdefault(id(n), c.name)
        for n in ast.walk(t):
            for kind, ident in _occurrences(n):
                if kind == "attr":
                    # an attribute is told apart by the class it is used in and by what it is taken from (self.x / other.x)
                    root = n.value
                    while isinstance(root, (ast.Attribute, ast.Subscript, ast.Call)):
                        root = root.value if not isinstance(root, ast.Call) else root.func
                    kind = ("attr", scope.get(id(n)), root.id if isinstance(root, ast.Name) else "?")
                    if isinstance(root, ast.Name) and root.id[:1].isupper():
                        # an attribute reached through the class itself (Class.attr) is one entity wherever it is written: if the old name
                        # is still used that way anywhere, the rename is incomplete - and an incomplete rename changes behaviour
                        occ.setdefault(ident, set()).add(("*", ("attr-of-class", root.id)))
                occ.setdefault(ident, set()).add((rel, kind))
    for a, b in list(out.items()):
        if occ.get(a, set()) & occ.get(b, set()):
            del out[a]
    inv = {}
    for a, b in out.items():
        inv.setdefault(b, []).append(a)
    for b, aas in inv.items():
        if len(aas) > 1:
            for a in aas:
                out.pop(a, None)
    return out


def normalise(trees):
    """Rewrite project-wide renames back to the reference spelling, in place.  Returns the mapping that was applied."""
    m = rename_map(trees)
    if m:
        for t in trees.values():
            _Rewrite(m).visit(t)
    return m
