"""Swapped-argument detection: a call passes variables that carry the names of two of the callee's parameters, crossed."""
import ast

from .program import call_name, walk_no_nested


def _tail(e):
    if isinstance(e, ast.Name):
        return e.id
    if isinstance(e, ast.Attribute):
        return e.attr
    return None


def callee_candidates(prog, call):
    cn = call_name(call)
    if not cn:
        return []
    last = cn.split(".")[-1]
    out = []
    for m, q, f in prog.all_functions():
        if q.split(".")[-1] == last:
            out.append((m, q, f))
    # a call through an object (not an imported module, not a class) can only reach methods; a bare name only functions/classes
    mod = getattr(call, "_module", None)
    if isinstance(call.func, ast.Attribute):
        root = call.func.value
        while isinstance(root, ast.Attribute):
            root = root.value
        is_mod = isinstance(root, ast.Name) and mod is not None and root.id in mod.imports and mod.imports[root.id][1] is None
        is_cls = isinstance(call.func.value, ast.Name) and bool(prog.find_class(call.func.value.id))
        if is_cls:
            out = [x for x in out if x[1].split(".")[0] == call.func.value.id] or out
        elif not is_mod and any("." in x[1] for x in out):
            out = [x for x in out if "." in x[1]]
        elif is_mod:
            out = [x for x in out if "." not in x[1]] or out
    elif isinstance(call.func, ast.Name):
        out = [x for x in out if "." not in x[1]]
    if not out:
        for m, q, c in prog.all_classes():
            if c.name == last:
                init = prog.methods_of(c).get("__init__")
                if init is not None:
                    out.append((m, q + ".__init__", init))
    return out


def swapped_calls(prog, only_callee=None):
    """Yield (module, qualname, call, callee_qualname, i, j): positional args i and j are named like params j and i of every
    candidate callee with that name."""
    for m, q, f in prog.all_functions():
        for c in walk_no_nested(f):
            if not isinstance(c, ast.Call) or len(c.args) < 2 or any(isinstance(a, ast.Starred) for a in c.args):
                continue
            cands = callee_candidates(prog, c)
            if not cands or (only_callee and not only_callee(cands)):
                continue
            hits = None
            for _m, cq, cf in cands:
                params = [a.arg for a in cf.args.args]
                if params and params[0] in ("self", "cls") and (isinstance(c.func, ast.Attribute) or cq.endswith(".__init__")):
                    # bound call; a call through the class (Base.method(self, ...)) passes self explicitly
                    if not (isinstance(c.func, ast.Attribute) and c.args and _tail(c.args[0]) in ("self", "cls")):
                        params = params[1:]
                names = [_tail(a) for a in c.args]
                found = set()
                for i in range(min(len(names), len(params))):
                    for j in range(i + 1, min(len(names), len(params))):
                        if names[i] and names[j] and names[i] != names[j] and names[i] == params[j] and names[j] == params[i]:
                            found.add((i, j))
                hits = found if hits is None else hits & found
            for i, j in sorted(hits or ()):
                yield m, q, c, cands[0][1], i, j


def bind_args(call, funcdef, bound_method=None):
    """param name -> argument expression for a call of `funcdef` (positional and keyword; defaults not filled in).
    bound_method: True to skip `self`/`cls` (default: skip it unless the call passes it explicitly)."""
    params = [a.arg for a in funcdef.args.args]
    if params and params[0] in ("self", "cls"):
        explicit = bool(call.args) and _tail(call.args[0]) in ("self", "cls")
        if bound_method if bound_method is not None else not explicit:
            params = params[1:]
    out = {}
    for pn, a in zip(params, call.args):
        if isinstance(a, ast.Starred):
            break
        out[pn] = a
    for k in call.keywords:
        if k.arg:
            out[k.arg] = k.value
    return out
