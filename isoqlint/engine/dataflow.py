"""Intra-procedural def-use helpers: local definitions, reaching definitions with kill, dependence cones."""
import ast

from .program import dotted, src, walk_no_nested, enclosing_stmt
from . import flow


def _names_loaded(node):
    """Dotted roots read by an expression: 'x', 'self.attr', 'obj.attr' (first two components)."""
    out = set()

    def rec(n):
        if isinstance(n, ast.Lambda):
            return
        if isinstance(n, (ast.Attribute, ast.Name)):
            d = dotted(n)
            if d is not None:
                parts = d.split(".")
                out.add(".".join(parts[:2]))
                return
        if isinstance(n, ast.Call):
            # callee names are code, not data - except method receivers
            if isinstance(n.func, ast.Attribute):
                rec(n.func.value)
            for a in n.args:
                rec(a)
            for k in n.keywords:
                rec(k.value)
            return
        for c in ast.iter_child_nodes(n):
            rec(c)
    rec(node)
    return out


def local_defs(func):
    """name -> list of value expressions assigned to that simple name anywhere in func (incl. loop targets)."""
    defs = {}
    for n in walk_no_nested(func):
        if isinstance(n, ast.Assign):
            for t in n.targets:
                if isinstance(t, ast.Name):
                    defs.setdefault(t.id, []).append(("assign", n.value, n))
                elif isinstance(t, (ast.Tuple, ast.List)):
                    for e in t.elts:
                        if isinstance(e, ast.Name):
                            defs.setdefault(e.id, []).append(("assign", n.value, n))
        elif isinstance(n, ast.AugAssign) and isinstance(n.target, ast.Name):
            defs.setdefault(n.target.id, []).append(("assign", n.value, n))
        elif isinstance(n, ast.For):
            for e in ast.walk(n.target):
                if isinstance(e, ast.Name):
                    defs.setdefault(e.id, []).append(("loop", n.iter, n))
        elif isinstance(n, ast.comprehension):
            for e in ast.walk(n.target):
                if isinstance(e, ast.Name):
                    defs.setdefault(e.id, []).append(("loop", n.iter, n))
    return defs


def _assigned_names(st):
    """Names directly assigned by this statement itself (not nested blocks)."""
    out = set()
    if isinstance(st, ast.Assign):
        for t in st.targets:
            for e in ([t] if isinstance(t, ast.Name) else (t.elts if isinstance(t, (ast.Tuple, ast.List)) else [])):
                if isinstance(e, ast.Name):
                    out.add(e.id)
    elif isinstance(st, ast.AugAssign) and isinstance(st.target, ast.Name):
        out.add(st.target.id)
    return out


def reaching_defs(func, name, at_stmt, defs):
    """Definitions of a simple local name that may reach `at_stmt` (dominating-def kill, loops via back edge)."""
    all_defs = defs.get(name, [])
    collected = []
    cur = at_stmt
    while cur is not None and cur is not func:
        parent = getattr(cur, "_parent", None)
        if parent is None:
            break
        blk = None
        for fld in ("body", "orelse", "finalbody"):
            b = getattr(parent, fld, None)
            if isinstance(b, list) and any(x is cur for x in b):
                blk = b
        if blk is None and isinstance(parent, ast.ExceptHandler):
            blk = parent.body
        if blk is not None:
            idx = [i for i, x in enumerate(blk) if x is cur][0]
            for prev in reversed(blk[:idx]):
                if name in _assigned_names(prev):
                    return [d for d in all_defs if d[2] is prev] + collected
                for d in all_defs:
                    if d[2] is not prev and any(x is d[2] for x in ast.walk(prev)):
                        collected.append(d)
            if isinstance(parent, (ast.For, ast.While)) and blk is parent.body:
                # back edge: anything assigned in the loop body may reach; the loop target itself too
                for d in all_defs:
                    if d not in collected and (d[2] is parent or any(x is d[2] for x in ast.walk(parent))):
                        collected.append(d)
                if isinstance(parent, ast.For) and any(isinstance(x, ast.Name) and x.id == name for x in ast.walk(parent.target)):
                    return collected          # inside the body the loop variable was (re)bound by this loop: nothing earlier reaches
        cur = parent
    for d in all_defs:
        if d[0] == "loop" and d not in collected and any(x is at_stmt for x in ast.walk(d[2])):
            collected.append(d)
    return collected if collected else all_defs


def dependency_roots(func, exprs, stop_names=(), visited=None, at=None, through_loops=False):
    """Transitive closure of names an expression list depends on, through the local definitions that
    reach the use (data) and the guards dominating those definitions (control)."""
    defs = local_defs(func)
    params = {a.arg for a in func.args.args + func.args.kwonlyargs}
    seen = set()
    roots = set()
    todo = []
    for e in exprs:
        ctxs = at if at is not None else enclosing_stmt(e)
        todo.extend((n, ctxs) for n in _names_loaded(e))
    while todo:
        n, where = todo.pop()
        if (n, id(where)) in seen:
            continue
        seen.add((n, id(where)))
        if visited is not None:
            visited.add(n)
        if "." not in n and n in defs and n not in params:
            rd = reaching_defs(func, n, where, defs) if where is not None else defs[n]
            for kind, val, stmt in rd:
                if kind == "assign":
                    if visited is not None:
                        visited.add("=" + src(val))
                    todo.extend((x, stmt) for x in _names_loaded(val))
                    for g in flow.guards_of(stmt, stop=func):
                        todo.extend((x, stmt) for x in _names_loaded(g.test))
            if any(kind == "loop" for kind, _v, _s in rd):
                roots.add(n)     # a loop variable is a root of its own (element of the iterable)
                if through_loops:
                    for kind, val, stmt in rd:
                        if kind == "loop":
                            todo.extend((x, stmt) for x in _names_loaded(val))
            continue
        roots.add(n)
    return roots




def single_def_env(func, exclude=()):
    """name -> defining expression for locals assigned exactly once at statement level (substituted transitively)."""
    counts, defs = {}, {}
    for st in walk_no_nested(func):
        if isinstance(st, ast.Assign) and len(st.targets) == 1 and isinstance(st.targets[0], ast.Name):
            counts[st.targets[0].id] = counts.get(st.targets[0].id, 0) + 1
            defs[st.targets[0].id] = st.value
        elif isinstance(st, (ast.AugAssign,)) and isinstance(st.target, ast.Name):
            counts[st.target.id] = counts.get(st.target.id, 0) + 2
        elif isinstance(st, (ast.For,)):
            for n_ in ast.walk(st.target):
                if isinstance(n_, ast.Name):
                    counts[n_.id] = counts.get(n_.id, 0) + 2
    env = {}
    for k, v in defs.items():
        if counts[k] == 1 and k not in exclude:
            env[k] = v
    # transitive closure (bounded)
    for _ in range(4):
        env = {k: _subst(v, {a: b for a, b in env.items() if a != k}) for k, v in env.items()}
    return env


from .symexec import subst as _subst  # noqa: E402
