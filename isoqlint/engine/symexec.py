"""Tiny path-wise symbolic substitution of single-assignment locals."""
import ast

from .program import src


def clone(node):
    """Deep copy of an AST subtree that ignores the engine's _parent/_module back links."""
    if isinstance(node, list):
        return [clone(x) for x in node]
    if not isinstance(node, ast.AST):
        return node
    new = type(node)()
    for f in node._fields:
        if hasattr(node, f):
            setattr(new, f, clone(getattr(node, f)))
    for a in ("lineno", "col_offset", "end_lineno", "end_col_offset", "_flag"):
        if hasattr(node, a):
            setattr(new, a, getattr(node, a))
    return new


class _Subst(ast.NodeTransformer):
    def __init__(self, env):
        self.env = env

    def visit_Name(self, node):
        if isinstance(node.ctx, ast.Load) and node.id in self.env:
            return clone(self.env[node.id])
        return node

    def visit_Lambda(self, node):
        return node


def subst(expr, env):
    """Return a new AST for expr with local names replaced by their defining expressions."""
    if expr is None:
        return None
    return ast.fix_missing_locations(_Subst(env).visit(clone(expr)))


def text(expr, env=None):
    return src(subst(expr, env)) if env else src(expr)


def run_path(path, on_store=None):
    """Walk a flow.Path; maintain env name -> AST (already substituted).

    on_store(target, value_ast_substituted, stmt, env) is called for every non-Name store.
    Returns the final env.
    """
    env = {}
    for ev in path.events:
        if ev[0] != "stmt":
            continue
        st = ev[1]
        if isinstance(st, ast.Assign):
            val = subst(st.value, env)
            for t in st.targets:
                if isinstance(t, ast.Name):
                    env[t.id] = val
                elif isinstance(t, (ast.Tuple, ast.List)):
                    for i, e in enumerate(t.elts):
                        if isinstance(e, ast.Name):
                            if isinstance(val, (ast.Tuple, ast.List)) and len(val.elts) == len(t.elts):
                                env[e.id] = val.elts[i]
                            else:
                                env[e.id] = ast.Subscript(value=val, slice=ast.Constant(i), ctx=ast.Load())
                elif on_store is not None:
                    on_store(subst(t, env), val, st, env)
        elif isinstance(st, ast.AugAssign):
            if isinstance(st.target, ast.Name):
                old = env.get(st.target.id, ast.Name(id=st.target.id, ctx=ast.Load()))
                env[st.target.id] = ast.BinOp(left=old, op=st.op, right=subst(st.value, env))
            elif on_store is not None:
                on_store(subst(st.target, env), ast.BinOp(left=subst(st.target, env), op=st.op,
                                                          right=subst(st.value, env)), st, env)
        elif isinstance(st, (ast.For,)):
            # loop targets become opaque
            for n in ast.walk(st.target):
                if isinstance(n, ast.Name):
                    env.pop(n.id, None)
    return env


def cond_substituter(path):
    """Function (test, event index) -> test with single-assignment locals (aliases) replaced by what they stand for at that point."""
    envs = {}
    env = {}
    for i, ev in enumerate(path.events):
        if ev[0] == "cond":
            envs[i] = dict(env)
        elif ev[0] == "stmt":
            st = ev[1]
            if isinstance(st, ast.Assign) and len(st.targets) == 1 and isinstance(st.targets[0], ast.Name):
                env[st.targets[0].id] = subst(st.value, env)
            elif isinstance(st, ast.Assign) and len(st.targets) == 1 and isinstance(st.targets[0], (ast.Tuple, ast.List)):
                val = subst(st.value, env)
                tg = st.targets[0]
                for k, e in enumerate(tg.elts):
                    if isinstance(e, ast.Name):
                        if isinstance(val, (ast.Tuple, ast.List)) and len(val.elts) == len(tg.elts):
                            env[e.id] = val.elts[k]
                        else:
                            env.pop(e.id, None)
            elif isinstance(st, (ast.AugAssign,)) and isinstance(st.target, ast.Name):
                if st.target.id in env:
                    env[st.target.id] = ast.BinOp(left=env[st.target.id], op=st.op, right=subst(st.value, env))
                else:
                    env.pop(st.target.id, None)
            elif isinstance(st, ast.For):
                for n in ast.walk(st.target):
                    if isinstance(n, ast.Name):
                        env.pop(n.id, None)

    def f(test, i):
        return subst(test, envs.get(i, {}))
    return f
