"""Inlining of calls to sibling methods / module functions, so that a rule sees the same statements whether or not a block was
extracted into a helper (extract-method is the commonest behaviour-preserving edit).

inlined(prog, func) returns a clone of `func` in which
    self.helper(a, b)                 (statement)         -> body of helper with parameters replaced
    x = self.helper(a, b)             (single final return) -> body ...; x = <returned expression>
    return self.helper(a, b)                                -> body ...; return <returned expression>
for helpers of the same class (or functions of the same module) whose body has no yield and at most one `return <expr>` as its
last statement.  Helper locals get a suffix so that they cannot capture names of the caller.  Nodes keep the line numbers of where
they were written; _parent/_module links are set on the clone.  The original AST is never modified.
"""
import ast

from .program import dotted
from .symexec import clone

_counter = [0]


def _inlinable(h):
    body = [s for s in h.body if not (isinstance(s, ast.Expr) and isinstance(s.value, ast.Constant))]
    if not body:
        return None
    for n in ast.walk(h):
        if isinstance(n, (ast.Yield, ast.YieldFrom, ast.Global, ast.Nonlocal)):
            return None
        if isinstance(n, (ast.FunctionDef, ast.Lambda)) and n is not h:
            pass
    rets = [n for n in ast.walk(h) if isinstance(n, ast.Return)]
    if not rets:
        return body, None
    if len(rets) == 1 and rets[0] is body[-1]:
        return body[:-1], rets[0].value
    # guard clauses of a procedure: `if c: ...; return` followed by the rest  ==  `if c: ... else: rest`
    if all(r.value is None for r in rets):
        d = _desugar_guards(body)
        if d is not None:
            return d, None
    # value-returning helper whose returns are all in tail position (after turning guard clauses into if/else):
    # every `return e` becomes an assignment to a result variable
    if all(r.value is not None for r in rets):
        t = _tailify([clone(x) for x in body])
        if t is not None:
            _counter[0] += 1
            rv = "__ret%d" % _counter[0]
            if _returns_to_assign(t, rv):
                return t, ast.Name(id=rv, ctx=ast.Load())
    return None


def _tailify(stmts):
    """Rewrite `if c: ...return` followed by more statements as if/else so that every return ends its block; None if impossible."""
    for i, st in enumerate(stmts):
        if isinstance(st, ast.Return):
            return stmts[:i + 1] if i == len(stmts) - 1 else None
        if isinstance(st, ast.If):
            body_ret = _ends_with_return(st.body)
            else_ret = _ends_with_return(st.orelse) if st.orelse else False
            has_ret = any(isinstance(n, ast.Return) for n in ast.walk(st))
            if not has_ret:
                continue
            if i == len(stmts) - 1:
                b = _tailify(st.body)
                o = _tailify(st.orelse) if st.orelse else []
                if b is None or o is None:
                    return None
                st.body, st.orelse = b, o
                return stmts
            if body_ret and not st.orelse:
                rest = _tailify(stmts[i + 1:])
                b = _tailify(st.body)
                if rest is None or b is None:
                    return None
                st.body, st.orelse = b, rest
                return stmts[:i + 1]
            if body_ret and else_ret:
                return None if i != len(stmts) - 1 else stmts
            return None
        if any(isinstance(n, ast.Return) for n in ast.walk(st)):
            return None           # return inside a loop / try / with: not expressible as a tail assignment
    return stmts


def _ends_with_return(stmts):
    if not stmts:
        return False
    last = stmts[-1]
    if isinstance(last, ast.Return):
        return True
    if isinstance(last, ast.If) and last.orelse:
        return _ends_with_return(last.body) and _ends_with_return(last.orelse)
    return False


def _returns_to_assign(stmts, rv):
    """In a tailified body replace the returns by `rv = value`; False if some path ends without returning."""
    if not stmts:
        return False
    last = stmts[-1]
    if isinstance(last, ast.Return):
        stmts[-1] = ast.copy_location(ast.Assign(targets=[ast.Name(id=rv, ctx=ast.Store())], value=last.value), last)
        return not any(isinstance(n, ast.Return) for x in stmts[:-1] for n in ast.walk(x))
    if isinstance(last, ast.If) and last.orelse:
        return _returns_to_assign(last.body, rv) and _returns_to_assign(last.orelse, rv) and \
            not any(isinstance(n, ast.Return) for x in stmts[:-1] for n in ast.walk(x))
    return False


def _desugar_guards(body):
    out = []
    for i, st in enumerate(body):
        if isinstance(st, ast.Return):
            return out if i == len(body) - 1 else None
        if isinstance(st, ast.If) and not st.orelse and st.body and isinstance(st.body[-1], ast.Return) and st.body[-1].value is None \
                and not any(isinstance(n, ast.Return) for x in st.body[:-1] for n in ast.walk(x)):
            rest = _desugar_guards(body[i + 1:])
            if rest is None:
                return None
            new = clone(st)
            new.body = new.body[:-1] or [ast.copy_location(ast.Pass(), st)]
            new.orelse = [clone(x) for x in rest] if rest else []
            out.append(new)
            return out
        if any(isinstance(n, ast.Return) for n in ast.walk(st)):
            return None
        out.append(st)
    return out


class _Rename(ast.NodeTransformer):
    def __init__(self, mapping, locals_map):
        self.mapping = mapping          # param name -> AST
        self.locals_map = locals_map    # local name -> new name

    def visit_Name(self, n):
        if n.id in self.mapping and isinstance(n.ctx, ast.Load):
            return clone(self.mapping[n.id])
        if n.id in self.locals_map:
            return ast.copy_location(ast.Name(id=self.locals_map[n.id], ctx=n.ctx), n)
        return n


def _expand(prog, call, owner_cls, module, depth, targets=None):
    """(stmts, result expr) for an inlinable call, else None."""
    if depth <= 0 or not isinstance(call, ast.Call) or any(isinstance(a, ast.Starred) for a in call.args):
        return None
    if (dotted(call.func) or "").split(".")[-1] in _EXCLUDE:
        return None             # the caller wants to see this call as a call
    h = None
    skip = 0
    d = dotted(call.func) or ""
    other_self = None
    if owner_cls is not None and isinstance(call.func, ast.Attribute) and dotted(call.func.value) in ("self", owner_cls.name):
        h = prog.methods_of(owner_cls).get(call.func.attr)
        if h is not None:
            deco = [dotted(x) for x in h.decorator_list]
            skip = 0 if "staticmethod" in deco else 1
            if dotted(call.func.value) == owner_cls.name and skip == 1:
                return None
    elif owner_cls is not None and isinstance(call.func, ast.Attribute) and isinstance(call.func.value, ast.Name) \
            and call.func.value.id in _INSTANCES.get(id(owner_cls), set()):
        # a method called on another instance of the same class (e.g. the object a classmethod is building)
        h = prog.methods_of(owner_cls).get(call.func.attr)
        if h is not None and "staticmethod" not in [dotted(x) for x in h.decorator_list] and h.args.args:
            skip = 1
            other_self = (h.args.args[0].arg, call.func.value)
        else:
            h = None
    elif isinstance(call.func, ast.Name) and module is not None:
        h = module.functions.get(call.func.id)
    if h is None:
        return None
    parts = _inlinable(h)
    if parts is None:
        return None
    body, result = parts
    params = [a.arg for a in h.args.args][skip:]
    defaults = h.args.defaults
    mapping = {}
    for pn, a in zip(params, call.args):
        mapping[pn] = a
    for k in call.keywords:
        if k.arg is None:
            return None
        mapping[k.arg] = k.value
    for pn, dv in zip(params[len(params) - len(defaults):], defaults):
        mapping.setdefault(pn, dv)
    if any(pn not in mapping for pn in params):
        return None
    # parameters that the helper re-assigns become locals initialised with the argument
    _counter[0] += 1
    suffix = "__i%d" % _counter[0]
    stored = {n.id for s in h.body for n in ast.walk(s) if isinstance(n, ast.Name) and isinstance(n.ctx, ast.Store)}
    pre = []
    locals_map = {nm: nm + suffix for nm in stored}
    # `a, b = helper()` with `return x, y` (x, y locals of the helper): let x, y live under the caller's names
    direct = False
    if targets is not None and result is not None:
        rn = [result] if isinstance(result, ast.Name) else (result.elts if isinstance(result, ast.Tuple) else [])
        tn = [targets] if isinstance(targets, ast.Name) else (targets.elts if isinstance(targets, ast.Tuple) else [])
        if rn and len(rn) == len(tn) and all(isinstance(x, ast.Name) and x.id in stored and x.id not in params for x in rn) \
                and all(isinstance(x, ast.Name) for x in tn) and len({x.id for x in rn}) == len(rn):
            for x, t in zip(rn, tn):
                locals_map[x.id] = t.id
            direct = True
    for pn in list(mapping):
        uses = sum(1 for x_ in h.body for x in ast.walk(x_) if isinstance(x, ast.Name) and x.id == pn and isinstance(x.ctx, ast.Load))
        effectful = any(isinstance(x, (ast.Call, ast.Yield, ast.Await)) for x in ast.walk(mapping[pn]))
        if pn in stored or (effectful and uses != 1):
            # evaluated once, as at the real call: bind the argument to a local of the inlined body
            locals_map[pn] = pn + suffix
            pre.append(ast.Assign(targets=[ast.Name(id=pn + suffix, ctx=ast.Store())], value=clone(mapping[pn]),
                                  lineno=call.lineno, col_offset=call.col_offset))
            del mapping[pn]
    if other_self is not None:
        mapping[other_self[0]] = other_self[1]
    tr = _Rename(mapping, locals_map)
    stmts = pre + [tr.visit(clone(s)) for s in body]
    res = tr.visit(clone(result)) if result is not None else None
    for s in stmts:
        ast.fix_missing_locations(s)
    if direct:
        return stmts, "direct"
    return stmts, res


class _ExprInliner(ast.NodeTransformer):
    """Replace calls of helpers whose whole body is `return <expression>` by that expression (arguments substituted)."""

    def __init__(self, prog, owner_cls, module, depth):
        self.prog, self.owner_cls, self.module, self.depth = prog, owner_cls, module, depth

    def visit_Lambda(self, n):
        return n

    def visit_Call(self, n):
        n = self.generic_visit(n)
        if self.depth <= 0:
            return n
        h, skip = None, 0
        if self.owner_cls is not None and isinstance(n.func, ast.Attribute) and dotted(n.func.value) in ("self", self.owner_cls.name):
            h = self.prog.methods_of(self.owner_cls).get(n.func.attr)
            if h is not None:
                skip = 0 if "staticmethod" in [dotted(x) for x in h.decorator_list] else 1
                if dotted(n.func.value) == self.owner_cls.name and skip == 1:
                    return n
        # module-level functions are not expanded inside expressions: rules name them (validate_exons, overlaps, ...)
        if h is None or any(isinstance(a, ast.Starred) for a in n.args):
            return n
        body = [s for s in h.body if not (isinstance(s, ast.Expr) and isinstance(s.value, ast.Constant))]
        if len(body) != 1 or not isinstance(body[0], ast.Return) or body[0].value is None:
            return n
        if any(isinstance(x, (ast.Yield, ast.YieldFrom, ast.Lambda)) for x in ast.walk(body[0].value)):
            return n
        params = [a.arg for a in h.args.args][skip:]
        mapping = dict(zip(params, n.args))
        for k in n.keywords:
            if k.arg is None:
                return n
            mapping[k.arg] = k.value
        for pn, dv in zip(params[len(params) - len(h.args.defaults):], h.args.defaults):
            mapping.setdefault(pn, dv)
        if any(pn not in mapping for pn in params):
            return n
        # an argument used more than once must be side-effect free to be duplicated
        for pn, a in mapping.items():
            uses = sum(1 for x in ast.walk(body[0].value) if isinstance(x, ast.Name) and x.id == pn)
            if uses > 1 and any(isinstance(x, ast.Call) for x in ast.walk(a)):
                return n
        new = _Rename(mapping, {}).visit(clone(body[0].value))
        return ast.copy_location(new, n)


def _inline_exprs(prog, st, owner_cls, module, depth):
    tr = _ExprInliner(prog, owner_cls, module, depth)
    if isinstance(st, (ast.If, ast.While)):
        st.test = tr.visit(st.test)
    elif isinstance(st, ast.For):
        st.iter = tr.visit(st.iter)
    elif isinstance(st, (ast.Assign, ast.AugAssign, ast.Return, ast.Expr, ast.Assert)):
        # statement-level expansion of the top call is tried first by the caller; nested calls are handled here
        for fld in ("value", "test"):
            v = getattr(st, fld, None)
            if isinstance(v, ast.AST):
                if isinstance(v, ast.Call):
                    v.args = [tr.visit(a) for a in v.args]
                    for k in v.keywords:
                        k.value = tr.visit(k.value)
                else:
                    setattr(st, fld, tr.visit(v))


def _rewrite_block(prog, stmts, owner_cls, module, depth):
    out = []
    for st in stmts:
        _inline_exprs(prog, st, owner_cls, module, depth)
        for fld in ("body", "orelse", "finalbody"):
            blk = getattr(st, fld, None)
            if isinstance(blk, list) and blk and isinstance(blk[0], ast.stmt):
                setattr(st, fld, _rewrite_block(prog, blk, owner_cls, module, depth))
        if isinstance(st, ast.Try):
            for hnd in st.handlers:
                hnd.body = _rewrite_block(prog, hnd.body, owner_cls, module, depth)
        exp = None
        if isinstance(st, ast.Expr):
            exp = _expand(prog, st.value, owner_cls, module, depth)
            if exp:
                body, _res = exp
                out.extend(_rewrite_block(prog, body, owner_cls, module, depth - 1))
                continue
        elif isinstance(st, ast.Assign) and len(st.targets) == 1:
            exp = _expand(prog, st.value, owner_cls, module, depth, targets=st.targets[0])
            if exp and exp[1] is not None:
                body, res = exp
                out.extend(_rewrite_block(prog, body, owner_cls, module, depth - 1))
                if not isinstance(res, str):
                    out.extend(_rewrite_block(prog, [ast.copy_location(ast.Assign(targets=st.targets, value=res), st)], owner_cls, module, depth - 1))
                continue
        elif isinstance(st, ast.If) and (isinstance(st.test, ast.Call) or (isinstance(st.test, ast.UnaryOp) and isinstance(st.test.op, ast.Not)
                                                                     and isinstance(st.test.operand, ast.Call))):
            # `if [not] helper(...):` - the call is the first thing the statement evaluates, so its body may run in front of it:
            #     <body of helper, result in a fresh local>; if [not] <result>: ...
            call = st.test if isinstance(st.test, ast.Call) else st.test.operand
            # methods of the class only: module-level predicates (validate_exons, overlaps, ...) are vocabulary the rules read in tests
            exp = _expand(prog, call, owner_cls, module, depth) if isinstance(call.func, ast.Attribute) else None
            if exp and exp[1] is not None and not isinstance(exp[1], str):
                body, res = exp
                out.extend(_rewrite_block(prog, body, owner_cls, module, depth - 1))
                if isinstance(st.test, ast.Call):
                    st.test = res
                else:
                    st.test = ast.copy_location(ast.UnaryOp(op=ast.Not(), operand=res), st.test)
                out.append(st)
                continue
        elif isinstance(st, ast.Return) and st.value is not None:
            exp = _expand(prog, st.value, owner_cls, module, depth)
            if exp and exp[1] is not None:
                body, res = exp
                out.extend(_rewrite_block(prog, body, owner_cls, module, depth - 1))
                out.extend(_rewrite_block(prog, [ast.copy_location(ast.Return(value=res), st)], owner_cls, module, depth - 1))
                continue
        if isinstance(st, (ast.Assign, ast.Return, ast.Expr)) and isinstance(getattr(st, "value", None), ast.Call):
            st.value = _ExprInliner(prog, owner_cls, module, depth).visit(st.value)
        out.append(st)
    return out


def _link(node, parent, module):
    node._parent = parent
    node._module = module
    for ch in ast.iter_child_nodes(node):
        _link(ch, node, module)


_INSTANCES = {}


_EXCLUDE = set()


def _unmemo_block(stmts):
    """Memo transparency.  `if K not in D: D[K] = E` followed in the same block by reads of D[K] computes E and remembers it; what the
    function returns / uses is E.  The pattern is rewritten to `tmp = E` and the reads to `tmp`, so that rules which decide WHAT is
    computed see through a cache (whether the cache is keyed soundly is decided elsewhere: K1 / I8 / U7)."""
    out = []
    i = 0
    while i < len(stmts):
        st = stmts[i]
        for fld in ("body", "orelse", "finalbody"):
            blk = getattr(st, fld, None)
            if isinstance(blk, list) and blk and isinstance(blk[0], ast.stmt):
                setattr(st, fld, _unmemo_block(blk))
        hit = None
        if isinstance(st, ast.If) and not st.orelse and len(st.body) == 1 and isinstance(st.body[0], ast.Assign) \
                and len(st.body[0].targets) == 1 and isinstance(st.body[0].targets[0], ast.Subscript):
            t = st.test
            neg = isinstance(t, ast.UnaryOp) and isinstance(t.op, ast.Not)
            c = t.operand if neg else t
            if isinstance(c, ast.Compare) and len(c.ops) == 1 and (isinstance(c.ops[0], ast.NotIn) != neg) and isinstance(c.ops[0], (ast.In, ast.NotIn)):
                sub = st.body[0].targets[0]
                if ast.dump(sub.value) == ast.dump(c.comparators[0]) and ast.dump(sub.slice) == ast.dump(c.left):
                    hit = (sub, st.body[0].value)
        if hit is None:
            out.append(st)
            i += 1
            continue
        sub, value = hit
        _counter[0] += 1
        tmp = "memo__i%d" % _counter[0]
        want = ast.dump(ast.Subscript(value=sub.value, slice=sub.slice, ctx=ast.Load()))
        rest = stmts[i + 1:]
        used = [False]

        class _R(ast.NodeTransformer):
            def visit_Subscript(self, n):
                self.generic_visit(n)
                if isinstance(n.ctx, ast.Load) and ast.dump(ast.Subscript(value=n.value, slice=n.slice, ctx=ast.Load())) == want:
                    used[0] = True
                    return ast.copy_location(ast.Name(id=tmp, ctx=ast.Load()), n)
                return n
        new_rest = [_R().visit(x) for x in rest]
        if not used[0]:
            out.append(st)
            i += 1
            continue
        out.append(ast.copy_location(ast.Assign(targets=[ast.Name(id=tmp, ctx=ast.Store())], value=value), st))
        stmts = stmts[:i + 1] + new_rest
        i += 1
    return out


def _restore_names(fn):
    """A helper's local `x` becomes `x__i<N>` when the helper is expanded.  Where that was not needed to keep things apart - the host
    function has no name `x` and no other expansion brought an `x` of its own - the local gets its plain name back, so that a function
    split into stages reads, expanded, like the function it was split from."""
    import re
    names = {}
    for n in ast.walk(fn):
        ident = n.id if isinstance(n, ast.Name) else n.arg if isinstance(n, ast.arg) else None
        if ident is not None:
            names.setdefault(ident, []).append(n)
    by_base = {}
    for ident in names:
        m = re.match(r"^(.*)__i\d+$", ident)
        if m:
            by_base.setdefault(m.group(1), []).append(ident)
    for base, variants in by_base.items():
        if len(variants) == 1 and base not in names:
            for n in names[variants[0]]:
                if isinstance(n, ast.Name):
                    n.id = base
                else:
                    n.arg = base


def inlined(prog, func, depth=2, exclude=(), owner=None):
    """owner: the class through which an inherited method is looked at (self.x() then resolves to that class's overriding methods)."""
    global _EXCLUDE
    _EXCLUDE = set(exclude)
    try:
        return _inlined(prog, func, depth, owner)
    finally:
        _EXCLUDE = set()


def _inlined(prog, func, depth=2, owner_override=None):
    module = getattr(func, "_module", None)
    owner = owner_override if owner_override is not None else getattr(func, "_parent", None)
    owner_cls = owner if isinstance(owner, ast.ClassDef) else None
    if owner_cls is not None:
        inst = set()
        for st in ast.walk(func):
            if isinstance(st, ast.Assign) and len(st.targets) == 1 and isinstance(st.targets[0], ast.Name) and isinstance(st.value, ast.Call):
                d = dotted(st.value.func) or ""
                if d in ("cls.__new__", "cls", owner_cls.name, owner_cls.name + ".__new__", "object.__new__"):
                    inst.add(st.targets[0].id)
        _INSTANCES[id(owner_cls)] = inst
    new = clone(func)
    new.body = _unmemo_block(new.body)
    new.body = _rewrite_block(prog, new.body, owner_cls, module, depth)
    _restore_names(new)
    ast.fix_missing_locations(new)
    _link(new, getattr(func, "_parent", None), module)
    new._qualname = getattr(func, "_qualname", func.name)
    return new
