"""Order-taint census: where can the iteration order of a hash-ordered set become observable?

PYTHONHASHSEED perturbs only str/bytes hashes, so sets of ints / int tuples iterate deterministically; sets whose
elements may be str are *sources*.  The analysis
  1. infers which expressions are set-kind (locals, attributes by name, parameters via call sites, returns), to a fixpoint,
  2. classifies their element kind (INT / STR / UNKNOWN) from every insertion site,
  3. enumerates order-materialising uses of sources (for loops, comprehensions, list()/tuple()/enumerate()/join()/
     pop()/next(iter())/keyed sorted/min/max, unpacking) and discharges those that are sanitised syntactically
     (sorted(), set(), len, sum, any/all, membership, commutative loop bodies, locals whose every use is sanitised).
What remains is a *candidate*; candidates are triaged by reading (tables in rules/c06.py).
"""
import ast
import re

from .program import dotted, src, walk_no_nested, call_name, enclosing_function
from . import flow

SET_CTORS = {"set", "frozenset"}
SET_METHODS_RET_SET = {"union", "intersection", "difference", "symmetric_difference", "copy"}
ORDER_FREE_FUNCS = {"sorted", "set", "frozenset", "len", "sum", "any", "all", "min", "max", "bool"}
COMMUTATIVE_METHODS = {"add", "update", "discard", "inc", "remove", "difference_update", "intersection_update", "debug", "info", "warning"}
INT_NAME = re.compile(r"^(i|j|k|n|idx|v|v1|v2|inc|out|e|p|f1|f2|feature|count|cnt|start|end|best_assignment|to_collapse)$|"
                      r"(index|pos|position|intron|vertex|vertices|path|coord|exon|edge|region|bin_|_bin|_len$|length)")
STR_ATTRS = {"id", "read_id", "gene_id", "transcript_id", "assigned_gene", "assigned_transcript", "read_group", "chr_id", "seqid",
             "query_name", "reference_name", "source", "strand", "featuretype", "name"}
STR_NAME = re.compile(r"(^|_)(id|ids|name|names|group|groups|tag|label|prefix|suffix|strand|gene|genes|isoform|isoforms|transcript|"
                      r"transcripts|chr|filename|fname|file_name|key|attr)($|_)|^(t|g|s|line|tag_value|isoform_id|gene_id|read_id|t_id|g_id)$")


class Census:
    def __init__(self, prog):
        self.prog = prog
        self.funcs = [(m, q, f) for m, q, f in prog.all_functions()]
        self.by_simple = {}
        for m, q, f in self.funcs:
            self.by_simple.setdefault(f.name, []).append((m, q, f))
        self.set_attrs = {}      # attr name -> element exprs (list of (expr, func))
        self.dictset_attrs = set()
        self.set_locals = {}     # (func id, name) -> element exprs
        self.dictset_locals = set()
        self.set_params = {}     # (func id, param name) -> [arg exprs with caller func]
        self.set_returns = {}    # func id -> True
        self._infer()

    # ------------------------------------------------------------------ set-kind
    def is_set_expr(self, e, f, depth=0):
        if depth > 4 or e is None:
            return False
        if isinstance(e, (ast.Set, ast.SetComp)):
            return True
        if isinstance(e, ast.Call):
            cn = call_name(e)
            if cn in SET_CTORS:
                return True
            if isinstance(e.func, ast.Attribute) and e.func.attr in SET_METHODS_RET_SET and self.is_set_expr(e.func.value, f, depth + 1):
                return True
            if cn:
                simple = cn.split(".")[-1]
                for m2, q2, f2 in self.by_simple.get(simple, []):
                    if id(f2) in self.set_returns:
                        return True
            return False
        if isinstance(e, ast.BinOp) and isinstance(e.op, (ast.BitOr, ast.BitAnd, ast.Sub, ast.BitXor)):
            return self.is_set_expr(e.left, f, depth + 1) or self.is_set_expr(e.right, f, depth + 1)
        if isinstance(e, ast.IfExp):
            return self.is_set_expr(e.body, f, depth + 1) or self.is_set_expr(e.orelse, f, depth + 1)
        if isinstance(e, ast.Name):
            if f is not None and ((id(f), e.id) in self.set_locals or (id(f), e.id) in self.set_params):
                return True
            return False
        if isinstance(e, ast.Attribute):
            return e.attr in self.set_attrs
        if isinstance(e, ast.Subscript):
            # element of a dict of sets
            b = e.value
            if isinstance(b, ast.Name) and f is not None and (id(f), b.id) in self.dictset_locals:
                return True
            if isinstance(b, ast.Attribute) and b.attr in self.dictset_attrs:
                return True
        return False

    def is_dictset_expr(self, e, f):
        if isinstance(e, ast.Call) and (call_name(e) or "").split(".")[-1] == "defaultdict" and e.args:
            a = e.args[0]
            if isinstance(a, ast.Name) and a.id in SET_CTORS:
                return True
            if isinstance(a, ast.Lambda) and isinstance(a.body, ast.Call) and call_name(a.body) in SET_CTORS:
                return True
        return False

    def _infer(self):
        changed = True
        rounds = 0
        while changed and rounds < 8:
            changed = False
            rounds += 1
            for m, q, f in self.funcs:
                for n in walk_no_nested(f):
                    if isinstance(n, ast.Assign):
                        for t in n.targets:
                            tgts = t.elts if isinstance(t, (ast.Tuple, ast.List)) else [t]
                            vals = n.value.elts if isinstance(n.value, (ast.Tuple, ast.List)) and len(getattr(n.value, "elts", [])) == len(tgts) \
                                and isinstance(t, (ast.Tuple, ast.List)) else [n.value] * len(tgts)
                            for tg, v in zip(tgts, vals):
                                if self.is_set_expr(v, f):
                                    changed |= self._mark(tg, f, v)
                                if self.is_dictset_expr(v, f):
                                    if isinstance(tg, ast.Name) and (id(f), tg.id) not in self.dictset_locals:
                                        self.dictset_locals.add((id(f), tg.id))
                                        changed = True
                                    if isinstance(tg, ast.Attribute) and tg.attr not in self.dictset_attrs:
                                        self.dictset_attrs.add(tg.attr)
                                        changed = True
                    elif isinstance(n, ast.Return) and n.value is not None:
                        vals = n.value.elts if isinstance(n.value, ast.Tuple) else [n.value]
                        if len(vals) == 1 and self.is_set_expr(vals[0], f) and id(f) not in self.set_returns:
                            self.set_returns[id(f)] = True
                            changed = True
                    elif isinstance(n, ast.Call):
                        cn = call_name(n)
                        if not cn:
                            continue
                        simple = cn.split(".")[-1]
                        cands = self.by_simple.get(simple, [])
                        if simple[:1].isupper():
                            cands = self.by_simple.get("__init__", [])
                            cands = [c for c in cands if getattr(c[2], "_class", None) is not None and c[2]._class.name == simple]
                        for m2, q2, f2 in cands:
                            params = [a.arg for a in f2.args.args]
                            offset = 1 if params and params[0] in ("self", "cls") and (isinstance(n.func, ast.Attribute) or simple[:1].isupper()) else 0
                            for i, a in enumerate(n.args):
                                if i + offset < len(params) and self.is_set_expr(a, f):
                                    key = (id(f2), params[i + offset])
                                    if key not in self.set_params:
                                        self.set_params[key] = []
                                        changed = True
                                    self.set_params[key].append((a, f))
                            for k in n.keywords:
                                if k.arg in params and self.is_set_expr(k.value, f):
                                    key = (id(f2), k.arg)
                                    if key not in self.set_params:
                                        self.set_params[key] = []
                                        changed = True
                                    self.set_params[key].append((k.value, f))

    def _mark(self, tg, f, v):
        if isinstance(tg, ast.Name):
            key = (id(f), tg.id)
            new = key not in self.set_locals
            self.set_locals.setdefault(key, []).append((v, f))
            return new
        if isinstance(tg, ast.Attribute):
            new = tg.attr not in self.set_attrs
            self.set_attrs.setdefault(tg.attr, []).append((v, f))
            return new
        return False

    # ------------------------------------------------------------------ element kind
    def elem_kind_of_value(self, e, f, depth=0):
        """INT / STR / UNKNOWN for one element expression."""
        if depth > 5 or e is None:
            return "UNKNOWN"
        if isinstance(e, ast.Constant):
            if isinstance(e.value, str):
                return "STR"
            if isinstance(e.value, (int, float)) and not isinstance(e.value, bool):
                return "INT"
            return "UNKNOWN"
        if isinstance(e, (ast.Tuple, ast.List)):
            ks = [self.elem_kind_of_value(x, f, depth + 1) for x in e.elts]
            if "STR" in ks:
                return "STR"
            return "INT" if ks and all(k == "INT" for k in ks) else "UNKNOWN"
        if isinstance(e, ast.BinOp):
            if isinstance(e.op, ast.Mod) and isinstance(e.left, ast.Constant) and isinstance(e.left.value, str):
                return "STR"
            l, r = self.elem_kind_of_value(e.left, f, depth + 1), self.elem_kind_of_value(e.right, f, depth + 1)
            if "STR" in (l, r):
                return "STR"
            return "INT" if l == r == "INT" else ("INT" if isinstance(e.op, (ast.Sub, ast.FloorDiv, ast.Mult)) and "INT" in (l, r) else "UNKNOWN")
        if isinstance(e, ast.Call):
            cn = (call_name(e) or "")
            if cn in ("str", "repr") or cn.endswith((".format", ".join", ".strip", ".upper", ".lower")):
                return "STR"
            if cn in ("int", "len", "abs", "min", "max", "round"):
                return "INT"
            if cn.endswith("substitute"):
                return "INT"
            return "UNKNOWN"
        if isinstance(e, ast.Attribute):
            if e.attr in STR_ATTRS:
                return "STR"
            if INT_NAME.search(e.attr):
                return "INT"
            return "UNKNOWN"
        if isinstance(e, ast.Subscript):
            base = e.value
            txt = src(base)
            if re.search(r"(intron|exon|position|coord|path|region|block)", txt):
                return "INT"
            return self.elem_kind_of_value(base, f, depth + 1) if isinstance(base, ast.Name) and INT_NAME.search(base.id) else "UNKNOWN"
        if isinstance(e, ast.Name) and e.id.isupper() or (isinstance(e, ast.Name) and e.id.startswith("VERTEX_")):
            for rel, mod in self.prog.modules.items():
                v = mod.assigns.get(e.id)
                if isinstance(v, ast.Constant) and isinstance(v.value, int):
                    return "INT"
                if isinstance(v, ast.UnaryOp) and isinstance(v.operand, ast.Constant) and isinstance(v.operand.value, int):
                    return "INT"
        if isinstance(e, ast.Name):
            # loop variable over range / enumerate index
            if f is not None:
                lc = self.__dict__.setdefault("_loop_cache", {})
                if id(f) not in lc:
                    lc[id(f)] = [n for n in walk_no_nested(f) if isinstance(n, (ast.For, ast.comprehension))]
                for n in lc[id(f)]:
                    if isinstance(n, (ast.For, ast.comprehension)):
                        tnames = [x.id for x in ast.walk(n.target) if isinstance(x, ast.Name)]
                        if e.id in tnames:
                            it = n.iter
                            if isinstance(it, ast.Call) and call_name(it) == "range":
                                return "INT"
                            if isinstance(it, ast.Call) and call_name(it) == "enumerate" and isinstance(n.target, ast.Tuple) \
                                    and isinstance(n.target.elts[0], ast.Name) and n.target.elts[0].id == e.id:
                                return "INT"
                            # element of another set-kind / list entity
                            ek = self.elem_kind_of_iterable(it, f, depth + 1)
                            if ek != "UNKNOWN":
                                return ek
            if INT_NAME.search(e.id):
                return "INT"
            if STR_NAME.search(e.id):
                return "STR"
            # a plain local: the kind of what it is assigned
            if f is not None:
                dc = self.__dict__.setdefault("_def_cache", {})
                if id(f) not in dc:
                    d_ = {}
                    for n in walk_no_nested(f):
                        if isinstance(n, ast.Assign) and len(n.targets) == 1 and isinstance(n.targets[0], ast.Name):
                            d_.setdefault(n.targets[0].id, []).append(n.value)
                    dc[id(f)] = d_
                vals = dc[id(f)].get(e.id, [])
                if vals:
                    ks = {self.elem_kind_of_value(v, f, depth + 1) for v in vals}
                    if "STR" in ks:
                        return "STR"
                    if ks == {"INT"}:
                        return "INT"
            return "UNKNOWN"
        return "UNKNOWN"

    def elem_kind_of_iterable(self, it, f, depth=0):
        """Element kind of what iterating `it` yields."""
        if depth > 5:
            return "UNKNOWN"
        if isinstance(it, (ast.List, ast.Tuple, ast.Set)):
            ks = {self.elem_kind_of_value(x, f, depth + 1) for x in it.elts}
            if "STR" in ks:
                return "STR"
            return "INT" if ks == {"INT"} else "UNKNOWN"
        if isinstance(it, (ast.ListComp, ast.SetComp, ast.GeneratorExp)):
            return self.elem_kind_of_value(it.elt, enclosing_function(it) or f, depth + 1)
        if isinstance(it, ast.Call):
            cn = call_name(it) or ""
            if cn in ("set", "list", "sorted", "tuple", "frozenset", "reversed") and it.args:
                return self.elem_kind_of_iterable(it.args[0], f, depth + 1)
            if cn == "range":
                return "INT"
            if cn.endswith((".keys", ".values", ".items")):
                t = src(it.func.value)
                if re.search(r"(intron|exon|position|coord|path|vertex|vertices|edge)", t) and not cn.endswith(".values"):
                    return "INT"
                if re.search(r"(gene|isoform|transcript|read|group|name|strand|source|feature_attr)", t) and cn.endswith(".keys"):
                    return "STR"
                return "UNKNOWN"
            if cn.endswith(("get_all_chromosome_genes", "get_all_chromosome_transcripts")):
                return "STR"
            if cn == "read_list" and len(it.args) > 1 and src(it.args[1]) == "read_string":
                return "STR"
            return "UNKNOWN"
        if self.is_set_expr(it, f):
            return self.set_elem_kind(it, f, depth + 1)
        if isinstance(it, ast.Name):
            if INT_NAME.search(it.id) or re.search(r"(intron|exon|position|coord|path|vertex|vertices)", it.id):
                return "INT"
            if STR_NAME.search(it.id):
                return "STR"
        if isinstance(it, ast.Attribute):
            if re.search(r"(intron|exon|position|coord|path|vertex|vertices|features)", it.attr):
                return "INT"
            if STR_NAME.search(it.attr):
                return "STR"
        return "UNKNOWN"

    def _all_insertions(self):
        if getattr(self, "_ins_cache", None) is None:
            cache = []
            for m, q, f in self.funcs:
                for n in walk_no_nested(f):
                    if isinstance(n, ast.Call) and isinstance(n.func, ast.Attribute) and n.func.attr in ("add", "update") and n.args:
                        recv = n.func.value
                        if isinstance(recv, ast.Name):
                            cache.append(("name", recv.id, n.func.attr, n.args[0], f))
                        elif isinstance(recv, ast.Attribute):
                            cache.append(("attr", recv.attr, n.func.attr, n.args[0], f))
                        elif isinstance(recv, ast.Subscript):
                            b = recv.value
                            if isinstance(b, ast.Name):
                                cache.append(("name", "[]" + b.id, n.func.attr, n.args[0], f))
                            elif isinstance(b, ast.Attribute):
                                cache.append(("attr", "[]" + b.attr, n.func.attr, n.args[0], f))
            self._ins_cache = cache
        return self._ins_cache

    def _insertions(self, name_pred, attr_pred):
        """All expressions inserted into sets matched by predicates: via .add / .update ."""
        out = []
        for kind, key, meth, arg, f in self._all_insertions():
            if (kind == "name" and name_pred(f, key)) or (kind == "attr" and attr_pred(key)):
                out.append((meth, arg, f))
        return out

    def set_elem_kind(self, e, f, depth=0):
        if depth > 6:
            return "UNKNOWN"
        ck = (id(f), src(e))
        cache = self.__dict__.setdefault("_ek_cache", {})
        if ck in cache:
            return cache[ck]
        busy = self.__dict__.setdefault("_ek_busy", set())
        if ck in busy:
            return "UNKNOWN"           # cycle: the kind is decided by the other contributions
        busy.add(ck)
        try:
            res = self._set_elem_kind(e, f, depth)
        finally:
            busy.discard(ck)
        if depth <= 2 or res != "UNKNOWN":
            cache[ck] = res            # (a result cut off by the depth bound deep in the recursion is not remembered)
        return res

    def _set_elem_kind(self, e, f, depth=0):
        kinds = set()

        def from_ctor(v, vf):
            if isinstance(v, ast.Set):
                kinds.add(self.elem_kind_of_iterable(v, vf, depth + 1))
            elif isinstance(v, ast.SetComp):
                kinds.add(self.elem_kind_of_value(v.elt, vf, depth + 1))
            elif isinstance(v, ast.Call) and call_name(v) in SET_CTORS:
                if v.args:
                    kinds.add(self.elem_kind_of_iterable(v.args[0], vf, depth + 1))
            elif isinstance(v, ast.Call) and isinstance(v.func, ast.Attribute) and v.func.attr in SET_METHODS_RET_SET:
                kinds.add(self.set_elem_kind(v.func.value, vf, depth + 1))
            elif isinstance(v, ast.BinOp):
                kinds.add(self.set_elem_kind(v.left, vf, depth + 1))
            elif isinstance(v, ast.Call):
                kinds.add("UNKNOWN")
            elif isinstance(v, (ast.Name, ast.Attribute, ast.Subscript)):
                kinds.add(self.set_elem_kind(v, vf, depth + 1))
        if isinstance(e, (ast.Set, ast.SetComp, ast.Call, ast.BinOp)):
            from_ctor(e, f)
        elif isinstance(e, ast.Name) and f is not None:
            for v, vf in self.set_locals.get((id(f), e.id), []):
                from_ctor(v, vf)
            for a, cf in self.set_params.get((id(f), e.id), []):
                kinds.add(self.set_elem_kind(a, cf, depth + 1))
            for kind, arg, af in self._insertions(lambda ff, nm: ff is f and nm == e.id, lambda a: False):
                kinds.add(self.elem_kind_of_value(arg, af, depth + 1) if kind == "add" else self.elem_kind_of_iterable(arg, af, depth + 1))
        elif isinstance(e, ast.Attribute):
            for v, vf in self.set_attrs.get(e.attr, []):
                from_ctor(v, vf)
            for kind, arg, af in self._insertions(lambda ff, nm: False, lambda a: a == e.attr):
                if kind == "update" and e.attr in src(arg):
                    continue
                kinds.add(self.elem_kind_of_value(arg, af, depth + 1) if kind == "add" else self.elem_kind_of_iterable(arg, af, depth + 1))
        elif isinstance(e, ast.Subscript):
            b = e.value
            if isinstance(b, ast.Name):
                ins = self._insertions(lambda ff, nm: ff is f and nm == "[]" + b.id, lambda a: False)
            else:
                ins = self._insertions(lambda ff, nm: False, lambda a: a == "[]" + getattr(b, "attr", "?"))
            battr = getattr(b, "attr", getattr(b, "id", "?"))
            for kind, arg, af in ins:
                if kind == "update" and battr in src(arg):
                    continue
                kinds.add(self.elem_kind_of_value(arg, af, depth + 1) if kind == "add" else self.elem_kind_of_iterable(arg, af, depth + 1))
        kinds.discard(None)
        if "STR" in kinds:
            return "STR"
        if kinds and kinds <= {"INT"}:
            return "INT"
        return "UNKNOWN"

    # ------------------------------------------------------------------ materialisation sites
    def sites(self):
        """Yield (module, qualname, func, node, how, set_expr) for every order-materialising use of a set-kind expression."""
        for m, q, f in self.funcs:
            for n in walk_no_nested(f):
                if isinstance(n, ast.For) and self.is_set_expr(n.iter, f):
                    yield m, q, f, n, "for-loop", n.iter
                elif isinstance(n, (ast.ListComp, ast.GeneratorExp, ast.DictComp)):
                    for g in n.generators:
                        if self.is_set_expr(g.iter, f):
                            yield m, q, f, n, "comprehension", g.iter
                elif isinstance(n, ast.Call):
                    cn = call_name(n) or ""
                    if cn in ("list", "tuple", "enumerate", "iter", "next", "zip", "map", "filter", "reversed") and n.args:
                        for a in n.args:
                            if self.is_set_expr(a, f):
                                yield m, q, f, n, cn + "()", a
                    elif cn in ("sorted", "min", "max") and n.args and self.is_set_expr(n.args[0], f) and any(k.arg == "key" for k in n.keywords):
                        yield m, q, f, n, cn + "(key=...)", n.args[0]
                    elif cn.endswith(".join") and n.args and self.is_set_expr(n.args[0], f):
                        yield m, q, f, n, "join()", n.args[0]
                    elif isinstance(n.func, ast.Attribute) and n.func.attr == "pop" and not n.args and self.is_set_expr(n.func.value, f):
                        yield m, q, f, n, "pop()", n.func.value
                    elif cn in ("write_list",) and n.args and self.is_set_expr(n.args[0], f):
                        yield m, q, f, n, "write_list()", n.args[0]
                elif isinstance(n, ast.Assign) and isinstance(n.targets[0], (ast.Tuple, ast.List)) and self.is_set_expr(n.value, f):
                    yield m, q, f, n, "unpacking", n.value
                elif isinstance(n, ast.Starred) and self.is_set_expr(n.value, f):
                    yield m, q, f, n, "star-unpack", n.value


# ---------------------------------------------------------------------- sanitisation

def wrapped_order_free(node):
    """The value of `node` is consumed by an order-insensitive function: sorted(...) without key, set(), len, sum, any, all, min, max."""
    cur = node
    while True:
        parent = getattr(cur, "_parent", None)
        if parent is None or isinstance(parent, ast.stmt):
            return False
        if isinstance(parent, ast.Call) and cur in parent.args:
            cn = call_name(parent) or ""
            if cn in ORDER_FREE_FUNCS:
                if cn in ("sorted", "min", "max") and any(k.arg == "key" for k in parent.keywords):
                    # keyed: ties keep input order -> order still matters unless the key is total
                    key = [k.value for k in parent.keywords if k.arg == "key"][0]
                    if not key_is_total(key):
                        return False
                return True
            if cn.endswith((".update", ".union", ".intersection", ".difference", ".issubset", ".issuperset", ".isdisjoint",
                            ".difference_update", ".intersection_update")):
                return True
            return False
        if isinstance(parent, (ast.SetComp,)):
            return True
        if isinstance(parent, ast.Compare) and any(isinstance(o, (ast.In, ast.NotIn)) for o in parent.ops) and cur in parent.comparators:
            return True
        if isinstance(parent, (ast.ListComp, ast.GeneratorExp, ast.comprehension, ast.Starred, ast.keyword)):
            cur = parent
            continue
        return False


def key_is_total(key, items_input=False):
    """A sort key under which equal keys imply equal elements (so ties cannot expose the input order):
    lambda x: <tuple containing x itself>, or covering both x[0] and x[1] of a pair, or containing x[0] when the
    input is dict.items() (keys are unique)."""
    if isinstance(key, ast.Lambda) and key.args.args:
        a = key.args.args[0].arg
        b = key.body
        comps = b.elts if isinstance(b, ast.Tuple) else [b]
        texts = {src(c) for c in comps}
        if a in texts:
            return True
        if "%s[0]" % a in texts and "%s[1]" % a in texts:
            return True
        if items_input and "%s[0]" % a in texts:
            return True
    return False


def loop_body_commutative(loop):
    """Every effect of the loop body is insensitive to iteration order."""
    def stmt_ok(st):
        if isinstance(st, (ast.Pass, ast.Continue)):
            return True
        if isinstance(st, ast.If):
            return all(stmt_ok(s) for s in st.body) and all(stmt_ok(s) for s in st.orelse)
        if isinstance(st, ast.Expr) and isinstance(st.value, ast.Call):
            c = st.value
            if isinstance(c.func, ast.Attribute) and c.func.attr in COMMUTATIVE_METHODS:
                return True
            cn = call_name(c) or ""
            if cn.startswith("logger."):
                return True
            return False
        if isinstance(st, ast.AugAssign) and isinstance(st.op, (ast.Add, ast.Sub, ast.BitOr, ast.BitAnd)):
            # numeric / set accumulation
            return not isinstance(st.value, (ast.List, ast.ListComp)) and "[" != src(st.value)[:1]
        if isinstance(st, ast.Assign):
            t = st.targets[0]
            # D[k] = constant  (same value whatever the order), x = max(x, ..)/min(x, ..)
            if isinstance(t, ast.Subscript) and isinstance(st.value, ast.Constant):
                return True
            if isinstance(st.value, ast.Call) and call_name(st.value) in ("max", "min") and not st.value.keywords:
                return True
            if isinstance(t, ast.Name) and isinstance(st.value, ast.Constant):
                return True          # flag = True
            return False
        if isinstance(st, ast.Delete):
            return True
        if isinstance(st, ast.For):
            return all(stmt_ok(s) for s in st.body)
        return False
    return all(stmt_ok(s) for s in loop.body)


def local_uses_all_order_free(node, f):
    """`X = list(S)` / `X = [.. for .. in S]`: every later use of local X is order-insensitive."""
    st = node
    while st is not None and not isinstance(st, ast.stmt):
        st = getattr(st, "_parent", None)
    if not (isinstance(st, ast.Assign) and len(st.targets) == 1 and isinstance(st.targets[0], ast.Name)):
        return False
    # the materialising node must be the whole RHS (possibly nested in order-preserving wrappers only)
    name = st.targets[0].id
    uses = [n for n in walk_no_nested(f) if isinstance(n, ast.Name) and n.id == name and isinstance(n.ctx, ast.Load)]
    if not uses:
        return True
    for u in uses:
        if wrapped_order_free(u):
            continue
        p = u._parent
        if isinstance(p, ast.For) and p.iter is u and loop_body_commutative(p):
            continue
        if isinstance(p, ast.Call) and call_name(p) == "len":
            continue
        if isinstance(p, ast.Compare):
            continue
        if isinstance(p, (ast.If, ast.UnaryOp, ast.BoolOp)):
            continue
        return False
    return True


# ---------------------------------------------------------------------- phase 2: hash-ordered sequences

class SeqTaint:
    """Propagates 'this sequence / dict has hash-dependent order' from str-element sets through lists, returns,
    parameters and attributes (by name), and reports where such an order becomes observable."""

    ORDER_PRESERVING = {"list", "tuple", "reversed", "iter", "enumerate", "zip", "map", "filter"}

    def __init__(self, census):
        self.c = census
        self.prog = census.prog
        self.locals = {}     # (id(f), name) -> origin text
        self.attrs = {}      # attr -> origin
        self.rets = {}       # id(f) -> origin
        self.sinks = []      # (module, qualname, func, node, kind, origin)
        self.sources = []    # (module, qualname, func, node, how, text)
        self._fix()

    # -- helpers
    def src_set(self, e, f):
        """Origin text if e is a set-kind expression whose elements may be str."""
        if self.c.is_set_expr(e, f) and self.c.set_elem_kind(e, f) != "INT":
            return "set %s" % src(e)[:50]
        return None

    def seq(self, e, f, depth=0):
        """Origin if the *order* of sequence/dict expression e may depend on the hash seed."""
        if e is None or depth > 6:
            return None
        if isinstance(e, ast.Name):
            return self.locals.get((id(f), e.id))
        if isinstance(e, ast.Attribute):
            return self.attrs.get(e.attr)
        if isinstance(e, ast.Starred):
            return self.seq(e.value, f, depth + 1)
        if isinstance(e, ast.Subscript):
            if isinstance(e.slice, ast.Slice):
                return self.seq(e.value, f, depth + 1)
            return None
        if isinstance(e, ast.IfExp):
            return self.seq(e.body, f, depth + 1) or self.seq(e.orelse, f, depth + 1)
        if isinstance(e, ast.BinOp) and isinstance(e.op, ast.Add):
            return self.seq(e.left, f, depth + 1) or self.seq(e.right, f, depth + 1)
        if isinstance(e, (ast.ListComp, ast.GeneratorExp, ast.DictComp)):
            for g in e.generators:
                o = self.src_set(g.iter, f) or self.seq(g.iter, f, depth + 1)
                if o:
                    return o
            return None
        if isinstance(e, ast.Call):
            cn = call_name(e) or ""
            simple = cn.split(".")[-1]
            if cn in ("set", "frozenset", "len", "sum", "any", "all", "bool", "str", "int", "float"):
                return None
            if cn in ("sorted", "min", "max"):
                key = [k.value for k in e.keywords if k.arg == "key"]
                items_input = bool(e.args) and isinstance(e.args[0], ast.Call) and isinstance(e.args[0].func, ast.Attribute) \
                    and e.args[0].func.attr == "items"
                if not key or key_is_total(key[0], items_input):
                    return None
                if cn == "sorted" and e.args:
                    return self.src_set(e.args[0], f) or self.seq(e.args[0], f, depth + 1)
                return None
            if cn in self.ORDER_PRESERVING:
                for a in e.args:
                    o = self.src_set(a, f) or self.seq(a, f, depth + 1)
                    if o:
                        return o
                return None
            if isinstance(e.func, ast.Attribute) and e.func.attr in ("keys", "values", "items", "copy"):
                return self.seq(e.func.value, f, depth + 1)
            for m2, q2, f2 in self.c.by_simple.get(simple, []):
                if id(f2) in self.rets:
                    return self.rets[id(f2)]
            return None
        return None

    def _mark_target(self, t, f, origin):
        if origin is None:
            return False
        if isinstance(t, ast.Name):
            k = (id(f), t.id)
            if k not in self.locals:
                self.locals[k] = origin
                return True
        elif isinstance(t, ast.Attribute):
            if t.attr not in self.attrs:
                self.attrs[t.attr] = origin
                return True
        elif isinstance(t, ast.Subscript):
            return self._mark_target(t.value, f, origin)
        return False

    def _fix(self):
        changed = True
        rounds = 0
        while changed and rounds < 12:
            changed = False
            rounds += 1
            for m, q, f in self.c.funcs:
                for n in walk_no_nested(f):
                    if isinstance(n, ast.Assign):
                        o = self.seq(n.value, f)
                        if o:
                            for t in n.targets:
                                changed |= self._mark_target(t, f, o + " -> " + src(n)[:40])
                    elif isinstance(n, ast.AugAssign):
                        o = self.seq(n.value, f)
                        if o:
                            changed |= self._mark_target(n.target, f, o)
                    elif isinstance(n, ast.Return) and n.value is not None:
                        vals = n.value.elts if isinstance(n.value, ast.Tuple) else [n.value]
                        for v in vals:
                            o = self.seq(v, f)
                            if o and id(f) not in self.rets and len(vals) == 1:
                                self.rets[id(f)] = o + " -> return of " + q
                                changed = True
                    elif isinstance(n, ast.For):
                        o = self.src_set(n.iter, f) or self.seq(n.iter, f)
                        if o:
                            for c in ast.walk(n):
                                if isinstance(c, ast.AugAssign) and isinstance(c.target, ast.Subscript) \
                                        and not self.c.is_set_expr(c.target.value, f):
                                    changed |= self._mark_target(c.target.value, f, o + " -> loop@%d inserts keys (+=)" % n.lineno)
                        if o and not loop_body_commutative(n):
                            for c in ast.walk(n):
                                if isinstance(c, ast.Call) and isinstance(c.func, ast.Attribute) and c.func.attr in ("append", "extend", "insert"):
                                    changed |= self._mark_target(c.func.value, f, o + " -> loop@%d appends" % n.lineno)
                                elif isinstance(c, ast.Assign) and isinstance(c.targets[0], ast.Subscript) \
                                        and not isinstance(c.value, ast.Constant):
                                    # dict insertion order follows the loop order (only if the key can be new)
                                    changed |= self._mark_target(c.targets[0].value, f, o + " -> loop@%d inserts keys" % n.lineno)
                                elif isinstance(c, ast.AugAssign) and isinstance(c.value, (ast.List, ast.ListComp)):
                                    changed |= self._mark_target(c.target, f, o + " -> loop@%d extends" % n.lineno)
                    elif isinstance(n, ast.Call):
                        cn = call_name(n) or ""
                        simple = cn.split(".")[-1]
                        cands = self.c.by_simple.get(simple, [])
                        if simple[:1].isupper():
                            cands = [c for c in self.c.by_simple.get("__init__", [])
                                     if getattr(c[2], "_class", None) is not None and c[2]._class.name == simple]
                        if not cands:
                            continue
                        for i, a in enumerate(n.args):
                            o = self.seq(a, f)
                            if not o:
                                continue
                            for m2, q2, f2 in cands:
                                params = [x.arg for x in f2.args.args]
                                off = 1 if params and params[0] in ("self", "cls") and (isinstance(n.func, ast.Attribute) or simple[:1].isupper()) else 0
                                if i + off < len(params):
                                    k = (id(f2), params[i + off])
                                    if k not in self.locals:
                                        self.locals[k] = o + " -> arg of " + q2
                                        changed = True
        self._collect_sinks()

    def _collect_sinks(self):
        for m, q, f in self.c.funcs:
            for n in walk_no_nested(f):
                # 1. ordered loops with observable effects
                if isinstance(n, ast.For):
                    o = self.src_set(n.iter, f) or self.seq(n.iter, f)
                    if o and not loop_body_commutative(n):
                        for c in ast.walk(n):
                            if isinstance(c, ast.Call):
                                cn = call_name(c) or ""
                                if cn.endswith(".write") or cn.endswith("write_string") or cn.endswith("write_int"):
                                    self.sinks.append((m, q, f, n, "write inside hash-ordered loop", o))
                                    break
                                if cn.endswith((".increment", "get_transcript_id")) or cn in ("FeatureInfo",):
                                    self.sinks.append((m, q, f, n, "id allocation inside hash-ordered loop", o))
                                    break
                            if isinstance(c, ast.Break) or (isinstance(c, ast.Return) and c.value is not None
                                                             and not isinstance(c.value, ast.Constant)):
                                self.sinks.append((m, q, f, n, "first-match exit from hash-ordered loop", o))
                                break
                elif isinstance(n, ast.Call):
                    cn = call_name(n) or ""
                    is_join = isinstance(n.func, ast.Attribute) and n.func.attr == "join"
                    if cn.endswith(".write") or is_join or cn in ("write_list", "write_list_of_pairs"):
                        for a in n.args:
                            for x in ast.walk(a):
                                if isinstance(x, (ast.Name, ast.Attribute, ast.Call, ast.ListComp, ast.GeneratorExp)):
                                    o = self.seq(x, f) or (self.src_set(x, f) if isinstance(x, (ast.Name, ast.Attribute)) else None)
                                    if o and not wrapped_order_free(x):
                                        self.sinks.append((m, q, f, n, "hash-ordered sequence serialised (%s)" % ("join" if is_join else cn.split(".")[-1]), o))
                                        break
                            else:
                                continue
                            break
                    elif cn == "enumerate" and n.args:
                        o = self.src_set(n.args[0], f) or self.seq(n.args[0], f)
                        if o:
                            self.sinks.append((m, q, f, n, "positions assigned in hash order (enumerate)", o))
                    elif cn in ("max", "min") and len(n.args) == 1:
                        # max / min return the FIRST of several equal elements: with a key that is not total, ties expose the input order
                        key = [k.value for k in n.keywords if k.arg == "key"]
                        items_input = isinstance(n.args[0], ast.Call) and isinstance(n.args[0].func, ast.Attribute) and n.args[0].func.attr == "items"
                        if key and not key_is_total(key[0], items_input):
                            o = self.src_set(n.args[0], f) or self.seq(n.args[0], f)
                            if o:
                                self.sinks.append((m, q, f, n, "first of equally ranked elements taken from a hash-ordered collection (%s with a "
                                                               "key that leaves ties)" % cn, o))
                elif isinstance(n, ast.Subscript) and isinstance(n.ctx, ast.Load) and not isinstance(n.slice, ast.Slice):
                    if isinstance(n.slice, ast.Constant) and isinstance(n.slice.value, int) or isinstance(n.slice, ast.UnaryOp):
                        o = self.seq(n.value, f)
                        if o is None and isinstance(n.value, ast.Call) and call_name(n.value) in ("list", "tuple", "sorted"):
                            o = self.seq(n.value, f)
                        if o:
                            facts = " ".join(src(t) for t, p in flow.guard_facts(n, stop=f) if p)
                            if "== 1" in facts:
                                continue
                            self.sinks.append((m, q, f, n, "element selected by position from hash-ordered sequence", o))
                elif isinstance(n, ast.Compare) and len(n.ops) == 1 and isinstance(n.ops[0], (ast.Eq, ast.NotEq)):
                    o1, o2 = self.seq(n.left, f), self.seq(n.comparators[0], f)
                    if o1 and o2:
                        self.sinks.append((m, q, f, n, "order-sensitive comparison of hash-ordered sequences", o1))
