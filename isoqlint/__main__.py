import argparse
import importlib
import json
import os
import sys
import traceback

from .engine.program import Program, AnalysisError
from . import report

CLAIMED = ["C01", "C02", "C03", "C04", "C05", "C06", "C07", "C08", "C09", "C10", "C11",
           "C13", "C14", "C15", "C16", "C17", "C18", "C20"]


def run_isolated(fn, _ctx, **params):
    """Run a rules module's run(): statement by statement, so that a rule that loses its anchor (AnalysisError) is recorded as undecided
    and the rules after it are still evaluated - an anchor lost by one rule must not hide what another rule reports.  A statement that
    fails only because an earlier, failed statement did not define a name it uses is skipped."""
    import ast
    import inspect
    import textwrap
    tree = ast.parse(textwrap.dedent(inspect.getsource(fn)))
    fdef = tree.body[0]
    env = dict(fn.__globals__)
    env.update(params)
    fname = inspect.getsourcefile(fn) or "<rules>"
    first = fn.__code__.co_firstlineno
    failed = False
    for st in fdef.body:
        mod = ast.Module(body=[st], type_ignores=[])
        ast.increment_lineno(mod, first - 1)
        code = compile(mod, fname, "exec")
        try:
            exec(code, env)
        except AnalysisError as e:
            failed = True
            what = ast.unparse(st).split("\n")[0][:60]
            _ctx.undecideds.append(("-", fname.split("/")[-1], what, str(e)))
            _ctx.obligations.append({"rule": "-", "where": fname.split("/")[-1], "what": "%s: %s" % (what, e), "verdict": "undecided",
                                    "nontrivial": True})
        except NameError:
            if not failed:
                raise


def run_property(pid, tier, seed, replay=None):
    ctx = report.Ctx(pid, tier, seed)
    prog = None
    try:
        prog = Program()
        mod = importlib.import_module("isoqlint.rules.%s" % pid.lower())
        from .rules import common
        if os.environ.get("ISOQLINT_NO_ISOLATION"):
            mod.run(prog, ctx)
            common.run(prog, ctx, pid)
        else:
            run_isolated(mod.run, ctx, prog=prog, ctx=ctx)
            run_isolated(common.run, ctx, prog=prog, ctx=ctx, pid=pid)
        if tier == "thorough":
            thorough = getattr(mod, "run_thorough", None)
            if thorough is not None:
                thorough(prog, ctx)
            from . import selftest
            selftest.run_for(pid, ctx)
        if replay:
            with open(replay) as fh:
                want = json.load(fh).get("key")
            hit = [f for f in ctx.findings if f.key() == want]
            ctx.findings = hit
            print("replay: instance %s is %s on the current tree" % (want, "STILL VIOLATED" if hit else "no longer reported"))
        code = report.finish(ctx, prog)
    except AnalysisError as e:
        print("ANALYSIS-ERROR property=%s %s" % (pid, e))
        return 2
    except Exception as e:  # internal error: never a verdict
        traceback.print_exc()
        print("ANALYSIS-ERROR property=%s internal error: %r" % (pid, e))
        return 2
    n_ob = len(ctx.obligations)
    n_ok = len([o for o in ctx.obligations if o["verdict"] == "holds"])
    print("%s [%s] %d/%d obligations hold; %d modules analysed; rules: %s; %.2fs" % (
        pid, tier, n_ok, n_ob, len(prog.modules), ",".join(sorted(ctx.rules)),
        __import__("time").time() - ctx.t0))
    return code


def main(argv=None):
    ap = argparse.ArgumentParser(prog="check")
    ap.add_argument("property")
    ap.add_argument("--tier", default=os.environ.get("VERIF_TIER", "quick"), choices=["quick", "thorough"])
    ap.add_argument("--replay", default=None)
    a = ap.parse_args(argv)
    try:
        seed = int(os.environ.get("VERIF_SEED", "0"))
    except ValueError:
        seed = 0
    pid = a.property.upper()
    if pid == "ALL":
        worst = 0
        for p in CLAIMED:
            worst = max(worst, run_property(p, a.tier, seed))
        return worst
    if pid not in CLAIMED:
        print("ANALYSIS-ERROR property=%s is not claimed by this framework" % pid)
        return 2
    return run_property(pid, a.tier, seed, a.replay)


if __name__ == "__main__":
    sys.exit(main())
