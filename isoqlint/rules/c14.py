"""C14 - corrected alignments well-formed; junctions move only onto annotated ones (structural part).

B1 every deviation of the corrected alignment from the original is control-dependent on a strategy flag that the
   preset `none` sets False (directly, or through two data-carried guard idioms that are re-verified)
B2 origin / side discipline of corrected splice sites and of the corrected read region
B3 BED12 arithmetic identities of BEDPrinter
"""
import ast
import re

from ..engine.program import AnalysisError, dotted, src, walk_no_nested, call_name, enclosing_stmt
from ..engine import flow, symexec
from ..engine.dataflow import local_defs
from ..engine.linform import linform, fmt

EC = "src/exon_corrector.py"
ANNOTATION_SEEDS = {"potential_introns": "annotated introns matched to the read's introns",
                    "isoform_introns": "introns of the assigned isoform",
                    "isoform_region": "span of the assigned isoform"}


def preset_table(prog, ctx):
    f = prog.func("isoquant.py", "set_splice_correction_options")
    fields = None
    table = None
    for st in walk_no_nested(f):
        if isinstance(st, ast.Assign) and isinstance(st.value, ast.Call) and call_name(st.value) == "namedtuple":
            fields = list(ast.literal_eval(st.value.args[1]))
        if isinstance(st, ast.Assign) and isinstance(st.value, ast.Dict):
            table = st.value
    if fields is None or table is None:
        raise AnalysisError("set_splice_correction_options: namedtuple / preset dict not found")
    presets = {}
    for k, v in zip(table.keys, table.values):
        vals = []
        for a in v.args:
            if not (isinstance(a, ast.Constant) and isinstance(a.value, bool)):
                raise AnalysisError("non-literal preset value in splice correction table: %s" % src(a))
            vals.append(a.value)
        if len(vals) != len(fields):
            ctx.fail("B1", v, f._qualname, src(v), "preset %s has %d values for %d fields" % (src(k), len(vals), len(fields)))
        presets[ast.literal_eval(k)] = dict(zip(fields, vals))
    flags = {}
    for st in walk_no_nested(f):
        if isinstance(st, ast.Assign) and isinstance(st.targets[0], ast.Attribute) and st.targets[0].attr.startswith("correct_") \
                and isinstance(st.value, ast.Attribute) and dotted(st.value.value) == "strategy":
            flags[st.targets[0].attr] = st.value.attr
    # the same wiring written as a loop over the fields:  for k, v in strategy._asdict().items(): setattr(args, "correct_" + k, v)
    for lp in [x for x in walk_no_nested(f) if isinstance(x, ast.For)]:
        if "strategy._asdict()" in src(lp.iter) and isinstance(lp.target, ast.Tuple) and len(lp.target.elts) == 2:
            kv, vv = (src(e) for e in lp.target.elts)
            for c in ast.walk(lp):
                if isinstance(c, ast.Call) and call_name(c) == "setattr" and len(c.args) == 3 and src(c.args[0]) == "args" and src(c.args[2]) == vv \
                        and isinstance(c.args[1], ast.BinOp) and isinstance(c.args[1].op, ast.Add) and isinstance(c.args[1].left, ast.Constant) \
                        and src(c.args[1].right) == kv:
                    for fld in fields:
                        flags[str(c.args[1].left.value) + fld] = fld
    if "none" not in presets:
        ctx.fail("B1", f, f._qualname, "strategies", "preset 'none' is missing")
    else:
        on = [k for k, v in presets["none"].items() if v]
        if on:
            ctx.fail("B1", table, f._qualname, "'none': %s" % presets["none"], "preset 'none' enables %s: the corrected alignment "
                     "may differ from the input alignment" % on)
        else:
            ctx.ok("B1", "isoquant.py:%d" % table.lineno, "preset none: all %d correction flags False" % len(fields))
    for flag, fld in sorted(flags.items()):
        if fld not in fields:
            ctx.fail("B1", f, f._qualname, flag, "args.%s is set from unknown field %s" % (flag, fld))
        else:
            ctx.ok("B1", "isoquant.py:%d" % f.lineno, "args.%s <- strategy.%s" % (flag, fld))
    ctx.extra["presets"] = presets
    return flags, presets


def flag_names_in(expr, flags):
    return {n.attr for n in ast.walk(expr) if isinstance(n, ast.Attribute) and n.attr in flags}


def b1(prog, ctx, flags):
    cls = prog.cls(EC, "ExonCorrector")
    # every correct_* attribute the corrector consumes is set from the preset table
    used = set()
    for n in ast.walk(cls):
        if isinstance(n, ast.Attribute) and n.attr.startswith("correct_") and isinstance(n.ctx, ast.Load) \
                and dotted(n.value) in ("self.params", "params"):
            used.add(n.attr)
    for u in sorted(used):
        if u not in flags:
            ctx.fail("B1", cls, "ExonCorrector", "self.params." + u, "correction flag %s is consumed but not set from the preset table" % u)
        else:
            ctx.ok("B1", EC, "flag %s consumed by the corrector is table-driven" % u)
    for fl_ in sorted(set(flags) - used):
        ctx.note("B1: flag %s is set from the preset table but not consumed by ExonCorrector" % fl_)
    ctx.floor("B1", "correction flags consumed", len(used), 3)

    pe = prog.func_inlined(EC, "ExonCorrector.process_events")
    cm = prog.func(EC, "ExonCorrector.correct_misalignments")
    defs = local_defs(pe)
    # --- idiom (i): flag-guarded insertions into a local list that starts empty
    guarded_lists = {}
    for name, ds in defs.items():
        inits = [d for d in ds if d[0] == "assign" and isinstance(d[1], ast.List) and not d[1].elts]
        if not inits or len(inits) != len([d for d in ds if d[0] == "assign"]):
            continue
        appends = [c for c in walk_no_nested(pe) if isinstance(c, ast.Call) and src(c.func) == name + ".append"]
        if not appends:
            continue
        gflags = set()
        allg = True
        for c in appends:
            st = c
            while not isinstance(st, ast.stmt):
                st = st._parent
            fs = set()
            for t, pol in flow.guard_facts(st, stop=pe):
                if pol:
                    fs |= flag_names_in(t, flags)
            if not fs:
                allg = False
            gflags |= fs
        # also no other mutation (extend, +=, insert)
        other = [n for n in walk_no_nested(pe) if isinstance(n, ast.AugAssign) and src(n.target) == name] + \
                [c for c in walk_no_nested(pe) if isinstance(c, ast.Call) and isinstance(c.func, ast.Attribute)
                 and src(c.func.value) == name and c.func.attr in ("extend", "insert")]
        if allg and not other:
            guarded_lists[name] = gflags
    # --- idiom (i'): the same list built once in the constructor and kept in an attribute (params are fixed for the corrector's lifetime)
    init = prog.methods_of(cls, inherited=False).get("__init__") if cls is not None else None
    if init is not None:
        idefs = local_defs(init)
        attr_lists = {}
        for st in walk_no_nested(init):
            if isinstance(st, ast.Assign) and len(st.targets) == 1 and (dotted(st.targets[0]) or "").startswith("self."):
                v = st.value
                while isinstance(v, ast.Call) and call_name(v) in ("frozenset", "set", "tuple", "list") and len(v.args) == 1:
                    v = v.args[0]
                if isinstance(v, ast.Name) and v.id in idefs:
                    ds = idefs[v.id]
                    inits = [d for d in ds if d[0] == "assign" and isinstance(d[1], ast.List) and not d[1].elts]
                    if not inits or len(inits) != len([d for d in ds if d[0] == "assign"]):
                        continue
                    appends = [c for c in walk_no_nested(init) if isinstance(c, ast.Call) and src(c.func) in (v.id + ".append", v.id + ".add")]
                    gflags, allg = set(), bool(appends)
                    for c in appends:
                        fs = set()
                        for t, pol in flow.guard_facts(enclosing_stmt(c), stop=init):
                            if pol:
                                fs |= flag_names_in(t, flags)
                        if not fs:
                            allg = False
                        gflags |= fs
                    if allg:
                        attr_lists[dotted(st.targets[0])] = gflags
        # the attribute may be rebound elsewhere in the class: then it is not that list any more
        for mname, mf in prog.methods_of(cls, inherited=False).items():
            if mname == "__init__":
                continue
            for st in walk_no_nested(mf):
                if isinstance(st, (ast.Assign, ast.AugAssign)):
                    for t in (st.targets if isinstance(st, ast.Assign) else [st.target]):
                        attr_lists.pop(dotted(t) or "", None)
        for a_, fl_ in attr_lists.items():
            guarded_lists[a_] = fl_
            for name, ds in defs.items():
                if len(ds) == 1 and ds[0][0] == "assign" and dotted(ds[0][1]) == a_:
                    guarded_lists[name] = fl_
    # --- idiom (ii): negative-shaped keys stored into event_map only under a flag
    neg_key_flags = None
    stores = [s for s in walk_no_nested(cm) if isinstance(s, ast.Assign) and isinstance(s.targets[0], ast.Subscript)
              and src(s.targets[0].value) == "event_map"]
    if not stores:
        raise AnalysisError("correct_misalignments: no stores into event_map found")
    neg_ok = True
    neg_flags = set()
    nneg = 0
    for s in stores:
        k = s.targets[0].slice
        is_neg = isinstance(k, ast.BinOp) and isinstance(k.op, ast.Sub) and isinstance(k.left, ast.UnaryOp) \
            and isinstance(k.left.op, ast.USub) and isinstance(k.right, ast.Constant) and k.right.value == 1
        if is_neg:
            nneg += 1
            fs = set()
            for t, pol in flow.guard_facts(s, stop=cm):
                if pol:
                    fs |= flag_names_in(t, flags)
            if not fs:
                neg_ok = False
                ctx.fail("B1", s, cm._qualname, src(s), "a retained-micro-intron key (-k-1) is stored into event_map without a "
                         "correction flag: process_events inserts an isoform intron for it under every preset, including none")
            neg_flags |= fs
        else:
            # non-negative keys must be plain read indices
            if src(k) != "e.read_region[0]":
                ctx.fail("B1", s, cm._qualname, src(s), "unexpected key shape stored into event_map: %s" % src(k))
    if neg_ok and nneg:
        neg_key_flags = neg_flags
        ctx.ok("B1", "%s:%d" % (EC, stores[0].lineno), "event_map keys of shape -k-1 stored only under %s" % sorted(neg_flags))
    # --- taint: annotation-origin names in process_events
    params = [a.arg for a in pe.args.args]
    for seed in ("isoform_region", "isoform_introns"):
        if seed not in params:
            raise AnalysisError("process_events no longer takes %s" % seed)
    tainted = set(n for n in ANNOTATION_SEEDS if n in params or n in defs)
    flag_joined = set()
    # flag-joined: names defined in both arms of `if <flag>: ... else: X = <read alias>`
    for node in walk_no_nested(pe):
        if isinstance(node, ast.If) and flag_names_in(node.test, flags) and node.orelse:
            for st in node.orelse:
                if isinstance(st, ast.Assign) and isinstance(st.targets[0], ast.Name) and isinstance(st.value, ast.Name) \
                        and st.value.id.startswith("read_"):
                    nm = st.targets[0].id
                    body_defs = [d for d in defs.get(nm, []) if any(d[2] is x for b in node.body for x in ast.walk(b))]
                    all_defs = defs.get(nm, [])
                    if len(body_defs) + 1 == len([d for d in all_defs if d[0] == "assign"]):
                        flag_joined.add(nm)
    changed = True
    while changed:
        changed = False
        for name, ds in defs.items():
            if name in tainted or name in flag_joined:
                continue
            for kind, val, _st in ds:
                names = {n.id for n in ast.walk(val) if isinstance(n, ast.Name)}
                attrs = {dotted(n) for n in ast.walk(val) if isinstance(n, ast.Attribute) and dotted(n)}
                from_annotation = any(a.startswith(("self.gene_info", "self.intron_profile_constructor")) for a in attrs)
                if names & tainted or from_annotation:
                    tainted.add(name)
                    changed = True
                    break
    ctx.extra["b1_annotation_tainted"] = sorted(tainted)
    ctx.extra["b1_flag_joined"] = sorted(flag_joined)

    def guard_verdict(st):
        facts = flow.guard_facts(st, stop=pe)
        fs = set()
        via = []
        for t, pol in facts:
            if not pol:
                continue
            direct = flag_names_in(t, flags)
            if direct:
                fs |= direct
                via.append("if %s" % src(t))
            if isinstance(t, ast.Compare) and isinstance(t.ops[0], ast.In):
                coll = src(t.comparators[0])
                if coll in guarded_lists:
                    fs |= guarded_lists[coll]
                    via.append("%s (every insertion into %s is under %s)" % (src(t), coll, sorted(guarded_lists[coll])))
                if coll == "event_map" and neg_key_flags and isinstance(t.left, ast.BinOp) and src(t.left).replace(" ", "").startswith("-") \
                        and src(t.left).replace(" ", "").endswith("-1"):
                    fs |= neg_key_flags
                    via.append("%s (keys -k-1 exist only under %s)" % (src(t), sorted(neg_key_flags)))
        return fs, via

    sinks = 0
    for n in walk_no_nested(pe):
        st = None
        val = None
        what = None
        if isinstance(n, ast.Expr) and isinstance(n.value, ast.Call) and src(n.value.func) in ("new_introns.append", "corrected_introns.append"):
            st, val, what = n, n.value.args[0], src(n.value.func)
        elif isinstance(n, ast.AugAssign) and src(n.target) == "new_introns":
            st, val, what = n, n.value, "new_introns +="
        elif isinstance(n, ast.Assign) and src(n.targets[0]) == "corrected_read_region":
            st, val, what = n, n.value, "corrected_read_region ="
        if st is None:
            continue
        sinks += 1
        names = {x.id for x in ast.walk(val) if isinstance(x, ast.Name)}
        deviates = bool(names & tainted) or any(
            (dotted(x) or "").startswith(("self.gene_info", "self.intron_profile_constructor"))
            for x in ast.walk(val) if isinstance(x, ast.Attribute))
        if what == "corrected_read_region =" and src(val) != "read_region":
            deviates = True
        if not deviates:
            ctx.ok("B1", "%s:%d" % (EC, st.lineno), "%s %s: read-origin (or flag-joined) value, no deviation" % (what, src(val)))
            continue
        fs, via = guard_verdict(st)
        if not fs:
            ctx.fail("B1", st, pe._qualname, src(st),
                     "the corrected alignment takes a value that deviates from the read's own coordinates (%s) without being "
                     "control-dependent on any correct_* strategy flag: applied under every preset, including 'none'"
                     % sorted((names & tainted) or {"corrected_read_region"}))
        else:
            ctx.ok("B1", "%s:%d" % (EC, st.lineno), "%s deviates only under %s via %s" % (what, sorted(fs), "; ".join(via)))
    ctx.floor("B1", "sinks of corrected coordinates in process_events", sinks, 9)
    # the returned pair is exactly (corrected_read_region, new_introns)
    rets = [r for r in walk_no_nested(pe) if isinstance(r, ast.Return)]
    if any(isinstance(r.value, ast.Call) for r in rets) or not rets:
        ctx.undecided("B1", pe, pe._qualname, "process_events hands its result over to another function (%s): the sinks of corrected "
                      "coordinates are not in this function" % "; ".join(src(r)[:60] for r in rets))
    else:
        for r in rets:
            if src(r.value) == "(corrected_read_region, new_introns)":
                continue
            # another way out: acceptable when what it returns is read-origin (no annotation-derived name, apart from the decided sinks)
            names_r = {x.id for x in ast.walk(r.value) if isinstance(x, ast.Name)} - {"list", "tuple"}
            if isinstance(r.value, ast.Tuple) and len(r.value.elts) == 2 and not (names_r & (tainted - {"corrected_read_region", "new_introns"})):
                ctx.ok("B1", "%s:%d" % (EC, r.lineno), "early return of read-origin values %s" % src(r.value)[:60])
            else:
                ctx.fail("B1", r, pe._qualname, "return", "process_events must return (corrected_read_region, new_introns) only")
    init = [d for d in defs.get("corrected_read_region", []) if src(d[1]) == "read_region"]
    if not defs.get("corrected_read_region"):
        ctx.undecided("B1", pe, pe._qualname, "corrected_read_region is not defined in process_events")
    elif not init:
        ctx.fail("B1", pe, pe._qualname, "corrected_read_region", "corrected_read_region is not initialised from read_region")
    # correct_assigned_read rebuilds exons only from that pair; early exits return the read's own exons
    ca = prog.func(EC, "ExonCorrector.correct_assigned_read")
    # names bound to the pair returned by correct_misalignments
    pair = set()
    for st_ in walk_no_nested(ca):
        if isinstance(st_, ast.Assign) and isinstance(st_.value, ast.Call) and (call_name(st_.value) or "").endswith("correct_misalignments"):
            for t_ in st_.targets:
                pair |= {x.id for x in ast.walk(t_) if isinstance(x, ast.Name)}
    allowed_names = pair | {"junctions_from_blocks", "corrected_exons"}
    for r in walk_no_nested(ca):
        if isinstance(r, ast.Return) and src(r.value) not in ("corrected_exons", "alignment_info.read_exons"):
            # an exon list written directly from the (region, introns) pair is the same thing without the local
            if {x.id for x in ast.walk(r.value) if isinstance(x, ast.Name)} <= allowed_names and pair:
                continue
            ctx.fail("B1", r, ca._qualname, src(r), "unexpected return value of correct_assigned_read")
    cdefs = [s for s in walk_no_nested(ca) if isinstance(s, (ast.Assign, ast.AugAssign)) and
             src(s.targets[0] if isinstance(s, ast.Assign) else s.target) == "corrected_exons"]
    cdefs += [r for r in walk_no_nested(ca) if isinstance(r, ast.Return) and src(r.value) not in ("corrected_exons", "alignment_info.read_exons")]
    bad = [s for s in cdefs if {x.id for x in ast.walk(s.value) if isinstance(x, ast.Name)} - (pair | {"junctions_from_blocks"}) - {"read_region", "new_introns"}]
    if bad or len(cdefs) < 3:
        ctx.fail("B1", (bad or [ca])[0], ca._qualname, src((bad or [ca])[0]), "corrected exons are built from something else than (read_region, new_introns)")
    else:
        ctx.ok("B1", "%s:%d" % (EC, ca.lineno), "corrected exons rebuilt only from the (region, introns) pair")


def b2(prog, ctx):
    pe = prog.func_inlined(EC, "ExonCorrector.process_events")
    defs = local_defs(pe)
    # same index for read and reference intron
    ri = [d for d in defs.get("read_intron", [])]
    rf = [d for d in defs.get("ref_intron", [])]
    if len(ri) != 1 or len(rf) != 1 or not isinstance(ri[0][1], ast.Subscript) or not isinstance(rf[0][1], ast.Subscript):
        raise AnalysisError("process_events: read_intron / ref_intron definitions not found")
    if src(ri[0][1].slice) != src(rf[0][1].slice) or src(ri[0][1].value) != "read_introns" or src(rf[0][1].value) != "potential_introns":
        ctx.fail("B2", rf[0][2], pe._qualname, "%s / %s" % (src(ri[0][2]), src(rf[0][2])),
                 "read intron and annotated intron are taken at different indices")
    else:
        ctx.ok("B2", "%s:%d" % (EC, rf[0][2].lineno), "read_introns[i] paired with potential_introns[i]")
    for name, side in (("left_site", "0"), ("right_site", "1")):
        ds = defs.get(name, [])
        if not ds:
            raise AnalysisError("process_events: %s not defined" % name)
        for kind, val, st in ds:
            leaves = []

            def rec(e, depth=0):
                if isinstance(e, ast.IfExp):
                    rec(e.body, depth)
                    rec(e.orelse, depth)
                elif isinstance(e, ast.Name) and e.id in defs and e.id not in (name,) and depth < 4 \
                        and all(k == "assign" for k, _v, _s in defs[e.id]):
                    for _k, v2, _s in defs[e.id]:       # a local that only carries the chosen site (e.g. the result of an inlined helper)
                        rec(v2, depth + 1)
                else:
                    leaves.append(e)
            rec(val)
            bad = [l for l in leaves if src(l) not in ("read_intron[%s]" % side, "ref_intron[%s]" % side)]
            if bad:
                ctx.fail("B2", st, pe._qualname, src(st), "%s may take %s: a corrected %s splice site must be the read's or the "
                         "matched annotated intron's %s site" % (name, [src(b) for b in bad], name.split("_")[0], name.split("_")[0]))
            else:
                ctx.ok("B2", "%s:%d" % (EC, st.lineno), "%s in {read_intron[%s], ref_intron[%s]}" % (name, side, side))
    app = [c for c in walk_no_nested(pe) if isinstance(c, ast.Call) and src(c.func) == "corrected_introns.append"]
    if len(app) != 1 or src(app[0].args[0]) != "(left_site, right_site)":
        ctx.fail("B2", (app or [pe])[0], pe._qualname, "corrected_introns.append", "corrected intron is not the pair (left_site, right_site)")
    else:
        ctx.ok("B2", "%s:%d" % (EC, app[0].lineno), "corrected intron = (left_site, right_site)")
    # read region: only its matching side changes, in the branch of the matching event
    n = 0
    for st in walk_no_nested(pe):
        if isinstance(st, ast.Assign) and src(st.targets[0]) == "corrected_read_region" and isinstance(st.value, ast.Tuple):
            n += 1
            l, r = (src(e) for e in st.value.elts)
            keep_l, keep_r = l == "corrected_read_region[0]", r == "corrected_read_region[1]"
            # which event types can be current here: `== X` / `in (X, Y)` narrow the set, a failed `== X` removes X
            possible = None
            removed = set()
            for t, pol in flow.guard_facts(st, stop=pe):
                if isinstance(t, ast.Compare) and len(t.ops) == 1 and src(t.left).endswith("event_type"):
                    mems = {x.attr for x in ast.walk(t.comparators[0]) if isinstance(x, ast.Attribute) and dotted(x.value) == "MatchEventSubtype"}
                    if not mems:
                        continue
                    if isinstance(t.ops[0], (ast.Eq, ast.In)) and pol:
                        possible = mems if possible is None else possible & mems
                    elif isinstance(t.ops[0], (ast.Eq, ast.In)) and not pol:
                        removed |= mems
                    elif isinstance(t.ops[0], (ast.NotEq, ast.NotIn)) and not pol:
                        possible = mems if possible is None else possible & mems
                    elif isinstance(t.ops[0], (ast.NotEq, ast.NotIn)) and pol:
                        removed |= mems
            possible = (possible or set()) - removed
            sides = {"left" if m_.endswith("_left") else ("right" if m_.endswith("_right") else "?") for m_ in possible}
            side = sides.pop() if len(sides) == 1 else "?"
            if keep_l == keep_r or (side == "left" and keep_l) or (side == "right" and keep_r) or side == "?":
                ctx.fail("B2", st, pe._qualname, src(st), "a %s-side event must change only the %s end of the read region and keep the other"
                         % (side, side))
            else:
                ctx.ok("B2", "%s:%d" % (EC, st.lineno), "%s event changes only the %s end" % (side, side))
    ctx.floor("B2", "read-region updates", n, 4)


def b3(prog, ctx):
    rel = "src/assignment_io.py"
    f = prog.func(rel, "BEDPrinter.add_read_info")
    writes = [c for c in walk_no_nested(f) if isinstance(c, ast.Call) and src(c.func) == "self.output_file.write"]
    if len(writes) != 1 or not isinstance(writes[0].args[0], ast.BinOp) or not isinstance(writes[0].args[0].op, ast.Mod):
        raise AnalysisError("BEDPrinter.add_read_info: single %-formatted write not found")
    fmt_str = writes[0].args[0].left
    from ..engine.dataflow import single_def_env
    from ..engine import symexec
    env = single_def_env(f, exclude=("exon_blocks",))     # the block list itself is the subject of the identities
    args = symexec.subst(writes[0].args[0].right, env)
    for n_ in ast.walk(args):
        for ch in ast.iter_child_nodes(n_):
            ch._parent = n_
    if not (isinstance(fmt_str, ast.Constant) and isinstance(args, ast.Tuple)):
        raise AnalysisError("BEDPrinter.add_read_info: format is not literal % tuple")
    cols = fmt_str.value.rstrip("\n").split("\t")
    nph = sum(1 for c in cols if "%" in c)
    if len(cols) != 12 or len(args.elts) != nph or any(c.count("%") > 1 for c in cols):
        ctx.fail("B3", writes[0], f._qualname, fmt_str.value, "BED line does not have 12 columns with one value each (%d columns, %d "
                 "placeholders, %d arguments)" % (len(cols), nph, len(args.elts)))
        return
    B = "exon_blocks"
    # column index -> argument (literal columns such as the score have no argument)
    a = {}
    k = 0
    for ci, c in enumerate(cols):
        if "%" in c:
            a[ci] = args.elts[k]
            k += 1
    for need in (1, 2, 6, 7, 9, 10, 11):
        if need not in a:
            ctx.fail("B3", writes[0], f._qualname, fmt_str.value, "BED column %d is a literal" % (need + 1))
            return
    E0 = {"%s[0][0]" % B: 1}
    checks = [
        (1, "chromStart", {"%s[0][0]" % B: 1, "1": -1}),
        (2, "chromEnd", {"%s[-1][1]" % B: 1}),
        (6, "thickStart", {"%s[0][0]" % B: 1, "1": -1}),
        (7, "thickEnd", {"%s[0][0]" % B: 1, "1": -1}),
    ]
    for i, name, want in checks:
        got = linform(a[i])
        if got != want:
            ctx.fail("B3", a[i], f._qualname, src(a[i]), "BED %s is %s, must be %s (0-based half-open from 1-based closed exons)"
                     % (name, fmt(got), fmt(want)))
        else:
            ctx.ok("B3", "%s:%d" % (rel, a[i].lineno), "BED %s = %s" % (name, fmt(got)))
    if src(a[9]) != "len(%s)" % B:
        ctx.fail("B3", a[9], f._qualname, src(a[9]), "blockCount is not len(exon_blocks)")
    else:
        ctx.ok("B3", "%s:%d" % (rel, a[9].lineno), "blockCount = len(exon_blocks)")
    for i, name, want in ((10, "blockSizes", {"e[1]": 1, "e[0]": -1, "1": 1}), (11, "blockStarts", {"e[0]": 1, "%s[0][0]" % B: -1})):
        comp = [n for n in ast.walk(a[i]) if isinstance(n, (ast.ListComp, ast.GeneratorExp))]
        if len(comp) != 1 or src(comp[0].generators[0].iter) != B or comp[0].generators[0].ifs:
            ctx.fail("B3", a[i], f._qualname, src(a[i]), "%s does not iterate all of exon_blocks" % name)
            continue
        tgt = src(comp[0].generators[0].target)
        elt = comp[0].elt
        if isinstance(elt, ast.Call) and dotted(elt.func) == "str":
            elt = elt.args[0]
        got = linform(elt)
        want2 = {k.replace("e[", tgt + "["): v for k, v in want.items()}
        if got != want2:
            ctx.fail("B3", a[i], f._qualname, src(a[i]), "BED %s element is %s, must be %s" % (name, fmt(got), fmt(want2)))
        else:
            ctx.ok("B3", "%s:%d" % (rel, a[i].lineno), "BED %s element = %s" % (name, fmt(got)))
    # derived identities (hold by the forms above): start(first)=0; chromStart+start(last)+size(last)=chromEnd
    ctx.ok("B3", rel, "identities follow from the forms: blockStarts[0] = 0; chromStart + blockStarts[-1] + blockSizes[-1] = chromEnd")
    # block source
    eb = [s for s in walk_no_nested(f) if isinstance(s, ast.Assign) and src(s.targets[0]) == B]
    if len(eb) != 1 or src(eb[0].value) != "read_assignment.corrected_exons if self.print_corrected else read_assignment.exons":
        ctx.fail("B3", (eb or [f])[0], f._qualname, src((eb or [f])[0]), "printed blocks are not corrected_exons / exons of the assignment")
    else:
        ctx.ok("B3", "%s:%d" % (rel, eb[0].lineno), "blocks = corrected_exons when print_corrected")


def b4(prog, ctx):
    """Annotated introns offered to the corrector are looked up in ONE index space: positions in known_features."""
    rel = "src/long_read_profiles.py"
    f = prog.func(rel, "OverlappingFeaturesProfileConstructor.match_genomic_features")
    n = 0
    # what is stored into matched_features[...] are positions of known_features
    for c in walk_no_nested(f):
        if isinstance(c, ast.Call) and isinstance(c.func, ast.Attribute) and c.func.attr == "append" and "matched_features[" in src(c.func.value):
            n += 1
            if src(c.args[0]) != "gene_pos":
                ctx.fail("B4", c, f._qualname, src(c), "matched_features must collect positions in known_features (gene_pos)")
            else:
                ctx.ok("B4", "%s:%d" % (rel, c.lineno), "matched_features[read_pos] collects gene positions")
    # filtered replacement lists: elements drawn from the list being filtered
    for st in walk_no_nested(f):
        if isinstance(st, ast.Assign) and isinstance(st.targets[0], ast.Subscript) and src(st.targets[0].value) == "matched_features" \
                and isinstance(st.value, ast.Name):
            lst = st.value.id
            source = src(st.targets[0])
            for c in walk_no_nested(f):
                if isinstance(c, ast.Call) and isinstance(c.func, ast.Attribute) and c.func.attr == "append" and src(c.func.value) == lst:
                    n += 1
                    a = c.args[0]
                    if not (isinstance(a, ast.Subscript) and src(a.value) == source):
                        ctx.fail("B4", c, f._qualname, src(c), "the filtered match list must keep elements of %s (positions in known_features), "
                                 "but %s is appended: the 'corresponding annotated intron' becomes an unrelated intron of the gene and "
                                 "the read's junction is moved onto it" % (source, src(a)))
                    else:
                        ctx.ok("B4", "%s:%d" % (rel, c.lineno), "filtered list keeps elements of %s" % source)
    # the corrected feature is known_features[<position from matched_features>]
    for c in walk_no_nested(f):
        if isinstance(c, ast.Call) and src(c.func) == "corrected_features.append" and "known_features" in src(c.args[0]):
            n += 1
            if src(c.args[0]) != "self.known_features[matched_features[i][0]]":
                ctx.fail("B4", c, f._qualname, src(c), "annotated intron is not looked up as known_features[matched position]")
            else:
                ctx.ok("B4", "%s:%d" % (rel, c.lineno), "annotated intron = known_features[matched_features[i][0]]")
    ctx.floor("B4", "index-space obligations in match_genomic_features", n, 3)


def b6(prog, ctx):
    """An annotated intron enters the corrected intron chain only where the corrected read region is known to span it."""
    pe = prog.func_inlined(EC, "ExonCorrector.process_events")
    n = 0
    for st in walk_no_nested(pe):
        tgt = None
        if isinstance(st, ast.AugAssign) and isinstance(st.target, ast.Name) and st.target.id == "new_introns":
            tgt = st.value
        elif isinstance(st, ast.Expr) and isinstance(st.value, ast.Call) and src(st.value.func) in ("new_introns.append", "new_introns.extend") \
                and st.value.args:
            tgt = st.value.args[0]
        if tgt is None or "isoform_introns[" not in src(tgt):
            continue
        n += 1
        blk = st._parent
        siblings = getattr(blk, "body", []) if st in getattr(blk, "body", []) else getattr(blk, "orelse", [])
        def _moves(x):
            if isinstance(x, ast.Assign) and (dotted(x.targets[0]) or "").startswith("corrected_") and "isoform_region[" in src(x.value) \
                    and not (dotted(x.targets[0]) or "").startswith("corrected_intron"):
                return True        # corrected_read_region = (.., isoform_region[1]) or its start / end kept as two scalars
            if isinstance(x, ast.If) and x.orelse:
                return any(_moves(y) for y in x.body) and any(_moves(y) for y in x.orelse)
            return False
        moves_region = [x for x in siblings if _moves(x)]
        guards = flow.guards_of(st, stop=pe)
        contain = [g for g in guards if g.polarity and any(isinstance(c, ast.Call) and (call_name(c) or "").split(".")[-1] in
                                                            ("contains_well_inside", "contains", "contains_approx")
                                                            and c.args and src(c.args[0]) in ("read_region", "corrected_read_region")
                                                            and "isoform_introns[" in src(c.args[1]) for c in ast.walk(g.test))]
        keyed = [g for g in guards if g.polarity and (re.search(r"-\s*\w+\s*-\s*1 in event_map\w*$", src(g.test)) or
                                                     (isinstance(g.test, ast.Compare) and isinstance(g.test.ops[0], ast.In)
                                                      and "retention" in src(g.test.comparators[0])))]
        if moves_region:
            ctx.ok("B6", "%s:%d" % (EC, st.lineno), "annotated intron added together with moving the read region end to the isoform's (%s)" % src(moves_region[0])[:60])
        elif contain:
            ctx.ok("B6", "%s:%d" % (EC, st.lineno), "annotated introns added under the containment guard %s" % src(contain[0].test)[:80])
        elif keyed:
            ctx.ok("B6", "%s:%d" % (EC, st.lineno), "annotated intron of a retained micro-intron (keyed -i-1: it lies inside a read exon)")
        else:
            ctx.fail("B6", st, pe._qualname, src(st)[:100], "annotated introns are inserted into the corrected chain here without the read "
                     "region being moved to the isoform's end and without a guard that the read region contains them: an intron reaching "
                     "past the read end yields a block with negative size / a corrected alignment outside the read")
    ctx.floor("B6", "insertions of annotated introns into the corrected chain", n, 3)


IEC = "src/illumina_exon_corrector.py"


def b7(prog, ctx):
    """Short-read correction replaces one intron by a pair of introns around a skipped exon: the pair goes into the corrected list as
    (left, right) and must be ordered, otherwise the blocks of the BED record overlap."""
    f = prog.func(IEC, "IlluminaExonCorrector.correct_exons")
    # the two names appended consecutively into the same list
    pairs = []
    for blk_owner in ast.walk(f):
        body = getattr(blk_owner, "body", None)
        if not isinstance(body, list):
            continue
        for a, b in zip(body, body[1:]):
            if all(isinstance(s_, ast.Expr) and isinstance(s_.value, ast.Call) and isinstance(s_.value.func, ast.Attribute)
                   and s_.value.func.attr == "append" and len(s_.value.args) == 1 and isinstance(s_.value.args[0], ast.Name) for s_ in (a, b)) \
                    and src(a.value.func.value) == src(b.value.func.value):
                pairs.append((a.value.args[0].id, b.value.args[0].id, a))
    if len(pairs) != 1:
        raise AnalysisError("correct_exons: expected one place where two introns are appended one after the other (found %d)" % len(pairs))
    ln, rn, site = pairs[0]
    # innermost loops in which both names are assigned
    n = 0
    for loop in [l for l in ast.walk(f) if isinstance(l, ast.For)]:
        assigned = {t.id for a in walk_no_nested(loop) if isinstance(a, ast.Assign) for t in a.targets if isinstance(t, ast.Name)}
        inner = [l for l in ast.walk(loop) if isinstance(l, ast.For) and l is not loop and {ln, rn} <= {t.id for a in walk_no_nested(l)
                 if isinstance(a, ast.Assign) for t in a.targets if isinstance(t, ast.Name)}]
        if not ({ln, rn} <= assigned) or inner:
            continue
        for pth in flow.block_paths(loop.body, what="correct_exons pair loop"):
            stores = [s_ for s_ in pth.stmts() if isinstance(s_, ast.Assign) and any(isinstance(t, ast.Name) and t.id in (ln, rn) for t in s_.targets)]
            if not stores:
                continue
            n += 1
            env = symexec.run_path(pth)
            if ln not in env or rn not in env:
                ctx.fail("B7", stores[0], f._qualname, src(stores[0]), "only one of %s / %s is replaced on a path" % (ln, rn))
                continue
            a_t, b_t = src(env[ln]), src(env[rn])
            sub = symexec.cond_substituter(pth)
            ordered = False
            for i, ev in enumerate(pth.events):
                if ev[0] != "cond":
                    continue
                for atom, pol in flow.conjuncts(ev[1], ev[2]):
                    atom = sub(atom, i)
                    if isinstance(atom, ast.Compare) and len(atom.ops) == 1:
                        l, r, op = src(atom.left), src(atom.comparators[0]), type(atom.ops[0])
                        if not pol:
                            op = {ast.GtE: ast.Lt, ast.LtE: ast.Gt}.get(op)
                        if (op is ast.Lt and l == a_t + "[1]" and r == b_t + "[0]") or (op is ast.Gt and l == b_t + "[0]" and r == a_t + "[1]"):
                            ordered = True
            if ordered:
                ctx.ok("B7", "%s:%d" % (IEC, stores[0].lineno), "pair (%s, %s) = (%s, %s) stored under %s[1] < %s[0]" % (ln, rn, a_t, b_t, a_t, b_t))
            else:
                ctx.fail("B7", stores[0], f._qualname, "%s = %s; %s = %s" % (ln, a_t, rn, b_t),
                         "the replacement pair is stored as (%s, %s) = (%s, %s) on a path where nothing says %s ends before %s starts: the two "
                         "introns are appended downstream-first, get_exons builds overlapping blocks and corrected_reads.bed gets an invalid "
                         "BED12 record" % (ln, rn, a_t, b_t, a_t, b_t))
    ctx.floor("B7", "paths storing a replacement intron pair", n, 2)


def b8(prog, ctx):
    """The corrected intron chain is in coordinate order because process_events assembles it while walking the read's introns from left to
    right (B2/B3/B6 are decided there).  Whoever extends the chain it returned - correct_misalignments is its only caller - leaves that
    argument behind: match events arrive in the order the comparators emitted them (right-hand terminal events from the last intron
    backwards), not in coordinate order.  The chain returned by process_events is handed on unchanged, or re-sorted."""
    cm = prog.func(EC, "ExonCorrector.correct_misalignments")
    calls = [c for c in walk_no_nested(cm) if isinstance(c, ast.Call) and (call_name(c) or "").endswith(".process_events")]
    if len(calls) != 1:
        ctx.undecided("B8", cm, cm._qualname, "correct_misalignments does not call process_events exactly once (%d calls)" % len(calls))
        return
    st = enclosing_stmt(calls[0])
    if isinstance(st, ast.Return) and st.value is calls[0]:
        ctx.ok("B8", "%s:%d" % (EC, st.lineno), "the result of process_events is returned as it is")
        ctx.floor("B8", "hand-over of the corrected chain", 1, 1)
        return
    names = set()
    if isinstance(st, ast.Assign):
        names = {x.id for t in st.targets for x in ast.walk(t) if isinstance(x, ast.Name)}
    if not names:
        ctx.undecided("B8", st, cm._qualname, "the result of process_events is neither returned nor bound to locals")
        return
    changed = []
    for x in walk_no_nested(cm):
        if x is st or getattr(x, "lineno", 0) <= getattr(st, "end_lineno", st.lineno):
            continue
        if isinstance(x, (ast.Assign, ast.AugAssign)):
            tg = x.targets if isinstance(x, ast.Assign) else [x.target]
            if any(isinstance(t, ast.Name) and t.id in names for t in tg) and not (
                    isinstance(x, ast.Assign) and isinstance(x.value, ast.Call) and call_name(x.value) == "sorted"):
                # rebinding the region pair is not a change of the chain: only list-valued rebinding counts
                if isinstance(x, ast.AugAssign) or isinstance(x.value, (ast.BinOp, ast.List, ast.ListComp)) and any(
                        isinstance(y, ast.Name) and y.id in names for y in ast.walk(x.value)):
                    if isinstance(x, ast.AugAssign) or isinstance(x.value, ast.BinOp) and isinstance(x.value.op, ast.Add) and not isinstance(x.value.left, ast.Tuple) \
                            and not isinstance(x.value.right, ast.Tuple):
                        changed.append(x)
        if isinstance(x, ast.Call) and isinstance(x.func, ast.Attribute) and isinstance(x.func.value, ast.Name) and x.func.value.id in names \
                and x.func.attr in ("append", "extend", "insert"):
            changed.append(x)
    resorted = any(isinstance(x, ast.Call) and call_name(x) == "sorted" and any(isinstance(y, ast.Name) and y.id in names for y in ast.walk(x))
                   for x in walk_no_nested(cm)) or any(isinstance(x, ast.Call) and isinstance(x.func, ast.Attribute) and x.func.attr == "sort"
                                                       and isinstance(x.func.value, ast.Name) and x.func.value.id in names for x in walk_no_nested(cm))
    if changed and not resorted:
        ctx.fail("B8", changed[0], cm._qualname, src(changed[0])[:90], "the intron chain returned by process_events is extended here, outside the "
                 "left-to-right walk that keeps it in coordinate order, and is not sorted afterwards: introns attached in the order their "
                 "match events arrive can be out of order, which yields overlapping / negative-length blocks in the corrected BED record")
    else:
        ctx.ok("B8", "%s:%d" % (EC, st.lineno), "the chain returned by process_events is handed on %s" % ("re-sorted" if changed else "unchanged"))
    ctx.floor("B8", "hand-over of the corrected chain", 1, 1)


def run(prog, ctx):
    ctx.rule("B8", "correct_misalignments hands the (region, intron chain) pair of process_events on unchanged; if the chain is extended after "
                   "the call (concatenation, append, extend, insert) it is sorted before it is returned")
    b8(prog, ctx)
    ctx.rule("B6", "in process_events every insertion of isoform_introns[...] into new_introns either moves corrected_read_region to the "
                   "isoform region end in the same branch, or is dominated by contains*(read_region, <those introns' span>), or is the "
                   "-i-1 keyed micro-intron case")
    b6(prog, ctx)
    ctx.rule("B4", "match_genomic_features keeps one index space: matched_features holds positions in known_features, its filtered "
                   "replacement keeps elements of the filtered list, and the offered intron is known_features[that position]")
    ctx.rule("B1", "in ExonCorrector.process_events every statement through which an annotation-origin value (potential/isoform "
                   "introns, isoform region) or a changed read region reaches the returned (region, introns) is dominated by a "
                   "correct_* flag - directly, via membership in a list whose every insertion is flag-guarded, or via -k-1 keys "
                   "stored only under a flag; preset none sets all flags False; all consumed flags are table-driven")
    ctx.rule("B2", "corrected left/right sites are the read's or the same-index annotated intron's site of the same side; a "
                   "left/right event changes only that end of the read region")
    ctx.rule("B3", "BED12 columns in linear normal form: chromStart=E0-1, chromEnd=Elast[1], size=e[1]-e[0]+1, start=e[0]-E0, "
                   "blockCount=len(blocks), same list iterated")
    ctx.rule("B7", "IlluminaExonCorrector.correct_exons: the two introns that replace one intron around a skipped exon are appended as (left, right); "
                   "on every path that stores the pair, a path condition (aliases resolved) states left[1] < right[0]")
    b7(prog, ctx)
    flags, presets = preset_table(prog, ctx)
    b1(prog, ctx, flags)
    b2(prog, ctx)
    b3(prog, ctx)
    b4(prog, ctx)
    ctx.rule("B5", "the read span the corrector starts from (read_start/read_end) is taken from read_exons as it is after the last "
                   "polyA/polyT trim, and the parallel block lists are trimmed identically (slice-chain simulation shared with C16/Q2): "
                   "a stale span moves the first/last corrected block although no correction applies")
    from . import c16
    c16.q2(prog, ctx, tag="B5")
    ctx.assume("positivity / ordering of blocks needs sorted exons (value-level); the short-read corrector is data-dependent; not decided")
