"""C06 - outputs independent of threads, hash seed, memory mode (structural part).

O1 order taint: the iteration order of a set with possibly-str elements never becomes observable (written, joined,
   positionally selected, compared, used to allocate ids) without passing an order-free operation
O2 ordered fan-in: pool results consumed in submission order; per-chromosome files merged in sorted order
O3 no process-wide state carried between the tasks of one worker
"""
import ast
import re

from ..engine.program import AnalysisError, dotted, src, walk_no_nested, call_name, shape, enclosing_function, enclosing_stmt
from ..engine import setorder
from . import c10, c15

DSP = "src/dataset_processor.py"

# Sinks found on the pinned tree and triaged by reading.  key = (module, function, kind-prefix, construct prefix)
TRIAGE = [
    (DSP, "DatasetProcessor.collect_reads", "hash-ordered sequence serialised", "write_list(list($)",
     "benign: the <save>_info group list is only ever re-read into a set (load_read_info wraps read_list in set(); verified on each run)"),
    (DSP, "collect_reads_in_parallel", "write inside hash-ordered loop", "for $ in $.read_groups",
     "benign: the <save>_<chr>_groups file is only re-read line by line into read_groups.add() (a set; verified on each run)"),
    ("src/isoform_assignment.py", "BasicReadAssignment.__eq__", "order-sensitive comparison", "self.isoforms == other.isoforms",
     "benign: both operands are list(set) built in one process by the same code from isoform matches created in sorted-id order; "
     "used only to recognise exact duplicate records"),
    ("src/isoform_assignment.py", "BasicReadAssignment.serialize", "hash-ordered sequence serialised", "write_list(self.isoforms",
     "benign: the only consumers of the multimapper records' isoforms are set.update() and __eq__ (above)"),
    ("src/isoform_assignment.py", "BasicReadAssignment.serialize", "hash-ordered sequence serialised", "write_list(self.genes",
     "benign: the only consumer of genes is set.update() in filter_assignments"),
    ("src/long_read_assigner.py", "LongReadAssigner.resolve_by_nucleotide_score", "element selected by position", "$[0]",
     "benign: only scores[0][1], the maximal score, is read - equal for all tied elements (verified: the subscript is [0][1] "
     "after sorting by x[1]); the list itself is re-sorted without key before use"),
    ("src/long_read_counter.py", "AssignedFeatureCounter.add_read_info", "element selected by position", "list($)[0]",
     "benign: inside the is_unique() branch the feature set is a singleton (assignment-type invariant; recorded as assumption)"),
]


# index into TRIAGE -> the side conditions (keys of verify_triage_side_conditions) that entry depends on
TRIAGE_CONDITIONS = {0: ["info file re-read into a set"], 1: ["groups file re-read into a set"],
                     2: ["genes/isoforms consumed by set.update only"], 3: ["genes/isoforms consumed by set.update only"],
                     4: ["genes/isoforms consumed by set.update only"], 5: ["only scores[0][1] is read"],
                     6: ["list(feature_ids)[0] under is_unique()"]}


def _helper_of(prog, rel, qual, f):
    """f is a helper extracted from the triaged function: a function of the same module that `qual` calls (directly or through one more
    helper) and that nothing else calls."""
    owner = prog.try_func(rel, qual)
    if owner is None or getattr(f, "_module", None) is None or f._module.rel != rel:
        return False
    mod = prog.module(rel)

    def callees(g):
        return {(call_name(c) or "").split(".")[-1] for c in ast.walk(g) if isinstance(c, ast.Call)}
    level1 = callees(owner)
    if f.name in level1:
        reach = True
    else:
        reach = any(f.name in callees(h) for n_, h in mod.functions.items() if h.name in level1 and h is not owner)
    if not reach:
        return False
    others = [g for g in mod.functions.values() if g is not f and g is not owner and f.name in callees(g) and g.name not in level1]
    return not others


def verify_triage_side_conditions(prog, ctx):
    f = prog.func(DSP, "DatasetProcessor.load_read_info")
    ok1 = any(isinstance(s, ast.Assign) and src(s.value).startswith("set(read_list(") for s in walk_no_nested(f))
    g = prog.func_inlined(DSP, "collect_reads_in_parallel")
    # the per-chromosome groups file is only read back line by line into <grouper>.read_groups.add()
    ok2 = any(isinstance(c, ast.Call) and isinstance(c.func, ast.Attribute) and c.func.attr == "add" and src(c.func.value).endswith(".read_groups")
              for c in walk_no_nested(g)) and \
        any(isinstance(l, ast.For) and ((isinstance(l.iter, ast.Call) and call_name(l.iter) == "open") or (
            isinstance(l.iter, ast.Name) and any(isinstance(w, ast.With) and any(
                isinstance(i.optional_vars, ast.Name) and i.optional_vars.id == l.iter.id and isinstance(i.context_expr, ast.Call)
                and call_name(i.context_expr) == "open" for i in w.items) for w in walk_no_nested(g)))) for l in walk_no_nested(g))
    r = prog.func("src/long_read_assigner.py", "LongReadAssigner.resolve_by_nucleotide_score")
    # of the sorted score list only [0][1] (the maximal score) is read, never [0][0]
    firsts = [n for n in walk_no_nested(r) if isinstance(n, ast.Subscript) and isinstance(n.value, ast.Subscript)
              and src(n.value.slice) == "0" and isinstance(n.value.value, ast.Name)]
    ok3 = bool(firsts) and all(src(n.slice) == "1" for n in firsts)
    a = prog.func("src/long_read_counter.py", "AssignedFeatureCounter.add_read_info")
    ok4 = False
    for n in walk_no_nested(a):
        if isinstance(n, ast.Subscript) and shape(a, n) == "list($)[0]":
            st = n
            while not isinstance(st, ast.stmt):
                st = st._parent
            from ..engine import flow
            ok4 = any(p and src(t).endswith(".is_unique()") for t, p in flow.guard_facts(st, stop=a))
    fa = prog.func("src/multimap_resolver.py", "MultimapResolver.filter_assignments")
    upd = [shape(fa, c) for c in walk_no_nested(fa) if isinstance(c, ast.Call) and isinstance(c.func, ast.Attribute) and c.func.attr == "update"]
    ok5 = "$.update($.genes)" in upd and "$.update($.isoforms)" in upd
    users = []
    for m, q, fn in prog.all_functions():
        for n in walk_no_nested(fn):
            if isinstance(n, ast.Attribute) and n.attr in ("isoforms", "genes") and isinstance(n.ctx, ast.Load) \
                    and q.split(".")[0] not in ("BasicReadAssignment",) and m.rel in ("src/multimap_resolver.py", DSP):
                # an equality key: the function only returns a tuple that contains tuple(<x>.isoforms) - the same use as __eq__
                par = getattr(n, "_parent", None)
                rets = [r for r in walk_no_nested(fn) if isinstance(r, ast.Return)]
                key_fn = isinstance(par, ast.Call) and call_name(par) == "tuple" and len(rets) == 1 and isinstance(rets[0].value, ast.Tuple) \
                    and any(x is par for x in rets[0].value.elts) and len(fn.body) <= 2
                if key_fn:
                    continue
                users.append((q, src(n)))
    ok6 = all(q == "MultimapResolver.filter_assignments" for q, _ in users)
    return {"info file re-read into a set": ok1, "groups file re-read into a set": ok2, "only scores[0][1] is read": ok3,
            "list(feature_ids)[0] under is_unique()": ok4, "genes/isoforms consumed by set.update only": ok5 and ok6}, users


def o1(prog, ctx):
    census = setorder.Census(prog)
    taint = setorder.SeqTaint(census)
    side, users = verify_triage_side_conditions(prog, ctx)
    n_sites = 0
    n_str = 0
    for m, q, f, node, how, sexpr in census.sites():
        n_sites += 1
        if census.set_elem_kind(sexpr, f) != "INT":
            n_str += 1
    ctx.extra["o1_census"] = {"set_attributes": sorted(census.set_attrs), "dict_of_set_attributes": sorted(census.dictset_attrs),
                              "materialisation_sites": n_sites, "with_possibly_str_elements": n_str,
                              "hash_ordered_attributes": {k: v[:120] for k, v in taint.attrs.items()}}
    used = set()
    for m, q, f, node, kind, origin in taint.sinks:
        text = shape(f, node).replace("\n", " ")       # local variable names do not matter
        text = re.sub(r"(?<![\w.$])[A-Za-z_]\w*(?=\.read_groups\b)", "$", text)     # ... nor whether the grouper is a local or a parameter
        hit = None
        for i, (tm, tq, tk, tc, why) in enumerate(TRIAGE):
            if tm == m.rel and (tq == q or _helper_of(prog, tm, tq, f)) and kind.startswith(tk) and text.startswith(tc):
                hit = i
        if hit is not None:
            used.add(hit)
            why = TRIAGE[hit][4]
            # each triage decision rests on its own side condition(s)
            needs = TRIAGE_CONDITIONS.get(hit, list(side))
            conds_ok = all(side[k] for k in needs)
            if conds_ok:
                ctx.ok("O1", "%s:%d" % (m.rel, node.lineno), "%s: %s -- triaged %s" % (kind, text[:70], why[:110]))
            else:
                bad = [k for k in needs if not side[k]]
                ctx.fail("O1", node, q, text[:100], "%s; the reason it was triaged benign no longer holds (%s)" % (kind, bad))
        else:
            ctx.fail("O1", node, q, text[:110],
                     "%s: the order comes from iterating a hash-ordered set with (possibly) str elements [%s]; the result differs "
                     "between PYTHONHASHSEED values / worker processes" % (kind, origin[:160]))
    ctx.floor("O1", "order-materialising uses of set-kind expressions", n_sites, 40)
    ctx.floor("O1", "triaged sinks still present", len(used), 3)
    # explicit hash() of strings
    for m, q, f in prog.all_functions():
        if m.rel == "src/read_mapper.py":
            continue
        for c in walk_no_nested(f):
            if isinstance(c, ast.Call) and call_name(c) == "hash":
                ctx.fail("O1", c, q, src(c), "hash() of a value is used directly: str hashes differ between processes / seeds")
    ctx.note("read_mapper.align_fasta derives BAM names from hash(str); the mapping stage needs minimap2 and is not analysed (stage not claimed)")


def o2(prog, ctx):
    n = 0
    for m, q, f in prog.all_functions():
        for c in walk_no_nested(f):
            cn = call_name(c) or ""
            if cn.endswith("as_completed") or cn.endswith(".submit") or cn.endswith("add_done_callback") or cn.endswith("imap_unordered"):
                ctx.fail("O2", c, q, src(c)[:90], "pool results are consumed in completion order: output order depends on the schedule")
            if cn.endswith(".map") and "proc" in cn:
                n += 1
                ctx.ok("O2", "%s:%d" % (m.rel, c.lineno), "%s: pool results consumed through map() (submission order)" % q)
    ctx.floor("O2", "ProcessPoolExecutor.map call sites", n, 1)
    mf = prog.func_inlined("src/file_utils.py", "merge_files")           # helpers of the module expanded in place
    # the loop that copies the per-chromosome parts must run over a sequence sorted with the natural (digit-aware) key
    def _copies(l):
        return any(isinstance(c, ast.Call) and ((call_name(c) or "").endswith("copyfileobj") or (isinstance(c.func, ast.Attribute)
                   and c.func.attr in ("write", "writelines"))) for c in ast.walk(l)) and \
            any(isinstance(c, ast.Call) and (call_name(c) or "").split(".")[-1] == "open" for c in ast.walk(l))
    copy_loops = [l for l in walk_no_nested(mf) if isinstance(l, ast.For) and _copies(l)
                  and not any(l2 is not l and isinstance(l2, ast.For) and _copies(l2) and any(x is l for x in ast.walk(l2)) for l2 in walk_no_nested(mf))]
    verdict = "no loop copying the parts found"
    okm = False
    if len(copy_loops) != 1:
        ctx.undecided("O2", mf, "merge_files", "found %d loops that open and copy the per-chromosome parts (helpers inlined), expected one" % len(copy_loops))
        okm = None
    if len(copy_loops) == 1:
        it = copy_loops[0].iter
        if isinstance(it, ast.Call) and call_name(it) == "enumerate" and it.args:
            it = it.args[0]
        key = None
        if isinstance(it, ast.Call) and call_name(it) == "sorted":
            key = next((k.value for k in it.keywords if k.arg == "key"), None)
            verdict = "sorted() without the natural key"
        elif isinstance(it, ast.Name):
            defs = [s_ for s_ in walk_no_nested(mf) if isinstance(s_, ast.Assign) and any(dotted(t) == it.id for t in s_.targets)
                    and s_.lineno < copy_loops[0].lineno]
            sorts = [c for c in walk_no_nested(mf) if isinstance(c, ast.Call) and src(c.func) == it.id + ".sort" and c.lineno < copy_loops[0].lineno]
            verdict = "the iterated list %s is neither sorted() nor .sort()ed before the loop" % it.id
            if sorts:
                key = next((k.value for k in sorts[-1].keywords if k.arg == "key"), None)
                verdict = ".sort() without the natural key"
            elif defs and isinstance(defs[-1].value, ast.Call) and call_name(defs[-1].value) == "sorted":
                key = next((k.value for k in defs[-1].value.keywords if k.arg == "key"), None)
                verdict = "sorted() without the natural key"
        if key is not None:
            ktext = src(key)
            if isinstance(key, ast.Name):
                kf = prog.modules[mf._module.rel].functions.get(key.id)
                ktext = src(kf) if kf is not None else ktext
            okm = ("isdigit" in ktext and "lower" in ktext) or ("\\d" in ktext and "int(" in ktext and "lower" in ktext)
            verdict = "merge order key is not the natural (digit-aware) order" if not okm else "ok"
    if okm is None:
        pass
    elif not okm:
        ctx.fail("O2", copy_loops[0] if copy_loops else mf, "merge_files", "order of the merged parts", "per-chromosome files are not concatenated "
                 "in the natural order of their names (%s): the merged order would follow the chromosome order of the reference / the task "
                 "schedule" % verdict)
    else:
        ctx.ok("O2", "src/file_utils.py:%d" % copy_loops[0].lineno, "merge_files copies the parts in natural-key order")
    gl = prog.func(DSP, "DatasetProcessor.get_chr_list")
    if "sorted(" not in src(gl) or "key=" not in src(gl):
        ctx.fail("O2", gl, gl._qualname, "chr list", "chromosome list is not sorted")
    else:
        ctx.ok("O2", "%s:%d" % (DSP, gl.lineno), "chromosome tasks submitted in a sorted order (ties keep FASTA order: input-determined)")
    # merged results loops accumulate commutatively
    for q in ("DatasetProcessor.collect_reads", "DatasetProcessor.process_assigned_reads"):
        f = prog.func_inlined(DSP, q)
        dp_meths = prog.methods_of(prog.cls(DSP, "DatasetProcessor"), inherited=False)

        def yields_map(call):
            """a (pool or builtin) map call, or a helper of the class all of whose returns are such calls"""
            last = (call_name(call) or "").split(".")[-1]
            if last == "map":
                return True
            h = dp_meths.get(last) if isinstance(call.func, ast.Attribute) and dotted(call.func.value) == "self" else \
                (prog.module(DSP).functions.get(last) if isinstance(call.func, ast.Name) else None)
            if h is not None:
                rets = [r for r in walk_no_nested(h) if isinstance(r, ast.Return)]
                return bool(rets) and all(isinstance(r.value, ast.Call) and (call_name(r.value) or "").split(".")[-1] == "map" for r in rets)
            return False
        res_names = {t.id for st_ in walk_no_nested(f) if isinstance(st_, ast.Assign) and isinstance(st_.value, ast.Call)
                     and yields_map(st_.value) for t in st_.targets if isinstance(t, ast.Name)}
        loops = [l for l in walk_no_nested(f) if isinstance(l, ast.For) and isinstance(l.iter, ast.Name) and l.iter.id in res_names]
        if len(loops) != 1:
            ctx.undecided("O2", f, q, "found %d loops over the results of the (pool) map, expected one" % len(loops))
        else:
            ctx.ok("O2", "%s:%d" % (DSP, loops[0].lineno), "%s consumes results sequentially in submission order" % q)


def o7(prog, ctx):
    """Numbers handed out by a per-process counter (ReadAssignment.assignment_id_generator) name an object; their ORDER is the order in
    which one worker process happened to create objects and differs with --threads.  Such a number is copied, serialised and compared for
    equality - it is never ordered (<, >, min / max / sorted keys)."""
    ISO_ = "src/isoform_assignment.py"
    # attributes assigned from a class-level id generator's increment()
    gens = set()
    for m, q, c in prog.all_classes():
        for st in c.body:
            if isinstance(st, ast.Assign) and isinstance(st.value, ast.Call) and (call_name(st.value) or "").endswith("IDDistributor") \
                    and isinstance(st.targets[0], ast.Name):
                gens.add("%s.%s" % (c.name, st.targets[0].id))
    id_attrs = set()
    for m, q, f in prog.all_functions():
        for st in walk_no_nested(f):
            if isinstance(st, ast.Assign) and isinstance(st.value, ast.Call) and isinstance(st.value.func, ast.Attribute) \
                    and st.value.func.attr == "increment" and (dotted(st.value.func.value) or "") in gens \
                    and isinstance(st.targets[0], ast.Attribute):
                id_attrs.add(st.targets[0].attr)
    if not id_attrs:
        ctx.undecided("O7", prog.module(ISO_).tree, "ReadAssignment", "no attribute numbered from a class-level id generator found")
        return
    n = 0
    for m, q, f in prog.all_functions():
        for x in walk_no_nested(f):
            if not (isinstance(x, ast.Attribute) and x.attr in id_attrs and isinstance(x.ctx, ast.Load)):
                continue
            n += 1
            cur, bad = x, None
            while cur is not None and not isinstance(cur, ast.stmt):
                par = getattr(cur, "_parent", None)
                if isinstance(par, ast.Compare) and any(isinstance(o, (ast.Lt, ast.LtE, ast.Gt, ast.GtE)) for o in par.ops):
                    bad = "an ordering comparison"
                if isinstance(par, ast.Lambda):
                    gp = getattr(par, "_parent", None)
                    if isinstance(gp, ast.keyword) and gp.arg == "key":
                        bad = "a sort / min / max key"
                if isinstance(par, ast.Call) and call_name(par) in ("min", "max", "sorted") and cur in par.args:
                    bad = "an argument of %s()" % call_name(par)
                cur = par
            if bad:
                ctx.fail("O7", x, q, src(enclosing_stmt(x))[:90], "%s is used in %s: the number comes from a counter every worker process keeps for "
                         "itself, so which of two objects is 'smaller' depends on --threads and on which worker handled which chromosome"
                         % (src(x), bad))
    # a nested function / lambda body is not walked by walk_no_nested of its host: look into lambdas explicitly
    for rel in sorted(prog.modules):
        for lam in [l for l in ast.walk(prog.modules[rel].tree) if isinstance(l, ast.Lambda)]:
            gp = getattr(lam, "_parent", None)
            if isinstance(gp, ast.keyword) and gp.arg == "key":
                for x in ast.walk(lam.body):
                    if isinstance(x, ast.Attribute) and x.attr in id_attrs:
                        n += 1
                        fn = enclosing_function(lam)
                        ctx.fail("O7", x, getattr(fn, "_qualname", "<module>"), src(gp)[:90], "%s is used as a sort / min / max key: the number "
                                 "comes from a counter every worker process keeps for itself, so the element chosen depends on --threads"
                                 % src(x))
    if not [f_ for f_ in ctx.findings if f_.rule == "O7"]:
        ctx.ok("O7", ISO_, "%d uses of %s: copied, serialised or compared for equality only" % (n, sorted(id_attrs)))
    ctx.floor("O7", "uses of per-process object numbers", n, 5)


def run(prog, ctx):
    ctx.rule("O7", "an attribute numbered by <Class>.<generator>.increment() (per-process counter) is never an operand of <, <=, >, >= and "
                   "never part of a key= of min / max / sorted / sort")
    o7(prog, ctx)
    ctx.rule("O5", "every file an object opens in append mode is truncated by its constructor (rule R7 of C07): a second identical run into the "
                   "same output folder must not add its rows to the rows of the first")
    from . import c07 as _c07
    _c07.r7(prog, ctx, tag="O5", why="a repeated run with the same command line into the same folder (--force) appends its rows to those of "
            "the previous run, so the two runs do not produce identical files")
    ctx.rule("O1", "set-kind expressions are inferred (locals, attributes by name, params via call sites, returns) with element kinds; "
                   "hash-dependent order is propagated from possibly-str sets through lists, dict insertion order, returns, "
                   "parameters and attributes; a sink is a write/join/serialisation, positional selection, enumerate, first-match "
                   "loop exit, id allocation or list comparison reached without an order-free operation (sorted without/with total "
                   "key, set(), len, sum, any/all, membership, commutative loop); each sink must be in the triage table with a "
                   "reason whose side conditions are re-verified")
    ctx.rule("O2", "ProcessPoolExecutor results only via map(); no as_completed/submit/callbacks; merge_files sorts by the natural "
                   "key before concatenation; chromosome list sorted; result loops sequential")
    ctx.rule("O3", "class-level / module-level mutable state modified at run time is re-initialised at the start of a chromosome "
                   "task or is in the benign table (same analysis as C10/S1, with the task as the loop body)")
    o1(prog, ctx)
    o2(prog, ctx)
    c10.s1_class_state(prog, ctx, tag="O3")
    ctx.rule("O4", "objects handed from pool workers to the parent are pickled: every class with a hand-written __getstate__/__setstate__ "
                   "pair restores each state position into the field it was taken from (otherwise --threads N > 1 yields other "
                   "objects than the in-process path of --threads 1); same analysis as C15/Z1 pickle state")
    n4 = c15.z1_pickle_state(prog, ctx, tag="O4")
    ctx.rule("O6", "memory modes: the compact multimapper record is read from the saved stream in the default mode and built from the full object "
                   "under --high_memory; the abridged reader takes every field from the wire position the full format writes it to (rule Z1 of "
                   "C15, object codecs) and assigns the same attributes as the in-memory constructor (rule M4 of C08)")
    from ..engine import wire as _wire
    c15.z1_objects(prog, ctx, _wire.WireCtx(prog), tag="O6")
    from . import c08 as _c08
    _c08.m4(prog, ctx, tag="O6")
    others = [q for m, q, f in prog.all_functions() if q.endswith(".__getstate__") or q.endswith(".__reduce__") or q.endswith(".__reduce_ex__")]
    if [q for q in others if q != "BasicReadAssignment.__getstate__"]:
        ctx.fail("O4", prog.func(*[(m.rel, q) for m, q, f in prog.all_functions() if q in others and q != "BasicReadAssignment.__getstate__"][0]),
                 others[0], "custom pickling", "a class with custom pickling that the O4 analysis does not cover: %s" % others)
    ctx.floor("O4", "pickle state positions", n4, 10)
    ctx.assume("byte-identity as such, float summation order and the behaviour of gffutils / pysam are not decided")
    ctx.assume("inside the is_unique() branch a read has exactly one feature (assignment-type invariant)")
    ctx.assume("attribute flow is tracked by attribute NAME (no type resolution): same-named attributes of different classes share taint")
