"""C07 - resuming an interrupted run yields the outputs of a clean run (structural part).

Typestate over marker ("lock") files: a marker says a stage's artefacts are complete; --resume skips work when it exists.
R1 finalise before mark: every writer object alive in a marker-creating function is explicitly closed on every path
   to the marker (__del__ does not count); every file-owning class closes all it owns in close()
R2 consume => invalidate: before per-stage artefacts are deleted (merge, clean-up) the markers attesting them are removed
R3 existence is not completion: an exists() test that lets --resume skip work tests a marker, is dominated by one,
   or tests a file that is published atomically (temp + os.replace)
R4 marker last: nothing is written after the marker in the marker-creating function
"""
import ast
import re

from ..engine.program import AnalysisError, dotted, src, walk_no_nested, call_name, enclosing_function, enclosing_stmt
from ..engine import flow

DSP = "src/dataset_processor.py"
WRITE_CALLS = ("write", "dump", "add_read_info", "add_gene_info", "serialize", "write_int", "write_list", "writelines")


# ---------------------------------------------------------------------------
# markers
# ---------------------------------------------------------------------------

def marker_sites(prog):
    """Statements of the idiom open(X, 'w').close()."""
    out = []
    for m, q, f in prog.all_functions():
        for st in walk_no_nested(f):
            if isinstance(st, ast.Expr) and isinstance(st.value, ast.Call) and isinstance(st.value.func, ast.Attribute) \
                    and st.value.func.attr == "close" and isinstance(st.value.func.value, ast.Call) \
                    and call_name(st.value.func.value) == "open" and len(st.value.func.value.args) >= 2 \
                    and isinstance(st.value.func.value.args[1], ast.Constant) and "w" in str(st.value.func.value.args[1].value):
                path = st.value.func.value.args[0]
                out.append((m, q, f, st, path))
    # a wrapper whose body creates the marker named by its parameter: every call of the wrapper is a marker-creating site
    wrappers = {}
    for m, q, f, st, path in out:
        params = [a.arg for a in f.args.args]
        if isinstance(path, ast.Name) and path.id in params and "." not in q and len([x for x in f.body if not isinstance(x, ast.Expr) or x is st]) <= 2:
            wrappers[f.name] = params.index(path.id)
    if wrappers:
        out = [x for x in out if x[2].name not in wrappers]
        for m, q, f in prog.all_functions():
            for st in walk_no_nested(f):
                if isinstance(st, ast.Expr) and isinstance(st.value, ast.Call) and (call_name(st.value) or "").split(".")[-1] in wrappers:
                    i = wrappers[(call_name(st.value) or "").split(".")[-1]]
                    if i < len(st.value.args):
                        out.append((m, q, f, st, st.value.args[i]))
    return out


def resolve_local(f, expr, before_line):
    """Follow a simple local name to its (last preceding) defining expression."""
    seen = 0
    while isinstance(expr, ast.Name) and seen < 4:
        defs = [s for s in walk_no_nested(f) if isinstance(s, ast.Assign) and isinstance(s.targets[0], ast.Name)
                and s.targets[0].id == expr.id and s.lineno < before_line]
        if not defs:
            break
        expr = defs[-1].value
        seen += 1
    return expr


def marker_kind(prog, f, path_expr, line):
    """Name of the marker family: helper function name or the literal suffix."""
    e = resolve_local(f, path_expr, line)
    if isinstance(e, ast.Call) and call_name(e):
        return call_name(e).split(".")[-1]
    if isinstance(e, ast.BinOp) and isinstance(e.right, ast.Constant):
        return "suffix:" + str(e.right.value)
    return "expr:" + src(e)


# ---------------------------------------------------------------------------
# file-owning classes
# ---------------------------------------------------------------------------

class Owners:
    def __init__(self, prog):
        self.prog = prog
        self.handles = {}    # class name -> {attr: open-call node}
        self.objects = {}    # class name -> {attr: owning class name}
        self.by_name = {}
        for m, q, c in prog.all_classes():
            self.by_name.setdefault(c.name, (m, c))
        self._compute()

    def _init_chain(self, c):
        """__init__ bodies of the class and the bases it explicitly initialises."""
        out = []
        seen = set()

        def rec(cls):
            if cls.name in seen:
                return
            seen.add(cls.name)
            init = self.prog.methods_of(cls, inherited=False).get("__init__")
            if init is None:
                for b in cls.bases:
                    bn = dotted(b)
                    if bn and bn.split(".")[-1] in self.by_name:
                        rec(self.by_name[bn.split(".")[-1]][1])
                return
            out.append(init)
            for n in walk_no_nested(init):
                if isinstance(n, ast.Call) and isinstance(n.func, ast.Attribute) and n.func.attr == "__init__":
                    bn = dotted(n.func.value)
                    if bn and bn.split(".")[-1] in self.by_name:
                        rec(self.by_name[bn.split(".")[-1]][1])
        rec(c)
        return out

    def _compute(self):
        for name, (m, c) in self.by_name.items():
            hs = {}
            for init in self._init_chain(c):
                for st in walk_no_nested(init):
                    if isinstance(st, ast.Assign) and isinstance(st.value, ast.Call) and call_name(st.value) in ("open", "gzip.open"):
                        mode = st.value.args[1] if len(st.value.args) > 1 else None
                        if mode is None:
                            continue   # default 'r'
                        if isinstance(mode, ast.Constant) and not any(ch in str(mode.value) for ch in "wax+"):
                            continue
                        for t in st.targets:
                            d = dotted(t)
                            if d and d.startswith("self."):
                                hs[d[5:]] = st.value
            if hs:
                self.handles[name] = hs
        changed = True
        while changed:
            changed = False
            for name, (m, c) in self.by_name.items():
                objs = self.objects.setdefault(name, {})
                for init in self._init_chain(c):
                    for st in walk_no_nested(init):
                        if isinstance(st, ast.Assign) and isinstance(st.value, ast.Call):
                            cn = (call_name(st.value) or "").split(".")[-1]
                            if cn in self.by_name and self.is_owner(cn):
                                for t in st.targets:
                                    d = dotted(t)
                                    if d and d.startswith("self.") and d[5:] not in objs:
                                        objs[d[5:]] = cn
                                        changed = True

    def is_owner(self, name):
        return bool(self.handles.get(name)) or bool(self.objects.get(name))

    def owners(self):
        return sorted(n for n in self.by_name if self.is_owner(n))


def r1_classes(prog, ctx, own):
    """Every owning class has a close() that finalises all it owns."""
    n = 0
    for name in own.owners():
        m, c = own.by_name[name]
        meths = prog.methods_of(c, inherited=True)
        close = meths.get("close")
        if close is None:
            ctx.fail("R1", c, name, "class %s" % name, "%s owns write handles (%s) but has no explicit close(): its data reaches the "
                     "disk only when the object is garbage collected, i.e. after any marker created while it is alive"
                     % (name, sorted(own.handles.get(name, {})) + sorted(own.objects.get(name, {}))))
            continue
        # text of close() plus base-class close() it delegates to
        texts = [src(close)]
        for call in walk_no_nested(close):
            if isinstance(call, ast.Call) and isinstance(call.func, ast.Attribute) and call.func.attr == "close":
                bn = dotted(call.func.value)
                if bn and bn.split(".")[-1] in own.by_name and bn.split(".")[-1] != name:
                    bc = prog.methods_of(own.by_name[bn.split(".")[-1]][1], inherited=True).get("close")
                    if bc is not None:
                        texts.append(src(bc))
        text = "\n".join(texts)
        for attr in sorted(own.handles.get(name, {})):
            n += 1
            if "self.%s.close()" % attr not in text:
                ctx.fail("R1", close, name + ".close", "self.%s" % attr, "%s.close() does not close the write handle self.%s" % (name, attr))
            else:
                ctx.ok("R1", "%s:%d" % (m.rel, close.lineno), "%s.close() closes self.%s" % (name, attr))
        for attr, k in sorted(own.objects.get(name, {}).items()):
            n += 1
            if "self.%s.close()" % attr not in text and not _closed_through_alias(c, attr, text):
                ctx.fail("R1", close, name + ".close", "self.%s" % attr, "%s.close() does not close the owned %s self.%s" % (name, k, attr))
            else:
                ctx.ok("R1", "%s:%d" % (m.rel, close.lineno), "%s.close() closes owned %s self.%s" % (name, k, attr))
        # stream terminators must be written by close(), not only by __del__
        d = prog.methods_of(c, inherited=False).get("__del__")
        if d is not None:
            dwrites = [x for x in walk_no_nested(d) if isinstance(x, ast.Call) and (call_name(x) or "").split(".")[-1].startswith("write")]
            if dwrites:
                ctx.fail("R1", d, name + ".__del__", src(dwrites[0]), "%s writes data in __del__ only; it is lost if the process dies "
                         "after the marker and before garbage collection" % name)
    return n


def _closed_through_alias(c, attr, close_text):
    """self.attr placed into a list attribute (e.g. printer_list -> self.global_printer) that close() iterates."""
    init_text = "\n".join(src(s) for s in c.body if isinstance(s, ast.FunctionDef) and s.name == "__init__")
    if "[self.%s]" % attr in init_text or ".append(self.%s)" % attr in init_text:
        return ".close()" in close_text and ("global_printer" in close_text or "printers" in close_text)
    return False


def r1_functions(prog, ctx, own, markers):
    n = 0
    owner_names = set(own.owners())
    for m, q, f, mst, path in markers:
        # local variables bound to owning classes before the marker
        bound = {}
        for st in walk_no_nested(f):
            if isinstance(st, ast.Assign) and st.lineno < mst.lineno and isinstance(st.targets[0], ast.Name):
                classes = {(call_name(c) or "").split(".")[-1] for c in ast.walk(st.value) if isinstance(c, ast.Call)}
                hit = classes & owner_names
                if hit:
                    bound.setdefault(st.targets[0].id, []).append((st, sorted(hit)))
            elif isinstance(st, ast.Assign) and st.lineno < mst.lineno and isinstance(st.value, ast.Call) \
                    and call_name(st.value) in ("open", "gzip.open") and len(st.value.args) > 1 \
                    and isinstance(st.value.args[1], ast.Constant) and any(ch in str(st.value.args[1].value) for ch in "wax+") \
                    and isinstance(st.targets[0], ast.Name):
                bound.setdefault(st.targets[0].id, []).append((st, ["file handle"]))
        # also: inline write-opens never closed  e.g. pickle.Pickler(open(x, "wb"))
        if not bound:
            ctx.ok("R1", "%s:%d" % (m.rel, mst.lineno), "%s: no writer object alive at marker %s" % (q, src(path)), nontrivial=False)
        def dominates_marker(stmt):
            """stmt is an earlier sibling of the marker or of one of the marker's enclosing statements."""
            anc = mst
            while anc is not None and anc is not f:
                par = anc._parent
                for fld in ("body", "orelse", "finalbody"):
                    blk = getattr(par, fld, None)
                    if isinstance(blk, list) and any(x is anc for x in blk):
                        idx = [i for i, x in enumerate(blk) if x is anc][0]
                        if any(x is stmt for x in blk[:idx]):
                            return True
                anc = par
            return False
        for var, binds in sorted(bound.items()):
            n += 1
            closers = []
            for st2 in walk_no_nested(f):
                if isinstance(st2, ast.Expr) and isinstance(st2.value, ast.Call) and isinstance(st2.value.func, ast.Attribute) \
                        and st2.value.func.attr == "close" and src(st2.value.func.value) == var \
                        and st2.lineno > max(b_[0].lineno for b_ in binds) and st2.lineno < mst.lineno:
                    closers.append(st2)
                if isinstance(st2, ast.With) and any(isinstance(i.context_expr, ast.Name) and i.context_expr.id == var for i in st2.items):
                    closers.append(st2)
            closed_everywhere = any(dominates_marker(c_) for c_ in closers)
            # a handle bound by `with open(...) as var` is closed at block exit
            bad_path = None
            kinds = sorted({k for _s, ks in binds for k in ks})
            if not closed_everywhere:
                ctx.fail("R1", mst, q, "%s (still open: %s %s)" % (src(mst), var, kinds),
                         "marker %s is created while writer `%s` (%s) has not been closed on this path: a run killed right after "
                         "the marker leaves truncated files that --resume trusts" % (src(path), var, "/".join(kinds)),
                         path=None)
            else:
                ctx.ok("R1", "%s:%d" % (m.rel, mst.lineno), "%s: writer %s (%s) closed on every path before marker %s" % (q, var, "/".join(kinds), src(path)))
    # handles opened inline and never bound (cannot be closed explicitly)
    for m, q, f in prog.all_functions():
        for c in walk_no_nested(f):
            if isinstance(c, ast.Call) and call_name(c) == "open" and len(c.args) > 1 and isinstance(c.args[1], ast.Constant) \
                    and any(ch in str(c.args[1].value) for ch in "wax+"):
                parent = c._parent
                bound_ok = isinstance(parent, (ast.withitem, ast.Assign)) or \
                    (isinstance(parent, ast.Attribute) and parent.attr == "close")
                if not bound_ok and m.rel in ("src/stats.py", DSP, "src/assignment_io.py", "src/transcript_printer.py",
                                              "src/long_read_counter.py", "src/file_utils.py"):
                    # merge targets passed as open handles are closed by the callee? they are final outputs, not marker-attested
                    fn_calls_marker = any(x[2] is f for x in markers)
                    reaches_marker = m.rel == "src/stats.py" or fn_calls_marker
                    if reaches_marker:
                        ctx.fail("R1", c, q, src(c), "a file is opened for writing inline and never closed explicitly; it is written "
                                 "by code that runs before a stage marker")
    return n


# ---------------------------------------------------------------------------
# R2
# ---------------------------------------------------------------------------

def deleting_functions(prog):
    """Closure functions that (transitively, by simple name) call os.remove."""
    direct = set()
    calls = {}
    for m, q, f in prog.all_functions():
        names = set()
        for c in walk_no_nested(f):
            if isinstance(c, ast.Call) and call_name(c):
                names.add(call_name(c).split(".")[-1])
                if call_name(c) in ("os.remove", "os.unlink", "shutil.rmtree"):
                    direct.add(f.name)
        calls[f.name] = names
    out = set(direct)
    changed = True
    while changed:
        changed = False
        for fn, names in calls.items():
            if fn not in out and names & out:
                out.add(fn)
                changed = True
    return out


_DELETE_WRAPPERS = {}


def find_delete_wrappers(prog):
    """module-level functions of dataset_processor that os.remove the file named by one of their parameters: name -> parameter position"""
    _DELETE_WRAPPERS.clear()
    for q, f in prog.module(DSP).functions.items():
        if "." in q:
            continue
        params = [a.arg for a in f.args.args]
        for c in walk_no_nested(f):
            if isinstance(c, ast.Call) and call_name(c) in ("os.remove", "os.unlink") and c.args and isinstance(c.args[0], ast.Name) \
                    and c.args[0].id in params and len(f.body) <= 6:
                _DELETE_WRAPPERS[f.name] = params.index(c.args[0].id)
    return _DELETE_WRAPPERS


def enclosing_stmt_or_none(st, c):
    return st


def invalidates(st, kinds):
    """Marker kinds invalidated by a statement: clean_locks(.., .., helper) or os.remove(<marker expr>)."""
    out = set()
    for c in ast.walk(st):
        if isinstance(c, ast.Call) and (call_name(c) or "").split(".")[-1] == "clean_locks":
            for a in list(c.args) + [k.value for k in c.keywords]:       # the marker-name function, whatever its position
                if src(a) in kinds or (isinstance(a, ast.Name) and a.id.endswith("lock_file_name")):
                    out.add(src(a))
        wrapped = isinstance(c, ast.Call) and (call_name(c) or "").split(".")[-1] in _DELETE_WRAPPERS \
            and len(c.args) > _DELETE_WRAPPERS[(call_name(c) or "").split(".")[-1]]
        if (isinstance(c, ast.Call) and call_name(c) == "os.remove") or wrapped:
            # (remove_marker(path) = a function that does os.remove(<its parameter>))
            arg = c.args[_DELETE_WRAPPERS[(call_name(c) or "").split(".")[-1]]] if wrapped else c.args[0]
            t = src(arg)
            if isinstance(arg, ast.Name):
                for a_ in ast.walk(st):                       # the removed name is a local computed in the same statement (inlined helper)
                    if isinstance(a_, ast.Assign) and any(isinstance(t_, ast.Name) and t_.id == arg.id for t_ in a_.targets):
                        t += " " + src(a_.value)
                for l in flow.enclosing_loops(c):
                    if isinstance(l, ast.For) and src(l.target) == arg.id and isinstance(l.iter, (ast.List, ast.Tuple)):
                        t = " ".join(src(e) for e in l.iter.elts)
            for k in kinds:
                if k.startswith("suffix:") and k[7:] in t:
                    out.add(k)
                if not k.startswith(("suffix:", "expr:")) and k in t:
                    out.add(k)
    return out


def r2(prog, ctx, markers, kinds):
    find_delete_wrappers(prog)
    for need_kind in ("reads_processed_lock_file_name", "reads_collected_lock_file_name", "suffix:_lock"):
        if need_kind not in kinds:
            raise AnalysisError("R2: marker kind %s is not among the kinds derived from the marker-creating sites %s (the marker-name "
                                "helpers were renamed or restructured)" % (need_kind, sorted(kinds)))
    dels = deleting_functions(prog) - {"clean_locks"}
    # consumer 1: process_assigned_reads must drop the stage-2 markers before the first deleting call
    f = prog.func(DSP, "DatasetProcessor.process_assigned_reads")
    if not any(isinstance(c, ast.Call) and call_name(c) and call_name(c).split(".")[-1] in dels for st in f.body for c in ast.walk(st)):
        f = prog.func_inlined(DSP, "DatasetProcessor.process_assigned_reads")       # the stage was split into helper methods
    stage2 = "reads_processed_lock_file_name"
    first_del = None
    inval_line = None
    pos = {}
    for i_, st in enumerate(f.body):
        pos[id(st)] = i_
        if stage2 in invalidates(st, kinds) and inval_line is None and isinstance(st, (ast.Expr, ast.For)):
            inval_line = st
            continue                                   # the invalidation itself deletes markers, not parts
        for c in ast.walk(st):
            if isinstance(c, ast.Call) and call_name(c) and (call_name(c).split(".")[-1] in dels or call_name(c) in ("os.remove", "os.unlink")) \
                    and first_del is None:
                first_del = (st, c)
    if first_del is None:
        raise AnalysisError("process_assigned_reads: no merging/deleting call found")
    if inval_line is None or pos[id(inval_line)] > pos[id(first_del[0])]:
        ctx.fail("R2", first_del[1], f._qualname, src(first_del[1])[:90],
                 "per-chromosome parts are deleted (via %s) while their %s markers still say 'processed': a run killed during "
                 "merging is resumed by skipping every chromosome and merging nothing" % (call_name(first_del[1]), stage2))
    else:
        ctx.ok("R2", "%s:%d" % (DSP, inval_line.lineno), "stage-2 markers removed (%s) before the first deleting call %s"
               % (src(inval_line), call_name(first_del[1])))
    # ... and unconditionally
    if inval_line is not None and inval_line not in f.body:
        ctx.fail("R2", inval_line, f._qualname, src(inval_line), "marker invalidation is conditional")
    # consumer 2: final clean-up in process_sample
    g = prog.func(DSP, "DatasetProcessor.process_sample")
    loops = [l for l in ast.walk(g) if isinstance(l, ast.For) and "glob.glob(" in src(l.iter) and "os.remove" in src(l)]
    if not loops:
        g = prog.func_inlined(DSP, "DatasetProcessor.process_sample")                # the clean-up moved into a helper method
        loops = [l for l in ast.walk(g) if isinstance(l, ast.For) and "glob.glob(" in src(l.iter) and "os.remove" in src(l)]
    if not loops:
        raise AnalysisError("process_sample: clean-up loops not found")
    def block_of(n_):
        for fld in ("body", "orelse", "finalbody"):
            lst = getattr(n_._parent, fld, None)
            if isinstance(lst, list) and any(x is n_ for x in lst):
                return lst
        return g.body
    blk = block_of(loops[0])
    in_blk = [l for l in loops if any(x is l for x in blk)]
    first = min(in_blk, key=lambda l: next(i_ for i_, x in enumerate(blk) if x is l))
    before = blk[:next(i_ for i_, x in enumerate(blk) if x is first)]
    got = set()
    for s in before:
        got |= invalidates(s, kinds)
    need = {"reads_collected_lock_file_name", "suffix:_lock"} & set(kinds)        # (of the marker kinds that exist on this tree)
    rg = {k for k in kinds if "read_group" in k}
    if not (need | rg):
        ctx.undecided("R2", first, g._qualname, "none of the marker kinds the clean-up has to remove first is among %s" % sorted(kinds))
    missing = sorted(k for k in need | rg if k not in got and not any(k in src(s) for s in before))
    if missing:
        ctx.fail("R2", first, g._qualname, src(first)[:80], "intermediate files are deleted while the markers %s that vouch for them "
                 "may still exist (glob order is arbitrary): an interrupted clean-up is resumed on half-deleted data" % missing)
    else:
        ctx.ok("R2", "%s:%d" % (DSP, first.lineno), "clean-up removes markers %s before the data files" % sorted(need | rg))
    # no other function deletes attested artefacts
    allowed = {"merge_files", "merge_counts", "clean_locks", "process_sample", "collect_reads", "__del__"}
    # a helper all of whose callers are allowed consumers (transitively) deletes on their behalf
    callers = {}
    for m, q, fn in prog.all_functions():
        for c in walk_no_nested(fn):
            if isinstance(c, ast.Call) and call_name(c):
                callers.setdefault(call_name(c).split(".")[-1], set()).add(fn.name)

    def may_delete(name, seen=()):
        if name in allowed:
            return True
        cs = callers.get(name, set()) - {name}
        return bool(cs) and name not in seen and all(may_delete(c_, seen + (name,)) for c_ in cs)
    for m, q, fn in prog.all_functions():
        if not m.rel.startswith("src/") or m.rel in ("src/read_mapper.py", "src/gtf2db.py", "src/common.py"):
            continue
        for c in walk_no_nested(fn):
            if isinstance(c, ast.Call) and call_name(c) in ("os.remove", "os.unlink") and not may_delete(fn.name):
                ctx.fail("R2", c, q, src(c), "files are deleted in %s, which is outside the known consumers of stage artefacts "
                         "(merge_files, merge_counts, clean_locks, process_sample clean-up)" % q)


# ---------------------------------------------------------------------------
# R3 / R4
# ---------------------------------------------------------------------------

def r3(prog, ctx, markers, kinds):
    n = 0
    marker_texts = set()
    for m, q, f, mst, path in markers:
        marker_texts.add(src(path))
        marker_texts.add(src(resolve_local(f, path, mst.lineno)))
    for m, q, f in prog.all_functions():
        if m.rel != DSP:
            continue
        for node in walk_no_nested(f):
            if not isinstance(node, ast.If):
                continue
            t = src(node.test)
            if "os.path.exists(" not in t:
                continue
            facts = [src(x) for x, p in flow.guard_facts(node, stop=f)]
            inner_resume = any(isinstance(x, ast.If) and "resume" in src(x.test) for x in node.body)
            if "resume" not in t and not any("resume" in x for x in facts) and not inner_resume:
                continue
            n += 1
            for c in ast.walk(node.test):
                if isinstance(c, ast.Call) and call_name(c) == "os.path.exists":
                    p = c.args[0]
                    pt = src(p)
                    rp = src(resolve_local(f, p, node.lineno))
                    is_marker = pt in marker_texts or rp in marker_texts or any(
                        (k.startswith("suffix:") and rp.endswith(repr(k[7:]))) or (not k.startswith(("suffix:", "expr:")) and k in rp)
                        for k in kinds)
                    dominated = any("lock" in x and "exists" in x for x in facts)
                    atomic = any(isinstance(x, ast.Call) and call_name(x) == "os.replace" and len(x.args) == 2 and src(x.args[1]) == pt
                                 for x in walk_no_nested(f))
                    inplace = any(isinstance(x, ast.Call) and call_name(x) in ("open", "gzip.open") and x.args and src(x.args[0]) == pt
                                  and len(x.args) > 1 and isinstance(x.args[1], ast.Constant) and "w" in str(x.args[1].value)
                                  for x in walk_no_nested(f))
                    if is_marker:
                        ctx.ok("R3", "%s:%d" % (m.rel, node.lineno), "%s: resume decision tests marker %s" % (q, pt))
                    elif dominated:
                        ctx.ok("R3", "%s:%d" % (m.rel, node.lineno), "%s: exists(%s) is dominated by a marker test" % (q, pt))
                    elif atomic and not inplace:
                        ctx.ok("R3", "%s:%d" % (m.rel, node.lineno), "%s: %s is published atomically (os.replace), so existence implies completeness" % (q, pt))
                    else:
                        ctx.fail("R3", node, q, "if %s" % t, "--resume skips work because the artefact %s exists, but the artefact is "
                                 "written in place and no marker says it is complete: a run killed while writing it is resumed on a "
                                 "truncated file" % pt)
    ctx.floor("R3", "exists()-based resume decisions", n, 4)


def r4(prog, ctx, markers):
    for m, q, f, mst, path in markers:
        after = []
        blk = mst._parent
        # statements executed after the marker in the same function (syntactically later, not in an alternative branch)
        for st in walk_no_nested(f):
            if isinstance(st, ast.stmt) and st.lineno > mst.lineno:
                for c in walk_no_nested(st):
                    if isinstance(c, ast.Call) and isinstance(c.func, ast.Attribute) and c.func.attr in WRITE_CALLS:
                        after.append(c)
                    if isinstance(c, ast.Call) and call_name(c) == "open" and len(c.args) > 1 and isinstance(c.args[1], ast.Constant) \
                            and "w" in str(c.args[1].value):
                        after.append(c)
        # filter: calls in a different branch of an if that also contains the marker are alternatives, keep only same-or-outer blocks
        real = []
        for c in after:
            st = c
            while not isinstance(st, ast.stmt):
                st = st._parent
            # is st reachable after mst?  (st's block is an ancestor-or-same block of mst's block)
            anc = mst
            ok_reach = False
            while anc is not None and anc is not f:
                par = anc._parent
                for fld in ("body", "orelse", "finalbody"):
                    b = getattr(par, fld, None)
                    if isinstance(b, list) and any(x is anc for x in b):
                        idx = [i for i, x in enumerate(b) if x is anc][0]
                        if any(any(y is st for y in ast.walk(x)) for x in b[idx + 1:]):
                            ok_reach = True
                anc = par
            if ok_reach:
                real.append(c)
        if real:
            ctx.fail("R4", real[0], q, src(real[0])[:80], "data is written after marker %s was created: the marker vouches for "
                     "files that are not complete yet" % src(path))
        else:
            ctx.ok("R4", "%s:%d" % (m.rel, mst.lineno), "%s: nothing is written after marker %s" % (q, src(path)))


def r5(prog, ctx):
    """State gathered by a stage that --resume may skip must be restored on the skip path if later stages read it."""
    from ..engine import carried
    cls = prog.cls(DSP, "DatasetProcessor")
    lin = carried.Linearizer(prog, cls)
    ps = prog.func(DSP, "DatasetProcessor.process_sample")
    n = 0
    for q, f in sorted(prog.module(DSP).functions.items()):
        if getattr(f, "_class", None) is not cls:
            continue
        skips = []
        for r in walk_no_nested(f):
            if isinstance(r, ast.Return):
                facts = [src(t) for t, p in flow.guard_facts(r, stop=f) if p]
                if any("resume" in x for x in facts) and any("os.path.exists(" in x for x in facts):
                    skips.append(r)
        if not skips:
            continue
        for r in skips:
            n += 1
            seq = lin.run(f.name)
            written = {}
            for loc, kind, uncond, fn, st in seq:
                if kind in ("write", "rmw") and st.lineno > r.lineno and fn is f or (kind in ("write", "rmw") and fn is not f):
                    written.setdefault(loc, st)
            # what later stages read: everything process_sample does after calling this stage
            later_reads = set()
            call_line = None
            for st in ast.walk(ps):
                if isinstance(st, ast.Call) and call_name(st) == "self." + f.name:
                    call_line = st.lineno
            if call_line is None:
                continue
            pseq = lin.run("process_sample")
            restored_after = set()
            seen_call = False
            for loc, kind, uncond, fn, st in pseq:
                if fn is ps and st.lineno > call_line:
                    seen_call = True
                if not seen_call:
                    continue
                if fn is f:
                    continue
                if kind == "write" and uncond and loc not in later_reads:
                    restored_after.add(loc)
                if kind in ("read", "rmw"):
                    later_reads.add(loc)
            blk = r._parent.body if hasattr(r._parent, "body") else []
            restored_here = set()
            for st in blk:
                if isinstance(st, ast.Assign):
                    for t in st.targets:
                        d = dotted(t)
                        if d:
                            restored_here.add(".".join(d.split(".")[:3] if d.startswith("self.args.") else d.split(".")[:2]))
            from . import c10 as _c10
            const_derived = _c10.constant_derived_locations(prog)
            for loc in sorted(written):
                if loc not in later_reads:
                    continue
                if loc in const_derived:
                    ctx.ok("R5", "%s:%d" % (DSP, r.lineno), "%s: %s is a memo of run-constant data (recomputed identically when needed)" % (q, loc))
                    continue
                if loc in restored_here or loc in restored_after:
                    ctx.ok("R5", "%s:%d" % (DSP, r.lineno), "%s: %s (filled by the skipped stage, read later) is restored %s"
                           % (q, loc, "on the skip path" if loc in restored_here else "right after the call"))
                else:
                    ctx.fail("R5", r, q, "return  # skip under --resume, %s not restored" % loc,
                             "%s is filled by this stage (%s) and read by later stages, but the --resume skip path returns without "
                             "restoring it: a resumed run works with the initial value where an uninterrupted run has the real one"
                             % (loc, src(written[loc])[:70]))
    ctx.floor("R5", "resume skip paths in DatasetProcessor methods", n, 1)


def r6(prog, ctx, markers):
    """Persist after the last mutation: state dumped for --resume must not be modified between the dump and the marker."""
    n = 0
    for m, q, f, mst, path in markers:
        dumps = [c for c in walk_no_nested(f) if isinstance(c, ast.Call) and isinstance(c.func, ast.Attribute) and c.func.attr == "dump"
                 and c.lineno < mst.lineno and c.args]
        for d in dumps:
            obj = src(d.func.value)
            n += 1
            later = [c for c in walk_no_nested(f) if isinstance(c, ast.Call) and isinstance(c.func, ast.Attribute)
                     and c.func.attr in ("add", "merge", "update", "inc", "add_read_info", "append") and src(c.func.value) == obj
                     and d.lineno < c.lineno < mst.lineno]
            if later:
                ctx.fail("R6", later[0], q, "%s ... %s" % (src(d)[:60], src(later[0])[:60]),
                         "%s is saved for --resume and then modified again before the marker: the saved copy that a resumed run "
                         "reloads misses the later updates" % obj)
            else:
                ctx.ok("R6", "%s:%d" % (m.rel, d.lineno), "%s: %s dumped after its last modification" % (q, obj))
    ctx.floor("R6", "state dumps before markers", n, 3)


def r7(prog, ctx, tag="R7", why=None):
    """A file that is opened in append mode by a stage must have been truncated by the object's constructor:
    a resumed stage recomputes from scratch and would otherwise append to left-overs."""
    n = 0
    for m, q, c in prog.all_classes():
        meths = prog.methods_of(c, inherited=False)
        for name, f in meths.items():
            for call in walk_no_nested(f):
                if isinstance(call, ast.Call) and call_name(call) in ("open", "gzip.open") and len(call.args) > 1 \
                        and isinstance(call.args[1], ast.Constant) and "a" in str(call.args[1].value) and dotted(call.args[0]) \
                        and dotted(call.args[0]).startswith("self."):
                    n += 1
                    attr = dotted(call.args[0])
                    # truncation in a constructor of this class or a base
                    trunc = False
                    inits = [prog.methods_of(c, inherited=True).get("__init__")]
                    for b in c.bases:
                        for _m, bc in prog.find_class((dotted(b) or "?").split(".")[-1]):
                            inits.append(prog.methods_of(bc, inherited=True).get("__init__"))
                    for init in [i for i in inits if i is not None]:
                        for x in walk_no_nested(init):
                            if isinstance(x, ast.Call) and call_name(x) == "open" and len(x.args) > 1 and src(x.args[0]) == attr \
                                    and isinstance(x.args[1], ast.Constant) and "w" in str(x.args[1].value):
                                trunc = True
                    if not trunc:
                        ctx.fail(tag, call, "%s.%s" % (c.name, name), src(call),
                                 "%s is opened in append mode but no constructor of %s truncates it: %s" % (attr, c.name, why or
                                 "when --resume recomputes a chromosome (or re-merges), rows are appended to the left-over file and appear twice"))
                    else:
                        ctx.ok(tag, "%s:%d" % (m.rel, call.lineno), "%s.%s appends to %s, truncated in the constructor" % (c.name, name, attr))
    # append-mode opens of DATA files named by a function (not owned by an object): the same module truncates that very path
    # expression somewhere ("w" open), otherwise left-overs of an earlier run into the same folder stay in front of the new content
    LOGS = re.compile(r"log", re.I)
    for m, q, f in prog.all_functions():
        if not m.rel.startswith("src/") or m.rel in ("src/read_mapper.py",):
            continue
        for call in walk_no_nested(f):
            if not (isinstance(call, ast.Call) and call_name(call) in ("open", "gzip.open") and len(call.args) > 1
                    and isinstance(call.args[1], ast.Constant) and "a" in str(call.args[1].value)):
                continue
            path = call.args[0]
            if (dotted(path) or "").startswith("self.") or LOGS.search(src(path)):
                continue
            n += 1
            ptxt = src(path)
            trunc = any(isinstance(x, ast.Call) and call_name(x) in ("open", "gzip.open") and len(x.args) > 1 and src(x.args[0]) == ptxt
                        and isinstance(x.args[1], ast.Constant) and "w" in str(x.args[1].value)
                        for _q2, f2 in m.functions.items() for x in walk_no_nested(f2))
            if trunc:
                ctx.ok(tag, "%s:%d" % (m.rel, call.lineno), "%s appends to %s, which the module also opens for writing" % (q, ptxt[:50]))
            else:
                ctx.fail(tag, call, q, src(call)[:90], "%s is opened in append mode and nothing in %s ever truncates it: %s" % (
                    ptxt[:60], m.rel, why or "what an earlier (kept or killed) run into the same folder left in the file stays in front of the "
                    "new content, and a reader that stops at the first end-of-stream marker sees only the old content"))
    ctx.floor(tag, "append-mode opens of object-owned files", n, 2)


def _trailing_literal(e):
    """Literal text a path expression certainly ends with ('...' + "_lock", "{}_{}_collected".format(...))."""
    if isinstance(e, ast.BinOp) and isinstance(e.op, ast.Add) and isinstance(e.right, ast.Constant) and isinstance(e.right.value, str):
        return e.right.value
    if isinstance(e, ast.Call) and isinstance(e.func, ast.Attribute) and e.func.attr == "format" and isinstance(e.func.value, ast.Constant):
        t = e.func.value.value
        return t[t.rfind("}") + 1:]
    if isinstance(e, ast.JoinedStr) and e.values and isinstance(e.values[-1], ast.Constant):
        return e.values[-1].value
    return None


def marker_suffixes(prog, markers):
    """suffix -> marker site, for every stage marker (through the helper functions that name marker files)."""
    out = {}
    for m, q, f, mst, path in markers:
        e = resolve_local(f, path, mst.lineno)
        suf = _trailing_literal(e)
        if suf is None and isinstance(e, ast.Call) and call_name(e):
            cands = [g for _m, gq, g in prog.all_functions() if gq == call_name(e).split(".")[-1]]
            for g in cands:
                rets = [r for r in walk_no_nested(g) if isinstance(r, ast.Return) and r.value is not None]
                if rets:
                    suf = _trailing_literal(resolve_local(g, rets[-1].value, rets[-1].lineno + 1))
        if suf is None:
            raise AnalysisError("cannot derive the file-name suffix of the marker created at %s:%d" % (m.rel, mst.lineno))
        out.setdefault(suf, (m, q, mst))
    return out


def r8(prog, ctx, markers):
    """A new (not resumed) run publishes its parameters only after the markers of earlier runs in the folder are gone."""
    sufs = marker_suffixes(prog, markers)
    iq = prog.module("isoquant.py")
    sp_calls = []
    for q, f in iq.functions.items():
        for st in walk_no_nested(f):
            if isinstance(st, ast.Expr) and isinstance(st.value, ast.Call) and call_name(st.value) == "save_params":
                sp_calls.append((q, f, st))
    if len(sp_calls) != 1:
        raise AnalysisError("isoquant.py: expected exactly one call of save_params, found %d" % len(sp_calls))
    q, f, sp = sp_calls[0]
    blk = sp._parent.body if sp in getattr(sp._parent, "body", []) else getattr(sp._parent, "orelse", [])
    before = blk[:[i for i, x in enumerate(blk) if x is sp][0]]
    covered = set()
    cleaner = None
    for st in before:
        calls = []
        if isinstance(st, ast.If) and src(st.test) in ("not args.resume",) and not st.orelse:
            calls = [c for x in st.body for c in ast.walk(x) if isinstance(c, ast.Call)]
        elif isinstance(st, ast.Expr) and isinstance(st.value, ast.Call):
            calls = [st.value]
        for c in calls:
            g = iq.functions.get((call_name(c) or "").split(".")[-1])
            if g is None:
                continue
            removes = [x for x in ast.walk(g) if isinstance(x, ast.Call) and call_name(x) in ("os.remove", "os.unlink")]
            if not removes:
                continue
            # the suffix filter may sit in g itself or in a helper / generator of the module that g calls
            scope = [g]
            for x in ast.walk(g):
                if isinstance(x, ast.Call) and (call_name(x) or "") in iq.functions and iq.functions[call_name(x)] not in scope:
                    scope.append(iq.functions[call_name(x)])
            for h in scope:
                for x in ast.walk(h):
                    if isinstance(x, ast.Call) and isinstance(x.func, ast.Attribute) and x.func.attr == "endswith" and x.args:
                        arg = x.args[0]
                        if isinstance(arg, ast.Name) and arg.id in iq.assigns:
                            arg = iq.assigns[arg.id]                  # module-level constant tuple
                        for k in ast.walk(arg):
                            if isinstance(k, ast.Constant) and isinstance(k.value, str):
                                covered.add(k.value)
                                cleaner = g
    missing = [s_ for s_ in sorted(sufs) if not any(s_.endswith(c) for c in covered)]
    if missing:
        m, mq, mst = sufs[missing[0]]
        ctx.fail("R8", sp, q, "save_params(args) with markers %s still on disk" % missing,
                 "the parameters of a new (not resumed) run are saved while progress markers of an earlier run in the same folder "
                 "(suffix %s, created e.g. at %s:%d) may still exist: if the new run is killed before the stage that deletes them, "
                 "--resume - which only requires .params - trusts them and finishes successfully with the earlier run's intermediate "
                 "results" % (missing, m.rel, mst.lineno))
    else:
        ctx.ok("R8", "isoquant.py:%d" % sp.lineno, "save_params is preceded (on the non-resume path) by %s, which removes files ending in %s - "
               "all marker suffixes %s" % (cleaner.name if cleaner else "?", sorted(covered), sorted(sufs)))
    ctx.extra["marker_suffixes"] = sorted(sufs)


def r10(prog, ctx, kinds):
    """A marker vouches for finished work: it must not come into existence before that work is done.  `with open(<marker>, "w"): <work>`
    creates the file first and does the work afterwards."""
    marker_fns = {k for k in kinds if not k.startswith(("suffix:", "expr:"))}
    marker_fns |= {q_ for q_ in prog.module(DSP).functions if "." not in q_ and "lock" in q_ and "name" in q_}     # the marker-name helpers, by name
    n = 0
    for m, q, f in prog.all_functions():
        if m.rel != DSP:
            continue
        for w in walk_no_nested(f):
            if not isinstance(w, ast.With):
                continue
            for it in w.items:
                c = it.context_expr
                if isinstance(c, ast.Call) and call_name(c) == "open" and len(c.args) > 1 and isinstance(c.args[1], ast.Constant) \
                        and "w" in str(c.args[1].value):
                    path = c.args[0]
                    if isinstance(path, ast.Name):
                        ds = [a.value for a in walk_no_nested(f) if isinstance(a, ast.Assign) and len(a.targets) == 1 and src(a.targets[0]) == path.id]
                        path = ds[-1] if ds else path
                    ptxt = src(path)
                    is_marker = any(k + "(" in ptxt for k in marker_fns) or ptxt.endswith('"_lock"') or ptxt.endswith("'_lock'")
                    if not is_marker:
                        continue
                    n += 1
                    work = [x for x in w.body if not isinstance(x, ast.Pass)]
                    if work:
                        ctx.fail("R10", w, q, src(w)[:90], "the progress marker %s is created when the with-block is entered, i.e. BEFORE %s runs: a run "
                                 "killed inside the block leaves a marker that vouches for unfinished work, and --resume skips it" % (ptxt[:60], src(work[0])[:50]))
                    else:
                        ctx.ok("R10", "%s:%d" % (m.rel, w.lineno), "marker %s created by an empty with-block" % ptxt[:50])
    ctx.ok("R10", DSP, "%d marker files opened as context managers, none with work inside" % n, nontrivial=False)


# what collect_reads_in_parallel hands back per chromosome, and the per-chromosome file (by the literal tail of its name) that carries it
# across a kill: confirmed by reading the function; position in the returned tuple -> (what it is, file-name tail)
RESTORE_TABLE = [(0, "read groups seen on the chromosome", "_groups"),
                 (1, "alignment statistics of the chromosome", "_bamstat"),
                 (2, "read ids / assignments handed to the multimapper resolver", "")]


def _file_locals(f):
    """file-name locals of a function: name -> literal tail of the '{}_{}<tail>'.format(...) expression defining it; a field of a record
    built from such expressions (files = Record(groups='{}_{}_groups'.format(...), ...)) counts as `files.groups`"""
    out = {}

    def tail_of(v):
        if isinstance(v, ast.Call) and isinstance(v.func, ast.Attribute) and v.func.attr == "format" and isinstance(v.func.value, ast.Constant) \
                and isinstance(v.func.value.value, str) and v.func.value.value.startswith("{}_{}"):
            return v.func.value.value[len("{}_{}"):]
        return None
    for st in f.body:
        if not (isinstance(st, ast.Assign) and len(st.targets) == 1 and isinstance(st.targets[0], ast.Name)):
            continue
        t = tail_of(st.value)
        if t is not None:
            out[st.targets[0].id] = t
        elif isinstance(st.value, ast.Call) and isinstance(st.value.func, ast.Name) and st.value.func.id[:1].isupper():
            rec = None
            for m_ in (getattr(f, "_module", None),):
                rec = m_.assigns.get(st.value.func.id) if m_ is not None else None
            fields = []
            if isinstance(rec, ast.Call) and (call_name(rec) or "").endswith("namedtuple") and len(rec.args) == 2:
                fa = rec.args[1]
                if isinstance(fa, (ast.Tuple, ast.List)):
                    fields = [e.value for e in fa.elts if isinstance(e, ast.Constant)]
                elif isinstance(fa, ast.Constant) and isinstance(fa.value, str):
                    fields = fa.value.replace(",", " ").split()
            for i_, a_ in enumerate(st.value.args):
                t = tail_of(a_)
                if t is not None and i_ < len(fields):
                    out["%s.%s" % (st.targets[0].id, fields[i_])] = t
            for k_ in st.value.keywords:
                t = tail_of(k_.value)
                if t is not None and k_.arg:
                    out["%s.%s" % (st.targets[0].id, k_.arg)] = t
    return out


def r9(prog, ctx, tag="R9", positions=(0, 1, 2)):
    """What a chromosome's collection stage returns is, on the --resume reuse path, rebuilt from the very files the normal path wrote it to."""
    from ..engine import taint
    f = prog.func_inlined(DSP, "collect_reads_in_parallel")         # helpers of the module expanded in place
    files = _file_locals(f)
    by_tail = {}
    for name, tail in files.items():
        by_tail.setdefault(tail, name)
    for _pos, _what, tail in RESTORE_TABLE:
        if tail not in by_tail:
            raise AnalysisError("collect_reads_in_parallel: no file-name local '{}_{}%s'.format(...) found" % tail)
    sources = {name: {"file:" + tail} for name, tail in files.items()}
    resume_rets, normal_rets = {}, {}
    for pth in flow.paths(f):
        if pth.exit != "return" or pth.exit_node is None or not isinstance(pth.exit_node.value, ast.Tuple) or len(pth.exit_node.value.elts) != 3:
            continue
        resumed = any(pol and "resume" in src(t) for t, pol in pth.conds())
        env = taint.run(pth, sources)
        labs = [taint.influence(e, env) for e in pth.exit_node.value.elts]
        tgt = resume_rets if resumed and any("os.path.exists" in src(t) and pol for t, pol in pth.conds()) and \
            isinstance(pth.exit_node._parent, ast.If) else normal_rets
        cur = tgt.setdefault(id(pth.exit_node), (pth.exit_node, [set(), set(), set()], []))
        for i in range(3):
            cur[1][i] |= labs[i]
        cur[2].append((pth, env))
    if not resume_rets or not normal_rets:
        raise AnalysisError("collect_reads_in_parallel: expected a --resume reuse return and a normal return of a 3-tuple")
    n = 0
    for node, labs, _p in resume_rets.values():
        for pos, what, tail in RESTORE_TABLE:
            if pos not in positions:
                continue
            n += 1
            if "file:" + tail in labs[pos]:
                ctx.ok(tag, "%s:%d" % (DSP, node.lineno), "reuse path: element %d (%s) is rebuilt from %s" % (pos, what, by_tail[tail]))
            else:
                ctx.fail(tag, node, f._qualname, "%s  # element %d" % (src(node)[:70], pos),
                         "on the --resume path that reuses an already collected chromosome, element %d of the result (%s = %s) does not depend "
                         "on what is read from %s ('{}_{}%s'), the file the normal path saved it to: the resumed run continues with %s instead of "
                         "the values of the interrupted run" % (pos, what, src(node.value.elts[pos]), by_tail[tail], tail,
                                                               "an empty / freshly initialised value"))
    # the normal path persists each element into that file
    for node, labs, pes in normal_rets.values():
        for pos, what, tail in RESTORE_TABLE:
            if pos not in positions:
                continue
            n += 1
            elem = node.value.elts[pos]
            fname = by_tail[tail]
            persisted = False
            for pth, _env in pes:
                # the returned expression and what it is a plain alias of on this path (x = y / a, b = c, d before the return)
                aliases = {src(elem)}
                for st_ in reversed(pth.stmts()):
                    if isinstance(st_, ast.Assign) and len(st_.targets) == 1:
                        tg_, vl_ = st_.targets[0], st_.value
                        pairs_ = list(zip(tg_.elts, vl_.elts)) if isinstance(tg_, ast.Tuple) and isinstance(vl_, ast.Tuple) \
                            and len(tg_.elts) == len(vl_.elts) else [(tg_, vl_)]
                        for t_, v_ in pairs_:
                            if src(t_) in aliases and isinstance(v_, (ast.Name, ast.Attribute)):
                                aliases.add(src(v_))
                env = taint.run(pth, dict(sources, **{a_: {"elem"} for a_ in aliases}))
                shared = None
                for st in pth.stmts():
                    for c in (x for x in walk_no_nested(st) if isinstance(x, ast.Call) and isinstance(x.func, ast.Attribute)):
                        recv_l = taint.influence(c.func.value, env)
                        arg_l = set()
                        for a in c.args:
                            arg_l |= taint.influence(a, env)
                        both = recv_l | arg_l
                        if c.func.attr in ("write", "dump", "dump_to", "save") and "file:" + tail in both and \
                                ("elem" in both or src(c.func.value) in aliases):
                            persisted = True
                        if "file:" + tail in recv_l and c.func.attr.startswith("add_") and c.args:
                            shared = {x for a in c.args for x in taint.names_in(a)}
                            # the same loop body feeds the returned element from the same variable
                            blk = enclosing_stmt(c)._parent
                            for c2 in (x for s2 in getattr(blk, "body", []) for x in walk_no_nested(s2) if isinstance(x, ast.Call)):
                                if isinstance(c2.func, ast.Attribute) and src(c2.func.value) in aliases and c2.func.attr in taint.MUTATORS \
                                        and shared & {x for a in c2.args for x in taint.names_in(a)}:
                                    persisted = True
            if not persisted:
                # the element is the result of a project function that was not expanded here: what that function writes is not visible
                root = src(elem).split(".")[0].split("[")[0]
                opaque = [st for st in walk_no_nested(f) if isinstance(st, ast.Assign) and isinstance(st.value, ast.Call)
                          and isinstance(st.value.func, ast.Name) and prog.try_func(DSP, st.value.func.id) is not None
                          and any(isinstance(x, ast.Name) and x.id == root for t in st.targets for x in ast.walk(t))]
                if opaque:
                    ctx.undecided(tag, opaque[0], f._qualname, "element %d (%s) is produced by %s(...), which this rule does not look into"
                                  % (pos, what, opaque[0].value.func.id))
                    continue
            if persisted:
                ctx.ok(tag, "%s:%d" % (DSP, node.lineno), "normal path: element %d (%s) is written to %s" % (pos, what, fname))
            else:
                ctx.fail(tag, node, f._qualname, "%s  # element %d never saved" % (src(node)[:70], pos),
                         "the normal path returns %s (%s) but never writes it to %s ('{}_{}%s'): a resumed run that reuses this chromosome "
                         "cannot rebuild it" % (src(elem), what, fname, tail))
    ctx.floor(tag, "returned elements x {reuse path, normal path}", n, 2 * len(positions))


def run(prog, ctx):
    ctx.rule("R8", "marker file-name suffixes are derived from the marker-creating sites; in isoquant.py the single save_params(args) call "
                   "is preceded in its block, on the path of a non-resumed run, by a call of a function that os.remove()s files whose "
                   "names end with every one of those suffixes (invalidate stale progress before publishing a new run identity)")
    ctx.rule("R9", "save/restore agreement of the per-chromosome collection stage (path-wise influence propagation): each element of the tuple "
                   "collect_reads_in_parallel returns is written by the normal path to its per-chromosome file, and on the --resume reuse "
                   "path the returned element depends on what is read from that same file")
    r9(prog, ctx)
    ctx.rule("R6", "in a marker-creating function no add/merge/update of an object follows its dump() before the marker")
    ctx.rule("R7", "every open(self.<file>, 'a') of a class is matched by an open(self.<file>, 'w') in its constructor chain")
    ctx.rule("R5", "for every DatasetProcessor method with a --resume skip return: each self.* location it fills after that point and "
                   "that later stages of process_sample read must be assigned on the skip path or unconditionally right after the call")
    ctx.rule("R1", "file-owning classes are derived from open(..., write) stored in constructors (transitively through owned "
                   "fields); each must have close() closing all it owns and must not write data in __del__; in every marker-"
                   "creating function each local bound to such a class (or to a write handle) is .close()d on every path between "
                   "its construction and the marker")
    ctx.rule("R2", "before the first call that deletes per-stage artefacts (merge_files/merge_counts, final clean-up) the markers "
                   "that let --resume skip regenerating them are removed; no other function deletes stage files")
    ctx.rule("R3", "an os.path.exists() test deciding to skip work under --resume tests a marker path, is dominated by a marker "
                   "test, or tests a file published with os.replace")
    ctx.rule("R4", "no write call is reachable after the marker inside the marker-creating function")
    markers = marker_sites(prog)
    kinds = set()
    for m, q, f, mst, path in markers:
        kinds.add(marker_kind(prog, f, path, mst.lineno))
    ctx.extra["markers"] = ["%s:%d %s %s" % (m.rel, mst.lineno, q, src(path)) for m, q, f, mst, path in markers]
    ctx.extra["marker_kinds"] = sorted(kinds)
    ctx.floor("R1", "marker-creating sites", len([x for x in markers if x[0].rel == DSP]), 4)
    # AbstractCounter creates empty output files with the same idiom: not markers (never tested by resume)
    stage_markers = [x for x in markers if x[0].rel == DSP]
    own = Owners(prog)
    ctx.extra["file_owning_classes"] = {n: {"handles": sorted(own.handles.get(n, {})), "owned": own.objects.get(n, {})} for n in own.owners()}
    ctx.floor("R1", "file-owning classes", len(own.owners()), 4)
    r1_classes(prog, ctx, own)
    nb = r1_functions(prog, ctx, own, stage_markers)
    ctx.floor("R1", "writer objects alive in marker functions", nb, 5)
    r2(prog, ctx, stage_markers, kinds)
    r3(prog, ctx, stage_markers, kinds)
    r4(prog, ctx, stage_markers)
    r5(prog, ctx)
    r6(prog, ctx, stage_markers)
    r7(prog, ctx)
    r8(prog, ctx, stage_markers)
    ctx.rule("R10", "no progress marker is opened for writing as the context manager of a block that still does work (the marker would exist "
                    "before the work it vouches for is finished)")
    r10(prog, ctx, kinds)
    ctx.assume("byte-equality of recomputed outputs, the .params pickle and external tools are not decided")
    ctx.assume("CPython reference counting is NOT assumed: __del__ and implicit closing of unreferenced files count as 'late'")
    ctx.assume("the read-mapping stage (minimap2) is outside the analysed closure's resume protocol")
