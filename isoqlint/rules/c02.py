"""C02 - expression tables equal the documented weighting (structural part).

W1 per-read weight is 0, 1 or 1/k; `1` only when k <= 1; 1/k only under the documented strategy flags;
   the strategy -> flag table equals docs/cmd.md
W2 splitting discipline: 1.0 is added once for a single feature; 1/k is added once per feature in a loop over
   exactly the k features whose count was passed
W3 confirmation: unique + spliced corrected alignment always confirms; only unconfirmed features are zeroed
"""
import ast
import re
import itertools

from ..engine.program import AnalysisError, dotted, src, walk_no_nested, call_name, enclosing_stmt
from ..engine import flow, symexec
from ..engine.dataflow import local_defs, reaching_defs

LRC = "src/long_read_counter.py"

# docs/cmd.md, "Available options for quantification"
DOC_FLAGS = {
    "unique_only":                dict(ambiguous=False, inconsistent_minor=False, inconsistent=False),
    "with_ambiguous":             dict(ambiguous=True,  inconsistent_minor=False, inconsistent=False),
    "unique_splicing_consistent": dict(ambiguous=False, inconsistent_minor=True,  inconsistent=False),
    "unique_inconsistent":        dict(ambiguous=False, inconsistent_minor=True,  inconsistent=True),
    "all":                        dict(ambiguous=True,  inconsistent_minor=True,  inconsistent=True),
}
INF = float("inf")


def norm_weight(e, kname):
    """'0', '1', '1/k' or None."""
    if isinstance(e, ast.Constant) and isinstance(e.value, (int, float)):
        if e.value == 0:
            return "0"
        if e.value == 1:
            return "1"
        return None
    if isinstance(e, ast.BinOp) and isinstance(e.op, ast.Div):
        num, den = e.left, e.right
        if isinstance(den, ast.Call) and dotted(den.func) == "float" and len(den.args) == 1:
            den = den.args[0]
        if isinstance(num, ast.Call) and dotted(num.func) == "float" and len(num.args) == 1:
            num = num.args[0]
        if isinstance(num, ast.Constant) and num.value == 1 and isinstance(den, ast.Name) and den.id == kname:
            return "1/k"
    return None


def refine(interval, test, polarity, kname):
    """Refine integer interval [lo, hi] of k by an atomic comparison; k is a count (>= 0)."""
    lo, hi = interval
    if not (isinstance(test, ast.Compare) and len(test.ops) == 1 and isinstance(test.left, ast.Name)
            and test.left.id == kname and isinstance(test.comparators[0], ast.Constant)
            and isinstance(test.comparators[0].value, int)):
        return interval
    c = test.comparators[0].value
    op = type(test.ops[0])
    if not polarity:
        op = {ast.Eq: ast.NotEq, ast.NotEq: ast.Eq, ast.Gt: ast.LtE, ast.LtE: ast.Gt, ast.Lt: ast.GtE, ast.GtE: ast.Lt}.get(op)
    if op is ast.Eq:
        return (max(lo, c), min(hi, c))
    if op is ast.NotEq:
        if lo == c:
            lo += 1
        if hi == c:
            hi -= 1
        return (lo, hi)
    if op is ast.Gt:
        return (max(lo, c + 1), hi)
    if op is ast.GtE:
        return (max(lo, c), hi)
    if op is ast.Lt:
        return (lo, min(hi, c - 1))
    if op is ast.LtE:
        return (lo, min(hi, c))
    return interval


def w1(prog, ctx):
    # strategy -> flags table
    cs = prog.cls(LRC, "CountingStrategy")
    members = [st.targets[0].id for st in cs.body if isinstance(st, ast.Assign) and isinstance(st.targets[0], ast.Name)]
    meths = prog.methods_of(cs, inherited=False)
    for m in members:
        if m not in DOC_FLAGS:
            ctx.fail("W1", cs, "CountingStrategy", m, "strategy %s is not in the documented table (docs/cmd.md)" % m)
    for flag in ("ambiguous", "inconsistent_minor", "inconsistent"):
        f = meths.get(flag)
        if f is None:
            raise AnalysisError("CountingStrategy.%s not found" % flag)
        ret = [s for s in f.body if isinstance(s, ast.Return)]
        if len(ret) != 1 or len([s for s in f.body if not isinstance(s, ast.Expr)]) != 1:
            raise AnalysisError("CountingStrategy.%s is not a single return of a membership expression" % flag)
        from ..engine import staticeval
        env = {"CountingStrategy.%s" % m: m for m in members}
        for m in sorted(DOC_FLAGS):
            try:
                val = bool(staticeval.evaluate(ret[0].value, dict(env, self=m)))
            except (staticeval.NoEval, TypeError, KeyError) as e:
                raise AnalysisError("CountingStrategy.%s cannot be evaluated statically for member %s (%s)" % (flag, m, e))
            if val != DOC_FLAGS[m][flag]:
                ctx.fail("W1", ret[0], "CountingStrategy." + flag, "%s: %s" % (m, val),
                         "strategy %s has %s=%s in the code but docs/cmd.md prescribes %s" % (m, flag, val, DOC_FLAGS[m][flag]))
            else:
                ctx.ok("W1", "%s:%d" % (LRC, ret[0].lineno), "%s.%s() == %s as documented" % (m, flag, DOC_FLAGS[m][flag]))
    # CountingStrategyFlags wires each flag to its own method
    # the object that holds the use_* flags wires each flag to its own method of the strategy
    fls = [f_ for m_, q_, f_ in prog.all_functions() if m_.rel == LRC and q_.endswith(".__init__")
           and any(isinstance(st, ast.Assign) and (dotted(st.targets[0]) or "").startswith("self.use_") for st in walk_no_nested(f_))]
    if len(fls) != 1:
        raise AnalysisError("the constructor that sets the use_* strategy flags was not found (%d candidates)" % len(fls))
    fl = fls[0]
    for st in walk_no_nested(fl):
        if isinstance(st, ast.Assign) and (dotted(st.targets[0]) or "").startswith("self.use_"):
            want = dotted(st.targets[0])[len("self.use_"):]
            if not (isinstance(st.value, ast.Call) and isinstance(st.value.func, ast.Attribute) and st.value.func.attr == want):
                ctx.fail("W1", st, fl._qualname, src(st), "flag %s is not set from counting_strategy.%s()" % (dotted(st.targets[0]), want))
            else:
                ctx.ok("W1", "%s:%d" % (LRC, st.lineno), "use_%s <- strategy.%s()" % (want, want))
    # weight functions
    npaths = 0
    for fname, kpos in (("process_ambiguous", 1), ("process_inconsistent", 2)):
        f = prog.func_inlined(LRC, "ReadWeightCounter." + fname)        # helpers of the class expanded in place
        kname = f.args.args[kpos].arg
        for p in flow.paths(f):
            npaths += 1
            if p.exit != "return" or not isinstance(p.exit_node, ast.Return) or p.exit_node.value is None:
                ctx.fail("W1", p.exit_node or f, f._qualname, "path without a weight", "a path returns no weight", path=p.describe())
                continue
            # the returned expression with the path's plain locals replaced by what they stand for (a weight routed through a
            # helper's result variable or a memo is still that weight)
            env_ = {}
            for ev_ in p.events:
                if ev_[0] == "stmt" and isinstance(ev_[1], ast.Assign) and len(ev_[1].targets) == 1 and isinstance(ev_[1].targets[0], ast.Name):
                    env_[ev_[1].targets[0].id] = symexec.subst(ev_[1].value, env_)
            w = norm_weight(symexec.subst(p.exit_node.value, env_), kname)
            fq = f._qualname
            if w is None:
                ctx.fail("W1", p.exit_node, fq, src(p.exit_node), "weight %s is none of 0, 1, 1/%s" % (src(p.exit_node.value), kname),
                         path=p.describe())
                continue
            problem = None
            seen_iv = None
            # every scenario (DNF alternative of the path condition, local aliases replaced by their definitions) must justify the weight
            for sc in flow.path_scenarios(p, symexec.cond_substituter(p)):
                iv = (0, INF)
                pos_facts, all_atoms = [], []
                for t, tp in sc:
                    iv = refine(iv, t, tp, kname)
                    all_atoms.append(src(t))
                    if tp:
                        pos_facts.append(src(t))
                if iv[0] > iv[1]:
                    continue   # infeasible scenario
                seen_iv = iv
                if w == "1" and iv[1] > 1:
                    problem = "weight 1 is returned on a path where %s may be %s: a read shared by k>1 features would add k to the table" \
                              % (kname, "> 1" if iv[1] == INF else iv[1])
                    break
                if w == "1/k":
                    need = ["use_ambiguous"] if fname == "process_ambiguous" else ["use_ambiguous", "use_inconsistent"]
                    missing = [n_ for n_ in need if not any(x.endswith("." + n_) for x in pos_facts)]
                    if missing and iv[1] > 1:
                        problem = "a shared read gets weight 1/k without the strategy flag(s) %s being set on this path" % missing
                        break
                if w == "1" and fname == "process_inconsistent":
                    full = any(x.endswith(".use_inconsistent") for x in pos_facts)
                    minor = any(x.endswith(".use_inconsistent_minor") for x in pos_facts) and \
                        any("inconsistent_non_intronic" in x and "==" in x for x in pos_facts)
                    if not (full or minor):
                        problem = "an inconsistent read gets weight 1 although neither use_inconsistent nor (use_inconsistent_minor and " \
                                  "type == inconsistent_non_intronic) holds on this path"
                        break
                    if not any("inconsistent_ambiguous" in x for x in all_atoms):
                        problem = "weight 1 path does not exclude inconsistent_ambiguous"
                        break
            if problem:
                ctx.fail("W1", p.exit_node, fq, src(p.exit_node), problem, path=p.describe())
            elif seen_iv is not None:
                ctx.ok("W1", "%s:%d" % (LRC, p.exit_node.lineno), "%s: weight %s with %s in [%s, %s] on every scenario of the path"
                       % (fname, w, kname, seen_iv[0], seen_iv[1]))
    ctx.floor("W1", "weight-function paths", npaths, 6)


def w2(prog, ctx):
    n = 0
    for fname in ("add_read_info", "add_read_info_raw"):
        f = prog.func_inlined(LRC, "AssignedFeatureCounter." + fname)
        incs = [c for c in walk_no_nested(f) if isinstance(c, ast.Call) and isinstance(c.func, ast.Attribute)
                and c.func.attr == "inc" and "feature_counter" in src(c.func)]
        for c in incs:
            n += 1
            st = c
            while not isinstance(st, ast.stmt):
                st = st._parent
            loops = [l for l in flow.enclosing_loops(st) if isinstance(l, ast.For)]
            wexpr = c.args[1] if len(c.args) > 1 else None
            key = c.func.value.slice if isinstance(c.func.value, ast.Subscript) else None
            fq = f._qualname
            if wexpr is None:
                ctx.fail("W2", c, fq, src(c), "inc() without an explicit weight adds the default 1 for every call")
                continue
            if isinstance(wexpr, ast.Constant):
                if wexpr.value != 1:
                    ctx.fail("W2", c, fq, src(c), "constant weight %r is not 1" % (wexpr.value,))
                    continue
                if loops:
                    ctx.fail("W2", c, fq, src(c), "weight 1.0 is added inside a loop over %s: the read contributes once per feature"
                             % src(loops[-1].iter))
                    continue
                facts = flow.guard_facts(st, stop=f)
                single = any((pol and src(t).endswith(".is_unique()")) or
                             (not pol and isinstance(t, ast.Compare) and src(t).startswith("len(") and src(t).endswith("> 1"))
                             for t, pol in facts)
                if not single:
                    ctx.fail("W2", c, fq, src(c), "weight 1.0 is added without a guard that implies a single feature "
                             "(is_unique() branch or else-branch of len(features) > 1)")
                else:
                    ctx.ok("W2", "%s:%d" % (LRC, c.lineno), "%s: 1.0 once, guarded single-feature" % fname)
                continue
            if not isinstance(wexpr, ast.Name):
                ctx.fail("W2", c, fq, src(c), "weight expression %s is neither 1.0 nor a local defined by the weight functions" % src(wexpr))
                continue
            rd = reaching_defs(f, wexpr.id, st, local_defs(f))
            reach = [d_[2] for d_ in rd if d_[0] == "assign"]
            # a constant 1.0 that reaches the increment from a branch in which the feature list has one element is the same weight
            # as 1/len(features) there: such definitions are accepted next to the computed one
            unit = [r_ for r_ in reach if isinstance(r_.value, ast.Constant) and r_.value.value == 1
                    and any(not pol and isinstance(t, ast.Compare) and src(t).startswith("len(") and src(t).endswith("> 1")
                            for t, pol in flow.guard_facts(r_, stop=f))]
            reach = [r_ for r_ in reach if r_ not in unit]
            if len(reach) != 1:
                ctx.undecided("W2", c, fq, "weight %s has %d reaching definitions at %s" % (wexpr.id, len(reach), src(c)[:60]))
                continue
            d = reach[0].value
            if isinstance(d, ast.Call) and d.args and isinstance(d.args[-1], ast.Name):
                # the feature count hoisted into a local: k = len(features)
                kdefs = [st_.value for st_ in walk_no_nested(f) if isinstance(st_, ast.Assign) and len(st_.targets) == 1
                         and src(st_.targets[0]) == d.args[-1].id]
                if len(kdefs) == 1 and isinstance(kdefs[0], ast.Call) and dotted(kdefs[0].func) == "len":
                    d = ast.copy_location(ast.Call(func=d.func, args=list(d.args[:-1]) + [kdefs[0]], keywords=d.keywords), d)
            ok_def = isinstance(d, ast.Call) and (call_name(d) or "").startswith("self.read_counter.process_") and d.args \
                and isinstance(d.args[-1], ast.Call) and dotted(d.args[-1].func) == "len"
            if not ok_def:
                ctx.fail("W2", reach[0], fq, src(reach[0]), "weight is not self.read_counter.process_*(..., len(<features>))")
                continue
            S = src(d.args[-1].args[0])
            if not loops or src(loops[-1].iter) != S:
                ctx.fail("W2", c, fq, src(c),
                         "weight 1/len(%s) must be added once per element of a loop over exactly %s (found loop over %s): otherwise "
                         "a read's total contribution differs from 1" % (S, S, src(loops[-1].iter) if loops else "nothing"))
                continue
            if len(loops) != 1:
                ctx.fail("W2", c, fq, src(c), "split weight added inside nested loops")
                continue
            tgt = src(loops[-1].target)
            if key is None or src(key) != tgt:
                ctx.fail("W2", c, fq, src(c), "split weight is added to feature %s, not to the loop's own feature %s"
                         % (src(key) if key is not None else "?", tgt))
                continue
            same_loop_incs = [x for x in incs if any(l is loops[-1] for l in flow.enclosing_loops(x))]
            if len(same_loop_incs) != 1:
                ctx.fail("W2", c, fq, src(c), "%d increments in one iteration of the split loop" % len(same_loop_incs))
                continue
            ctx.ok("W2", "%s:%d" % (LRC, c.lineno), "%s: 1/len(%s) added once per element of `for %s in %s`" % (fname, S, tgt, S))
    ctx.floor("W2", "feature_counter.inc sites", n, 3)


def _truth(expr, env):
    """Evaluate boolean skeleton; atoms looked up by normalised text in env (default: tries both)."""
    if isinstance(expr, ast.BoolOp):
        vals = [_truth(v, env) for v in expr.values]
        return all(vals) if isinstance(expr.op, ast.And) else any(vals)
    if isinstance(expr, ast.UnaryOp) and isinstance(expr.op, ast.Not):
        return not _truth(expr.operand, env)
    return env[src(expr)]


def w3(prog, ctx):
    def classify(atom):
        t = src(atom)
        if t.endswith("assignment_type.is_unique()"):
            return "unique"
        if "corrected_exons" in t and t.endswith("> 1"):
            return "spliced"
        return "free"
    for cls in ("TranscriptAssignmentExtractor", "GeneAssignmentExtractor"):
        f = prog.func(LRC, cls + ".confirms_feature")
        ret = [s for s in f.body if isinstance(s, ast.Return)]
        if len(ret) != 1:
            raise AnalysisError("%s.confirms_feature: expected a single return" % cls)
        # the uniqueness that confirms a feature is judged on the same level (gene / transcript) as the type the counter counts by
        gt = prog.func(LRC, cls + ".get_assignment_type")
        gret = [s for s in gt.body if isinstance(s, ast.Return) and isinstance(s.value, ast.Attribute)]
        level_attr = gret[0].value.attr if len(gret) == 1 else None
        used = {a.value.attr for a in ast.walk(ret[0].value) if isinstance(a, ast.Attribute) and a.attr == "is_unique" and isinstance(a.value, ast.Attribute)}
        if level_attr is None or not used:
            ctx.undecided("W3", ret[0], f._qualname, "the assignment-type attribute of %s could not be identified" % cls)
        elif used != {level_attr}:
            ctx.fail("W3", ret[0], f._qualname, src(ret[0]),
                     "%s counts reads by <read>.%s (get_assignment_type) but lets a read confirm its feature by <read>.%s.is_unique(): a read that "
                     "is unique on the counted level and ambiguous on the other one is counted 1.0 and does not confirm, so a feature supported "
                     "only by such reads is zeroed in dump()" % (cls, level_attr, sorted(used)[0]))
        else:
            ctx.ok("W3", "%s:%d" % (LRC, ret[0].lineno), "%s: confirmation and counting both read <read>.%s" % (cls, level_attr))
        atoms = []
        for a in flow.atoms(ret[0].value):
            if src(a) not in [src(x) for x in atoms]:
                atoms.append(a)
        free = [a for a in atoms if classify(a) == "free"]
        bad = None
        rows = 0
        for combo in itertools.product([False, True], repeat=len(free)):
            env = {}
            for a in atoms:
                k = classify(a)
                env[src(a)] = True if k in ("unique", "spliced") else combo[free.index(a)]
            rows += 1
            if not _truth(ret[0].value, env):
                bad = dict((src(a), env[src(a)]) for a in free)
        if bad is not None:
            ctx.fail("W3", ret[0], f._qualname, src(ret[0]),
                     "a uniquely assigned read with a spliced corrected alignment does not confirm its feature when %s: the "
                     "feature's count is zeroed in dump()" % bad)
        else:
            ctx.ok("W3", "%s:%d" % (LRC, ret[0].lineno), "%s.confirms_feature is implied by unique & spliced (%d truth-table rows over %d free atoms)"
                   % (cls, rows, len(free)))
    # confirmed_features.add only under confirms_feature, in the unique branch
    f = prog.func(LRC, "AssignedFeatureCounter.add_read_info")
    adds = [c for c in walk_no_nested(f) if isinstance(c, ast.Call) and src(c.func) == "self.confirmed_features.add"]
    if len(adds) != 1:
        ctx.fail("W3", f, f._qualname, "confirmed_features.add", "expected exactly one confirmation site in add_read_info")
    else:
        st = adds[0]
        while not isinstance(st, ast.stmt):
            st = st._parent
        facts = [src(t) for t, pol in flow.guard_facts(st, stop=f) if pol]
        if not any("confirms_feature(" in x for x in facts) or not any(x.endswith(".is_unique()") for x in facts):
            ctx.fail("W3", adds[0], f._qualname, src(adds[0]), "confirmation is not guarded by is_unique() and confirms_feature()")
        else:
            ctx.ok("W3", "%s:%d" % (LRC, adds[0].lineno), "confirmation only for unique reads passing confirms_feature")
        # the confirmed feature is the one that was counted
        incs = [c for c in st._parent.body if isinstance(c, ast.Expr)] if hasattr(st._parent, "body") else []
    # dump: zeroing only for features not confirmed
    d = prog.func_inlined(LRC, "AssignedFeatureCounter.dump")         # helpers of the class expanded in place
    def _is_zero(v):
        return isinstance(v, ast.Constant) and v.value in (0, 0.0) and not isinstance(v.value, bool)
    zero = [s for s in walk_no_nested(d) if isinstance(s, ast.Assign) and (
            (isinstance(s.targets[0], ast.Subscript) and _is_zero(s.value))
            or (isinstance(s.value, ast.Call) and call_name(s.value) == "dict.fromkeys" and len(s.value.args) == 2 and _is_zero(s.value.args[1])))]
    if len(zero) != 1:
        ctx.undecided("W3", d, d._qualname, "found %d statements zeroing counts in dump() (helpers inlined), expected one" % len(zero))
    else:
        facts = flow.guard_facts(zero[0], stop=d)
        # which feature's cells are zeroed: the key K of self.feature_counter[K] in the (alias-resolved) target
        from ..engine.dataflow import single_def_env
        tgt_txt = src(symexec.subst(zero[0].targets[0], single_def_env(d)))
        mk = re.search(r"self\.feature_counter\[(\w+)\]", tgt_txt)
        fk = mk.group(1) if mk else None
        okz = fk is not None and any(
            isinstance(t, ast.Compare) and len(t.ops) == 1 and src(t.left) == fk and src(t.comparators[0]) == "self.confirmed_features"
            and ((isinstance(t.ops[0], ast.In) and not pol) or (isinstance(t.ops[0], ast.NotIn) and pol)) for t, pol in facts)
        if not okz:
            ctx.fail("W3", zero[0], d._qualname, src(zero[0]), "counts are zeroed for features that may be confirmed")
        else:
            ctx.ok("W3", "%s:%d" % (LRC, zero[0].lineno), "dump zeroes exactly the features not in confirmed_features")


def w4(prog, ctx):
    """Stats lines: each read bumps exactly one of the bookkeeping counters per branch of add_read_info."""
    f = prog.func(LRC, "AssignedFeatureCounter.add_read_info")
    first = f.body[0]
    if not isinstance(first, ast.If):
        raise AnalysisError("add_read_info: leading if/elif chain not found")
    branch = first
    k = 0
    while isinstance(branch, ast.If):
        bumps = [src(s.target) for s in branch.body if isinstance(s, ast.AugAssign)]
        ret = any(isinstance(s, ast.Return) for s in branch.body)
        if len(bumps) != 1 or not ret or bumps[0] not in ("self.not_aligned_reads", "self.not_assigned_reads"):
            ctx.fail("W3", branch, f._qualname, "if %s" % src(branch.test), "early-exit branch must count the read once as not aligned / not assigned and return")
        else:
            ctx.ok("W3", "%s:%d" % (LRC, branch.lineno), "early exit counts the read once: %s" % bumps[0])
        k += 1
        branch = branch.orelse[0] if len(branch.orelse) == 1 and isinstance(branch.orelse[0], ast.If) else None
    # merge_counts prints the three stat lines from the summed per-chromosome stats
    m = prog.func("src/file_utils.py", "merge_counts")
    from ..engine import staticeval
    mod = prog.module("src/file_utils.py")
    consts = {}
    for name_, v_ in mod.assigns.items():
        try:
            consts[name_] = staticeval.evaluate(v_, dict(consts))
        except (staticeval.NoEval, Exception):
            pass
    orders = []
    for loop in (l for l in walk_no_nested(m) if isinstance(l, ast.For) and isinstance(l.target, ast.Name)):
        writes = [c for c in walk_no_nested(loop) if isinstance(c, ast.Call) and isinstance(c.func, ast.Attribute) and c.func.attr == "write"
                  and loop.target.id in {n.id for n in ast.walk(c) if isinstance(n, ast.Name)}]
        if not writes:
            continue
        try:
            orders.append((loop, [str(x) for x in staticeval.evaluate(loop.iter, dict(consts))]))
        except (staticeval.NoEval, TypeError, IndexError, KeyError):
            orders.append((loop, None))
    if len(orders) != 1 or orders[0][1] is None:
        ctx.undecided("W3", m, "merge_counts", "the loop that writes the statistics lines (and the constant list it walks) was not found")
    elif orders[0][1] != ["__ambiguous", "__no_feature", "__not_aligned"]:
        ctx.fail("W3", orders[0][0], "merge_counts", "stat lines %s" % orders[0][1],
                 "merge_counts writes the statistics lines %s; the tables end with __ambiguous, __no_feature, __not_aligned in that order" % orders[0][1])
    else:
        ctx.ok("W3", "src/file_utils.py:%d" % m.lineno, "merge_counts writes the three stat lines from summed stats, in the documented order")


def w5(prog, ctx):
    """Fractional weights need a float accumulator: the per-feature cell type must be float."""
    init = prog.func(LRC, "AssignedFeatureCounter.__init__")
    fc = [s_ for s_ in walk_no_nested(init) if isinstance(s_, ast.Assign) and dotted(s_.targets[0]) == "self.feature_counter"]
    if len(fc) != 1:
        raise AnalysisError("AssignedFeatureCounter.feature_counter definition not found")
    v = fc[0].value
    cell = None
    if isinstance(v, ast.Call) and (call_name(v) or "").endswith("defaultdict") and v.args:
        a = v.args[0]
        if isinstance(a, ast.Name):
            cell = (a.id, None)
        elif isinstance(a, ast.Lambda) and isinstance(a.body, ast.Call):
            cell = (call_name(a.body), a.body.args[0] if a.body.args else None)
    if cell is None or cell[0] != "IncrementalDict":
        ctx.fail("W4", fc[0], init._qualname, src(fc[0]), "feature_counter cells are not IncrementalDict accumulators")
        return
    typ = cell[1]
    if typ is None:
        idi = prog.func(LRC, "IncrementalDict.__init__")
        defaults = idi.args.defaults
        typ = defaults[-1] if defaults else None
    if typ is None or src(typ) != "float":
        ctx.fail("W4", fc[0], init._qualname, "%s with cell type %s" % (src(fc[0]), src(typ) if typ is not None else None),
                 "the per-feature accumulator is created with type %s: IncrementalDict.inc() converts the first weight with that "
                 "type, so a first contribution of 1/k is truncated and the table value depends on read order"
                 % (src(typ) if typ is not None else None))
    else:
        ctx.ok("W4", "%s:%d" % (LRC, fc[0].lineno), "feature_counter cells accumulate as float")
    inc = prog.func(LRC, "IncrementalDict.inc")
    if "self.default_type(value)" not in src(inc) or "+= value" not in src(inc):
        ctx.fail("W4", inc, inc._qualname, "inc", "IncrementalDict.inc no longer stores type(value) then adds")


def w_levels(prog, ctx):
    """Each counting table is built with the strategy option of its own feature level, and writes to a file of that level."""
    n = 0
    level = {"create_gene_counter": "gene", "create_transcript_counter": "transcript"}
    for m, q, f in prog.all_functions():
        for c in walk_no_nested(f):
            cn = (call_name(c) or "").split(".")[-1]
            if not (isinstance(c, ast.Call) and cn in level):
                continue
            n += 1
            lv = level[cn]
            strat = c.args[1] if len(c.args) > 1 else next((k.value for k in c.keywords if k.arg == "strategy"), None)
            out = c.args[0] if c.args else next((k.value for k in c.keywords if k.arg == "output_file_name"), None)
            ts = src(strat) if strat is not None else "?"
            if not ts.endswith("args.%s_quantification" % lv):
                ctx.fail("W5", c, q, "%s(..., %s)" % (cn, ts), "the %s-level table %s is weighted with %s instead of the --%s_quantification "
                         "strategy: reads are counted with the weights documented for the other option" % (lv, src(out)[:50], ts, lv))
            elif out is not None and ("_%s_" % lv) not in src(out) and not src(out).split(".")[-1].startswith("out_%s" % lv):
                ctx.fail("W5", c, q, "%s(%s, ...)" % (cn, src(out)), "a %s-level counter writes to %s" % (lv, src(out)))
            else:
                ctx.ok("W5", "%s:%d" % (m.rel, c.lineno), "%s -> %s with %s" % (cn, src(out)[:50], ts))
    ctx.floor("W5", "counter construction sites", n, 6)
    # the factories hand the strategy to the weight counter and pick the extractor of their level
    for cn, lv in level.items():
        f = prog.func(LRC, cn)
        t = src(f)
        if "ReadWeightCounter(strategy)" not in t or ("%sAssignmentExtractor" % lv.capitalize()) not in t:
            ctx.fail("W5", f, cn, cn, "%s does not build ReadWeightCounter(strategy) with the %s extractor" % (cn, lv))


def w6(prog, ctx):
    """The number on the __not_aligned line of an experiment's tables is that experiment's own."""
    from . import c10 as _c10
    DSP = "src/dataset_processor.py"
    n = 0
    for m, q, f in prog.all_functions():
        if m.rel != DSP:
            continue
        env = {a.targets[0].id: a.value for a in walk_no_nested(f) if isinstance(a, ast.Assign) and len(a.targets) == 1
               and isinstance(a.targets[0], ast.Name)}
        for c in walk_no_nested(f):
            if not (isinstance(c, ast.Call) and (call_name(c) or "").split(".")[-1] == "merge_counts"):
                continue
            callee = prog.try_func("src/file_utils.py", "merge_counts")
            if callee is None:
                raise AnalysisError("merge_counts not found")
            params = [a.arg for a in callee.args.args]
            if "unaligned_reads" not in params:
                raise AnalysisError("merge_counts has no unaligned_reads parameter")
            k = params.index("unaligned_reads")
            arg = c.args[k] if k < len(c.args) else next((kw.value for kw in c.keywords if kw.arg == "unaligned_reads"), None)
            if arg is None:
                continue                      # the default (0) - nothing is reported
            n += 1
            if isinstance(arg, ast.Name) and arg.id in env:
                arg = env[arg.id]
            d = None
            for x in ast.walk(arg):
                dd = dotted(x) if isinstance(x, ast.Attribute) else None
                if dd and dd.startswith("self.") and (d is None or len(dd) < len(d)):
                    d = dd
            loc = ".".join((d or "").split(".")[:2])
            if not loc:
                ctx.fail("W6", c, q, src(c)[:90], "the unaligned-read number given to merge_counts is not read from the experiment's alignment statistics")
                continue
            state, node = _c10.driver_location_state(prog, loc)
            if state == "fresh":
                ctx.ok("W6", "%s:%d" % (DSP, c.lineno), "%s: __not_aligned comes from %s, freshly created for every experiment (%s)" % (q, loc, src(node)[:60]))
            else:
                ctx.fail("W6", node if node is not None else c, q, src(c)[:90],
                         "the __not_aligned value comes from %s, which is %s in the per-experiment loop: it is %s before an unconditional fresh "
                         "write of the same iteration, so the second experiment of a run reports the unaligned reads of the first one as well"
                         % (loc, state, "used" if state == "carried" else "never rewritten"))
    ctx.floor("W6", "merge_counts calls that report unaligned reads", n, 2)


def w7(prog, ctx):
    """A record typed ambiguous is weighted 1/k with k = the number of features OF THAT RECORD (add_read_info).  Wherever a record's
    type is set to an ambiguous member, the k that justifies it must therefore be the record's own feature count - not the size of a
    set accumulated over several records."""
    MR = "src/multimap_resolver.py"
    n = 0
    for m, q, f in prog.all_functions():
        if m.rel != MR:
            continue
        single = {}
        for a in walk_no_nested(f):
            if isinstance(a, ast.Assign) and len(a.targets) == 1 and isinstance(a.targets[0], ast.Name):
                single.setdefault(a.targets[0].id, []).append(a.value)
        # locals that can hold an ambiguous member
        amb_locals = {k for k, vs in single.items() if any("ambiguous" in src(v) and "ReadAssignmentType" in src(v) for v in vs)}
        # sets accumulated inside a loop from attributes of the loop's records
        accumulated = {}
        for c in walk_no_nested(f):
            if isinstance(c, ast.Call) and isinstance(c.func, ast.Attribute) and c.func.attr in ("update", "add") and isinstance(c.func.value, ast.Name) \
                    and flow.enclosing_loops(c):
                accumulated.setdefault(c.func.value.id, c)
        for st in walk_no_nested(f):
            if not (isinstance(st, ast.Assign) and any(isinstance(t, ast.Attribute) and t.attr in ("assignment_type", "gene_assignment_type") for t in st.targets)):
                continue
            v = st.value
            if not (("ambiguous" in src(v) and "ReadAssignmentType" in src(v)) or (isinstance(v, ast.Name) and v.id in amb_locals)):
                continue
            n += 1
            agg = None
            for g in flow.guards_of(st, stop=f):
                for name in [x.id for x in ast.walk(g.test) if isinstance(x, ast.Name)]:
                    for dv in single.get(name, []):
                        for y in ast.walk(dv):
                            if isinstance(y, ast.Name) and y.id in accumulated:
                                agg = agg or (name, src(dv), y.id, accumulated[y.id])
            tgt = next(t for t in st.targets if isinstance(t, ast.Attribute))
            if agg:
                ctx.fail("W7", st, q, "%s = <ambiguous>  # under %s" % (src(tgt), agg[0]),
                         "a record's %s is set to an ambiguous type because %s = %s, where %s is accumulated over SEVERAL records of the read "
                         "(%s); AssignedFeatureCounter.add_read_info weights every record by 1 / (number of features of that record) - for a read "
                         "tied between two loci each record has one feature, is weighted 1.0, and the read contributes 2.0 to the table, under "
                         "every quantification strategy" % (tgt.attr, agg[0], agg[1], agg[2], src(agg[3])[:50]))
            else:
                ctx.ok("W7", "%s:%d" % (MR, st.lineno), "%s: ambiguous type justified by the record's own features" % q)
    ctx.floor("W7", "sites typing a record ambiguous in the resolver", n, 2)


def w8(prog, ctx):
    """The weight of a read is 1/k with k = len(extractor.get_features(read)): k has to count DISTINCT features (a read whose matches name one
    gene twice is a read of one gene).  Every get_features implementation returns a set - or a sequence made from one - on every path."""
    from ..engine.setorder import Census
    census = Census(prog)
    n = 0
    for m, q, f in prog.all_functions():
        if m.rel != LRC or not q.endswith(".get_features"):
            continue
        for r in [x for x in walk_no_nested(f) if isinstance(x, ast.Return)]:
            n += 1
            e = r.value
            while isinstance(e, ast.Call) and call_name(e) in ("sorted", "list", "tuple", "frozenset") and e.args:
                e = e.args[0]
            if e is not None and census.is_set_expr(e, f):
                ctx.ok("W8", "%s:%d" % (m.rel, r.lineno), "%s returns a set of features" % q)
                continue
            # a sequence: distinct only if built under a membership test or from dict keys
            kind = None
            if isinstance(e, (ast.List, ast.ListComp, ast.Tuple)):
                kind = "a list"
            elif isinstance(e, ast.Name):
                appends = [c for c in walk_no_nested(f) if isinstance(c, ast.Call) and src(c.func) == e.id + ".append"]
                if appends:
                    guarded = all(any(isinstance(t, ast.Compare) and isinstance(t.ops[0], ast.NotIn) == pol and src(t.comparators[0]) == e.id
                                      and isinstance(t.ops[0], (ast.In, ast.NotIn))
                                      for t, pol in flow.guard_facts(enclosing_stmt(c), stop=f)) for c in appends)
                    if guarded:
                        ctx.ok("W8", "%s:%d" % (m.rel, r.lineno), "%s returns a list filled under `not in` tests" % q)
                        continue
                    kind = "a list filled by append without a membership test"
                else:
                    ds = [st.value for st in walk_no_nested(f) if isinstance(st, ast.Assign) and len(st.targets) == 1 and src(st.targets[0]) == e.id]
                    if ds and all(isinstance(d, (ast.List, ast.ListComp)) for d in ds):
                        kind = "a list"
            many_to_one = any(isinstance(x, ast.Attribute) and x.attr == "assigned_gene" for x in walk_no_nested(f))
            if kind and not many_to_one:
                # one match per isoform: whether two matches can name the same feature here is not visible in the code
                ctx.undecided("W8", r, q, "returns %s of per-match features; distinctness depends on the matches being distinct" % kind)
            elif kind:
                ctx.fail("W8", r, q, src(r)[:80], "get_features returns %s: a feature named by two matches of the read is returned twice, so the "
                         "read is weighted 1/k with k = number of matches instead of the number of distinct features, and the repeated "
                         "feature is credited more than once" % kind)
            else:
                ctx.undecided("W8", r, q, "cannot tell whether %s has distinct elements" % src(r.value)[:60])
    ctx.floor("W8", "return sites of get_features implementations", n, 2)


def w9(prog, ctx):
    """Per-chromosome statistics files are ADDED into the merged statistics: inside the loop over the files the accumulator changes only
    through `acc[key] += value`."""
    FU = "src/file_utils.py"
    f = prog.func_inlined(FU, "merge_counts")
    accs = {}
    for st in f.body:
        if isinstance(st, ast.Assign) and len(st.targets) == 1 and isinstance(st.targets[0], ast.Name) and isinstance(st.value, ast.Dict) \
                and st.value.values and all(isinstance(v, ast.Constant) and v.value == 0 for v in st.value.values):
            accs[st.targets[0].id] = st
    if not accs:
        ctx.undecided("W9", f, "merge_counts", "no zero-initialised statistics table found")
        return
    n = 0
    for acc in accs:
        adds = []
        for lp in [l for l in walk_no_nested(f) if isinstance(l, (ast.For, ast.While))]:
            for st in walk_no_nested(lp):
                if isinstance(st, ast.AugAssign) and isinstance(st.target, ast.Subscript) and src(st.target.value) == acc:
                    if isinstance(st.op, ast.Add):
                        adds.append(st)
                    else:
                        n += 1
                        ctx.fail("W9", st, "merge_counts", src(st)[:80], "the merged statistics are combined with another operation than +")
                elif isinstance(st, ast.Assign) and any((isinstance(t, ast.Subscript) and src(t.value) == acc) or src(t) == acc for t in st.targets):
                    n += 1
                    ctx.fail("W9", st, "merge_counts", src(st)[:80], "inside the loop over the per-chromosome files the statistics table is "
                             "overwritten, not added to: the merged __ambiguous / __no_feature / __usable numbers are those of the last "
                             "chromosome only")
                elif isinstance(st, ast.Expr) and isinstance(st.value, ast.Call) and isinstance(st.value.func, ast.Attribute) \
                        and src(st.value.func.value) == acc and st.value.func.attr in ("update", "setdefault", "clear", "pop", "__setitem__"):
                    n += 1
                    ctx.fail("W9", st, "merge_counts", src(st)[:80], "inside the loop over the per-chromosome files the statistics table is changed "
                             "with .%s(): values of one chromosome replace those of the chromosomes merged before instead of being added"
                             % st.value.func.attr)
        for a in adds:
            n += 1
            ctx.ok("W9", "%s:%d" % (FU, a.lineno), "%s accumulated with += per file line" % acc)
        if not adds and not n:
            ctx.undecided("W9", accs[acc], "merge_counts", "no `%s[...] += ...` inside a loop over the statistics files" % acc)
    ctx.floor("W9", "updates of the merged statistics table", n, 1)


# which weight routine a read of each assignment type goes through (docs/cmd.md, counting strategies: ambiguous reads are the reads
# consistent with several features; every inconsistent type, inconsistent_ambiguous included, is admitted by the *inconsistent* strategies only)
DISPATCH = {"ambiguous": "process_ambiguous", "inconsistent": "process_inconsistent", "inconsistent_non_intronic": "process_inconsistent",
            "inconsistent_ambiguous": "process_inconsistent", "unique": "unique", "unique_minor_difference": "unique"}


def w10(prog, ctx):
    """The type dispatch of add_read_info, evaluated for every member of ReadAssignmentType (the enum's own predicates are read off their
    `return self in [...]` bodies): each type reaches the weight routine the documentation assigns to it."""
    ISO_ = "src/isoform_assignment.py"
    enum = prog.cls(ISO_, "ReadAssignmentType")
    members = [st.targets[0].id for st in enum.body if isinstance(st, ast.Assign) and isinstance(st.targets[0], ast.Name)]
    preds = {}
    for st in enum.body:
        if isinstance(st, ast.FunctionDef):
            r = [x for x in st.body if isinstance(x, ast.Return)]
            if len(r) == 1 and isinstance(r[0].value, ast.Compare) and isinstance(r[0].value.ops[0], ast.In) \
                    and isinstance(r[0].value.comparators[0], (ast.List, ast.Tuple, ast.Set)):
                preds[st.name] = {(dotted(e) or "").split(".")[-1] for e in r[0].value.comparators[0].elts}
    f = prog.func_inlined(LRC, "AssignedFeatureCounter.add_read_info")          # (helpers of the class expanded: a counting helper is counting)
    tvars = {st.targets[0].id for st in walk_no_nested(f) if isinstance(st, ast.Assign) and isinstance(st.targets[0], ast.Name)
             and isinstance(st.value, ast.Call) and (call_name(st.value) or "").endswith("get_assignment_type")}
    if len(tvars) != 1:
        ctx.undecided("W10", f, f._qualname, "the local holding the read's assignment type was not found")
        return
    tv = tvars.pop()

    def ev(t, m):
        if isinstance(t, ast.BoolOp):
            vals = [ev(v, m) for v in t.values]
            if None in vals:
                return None
            return all(vals) if isinstance(t.op, ast.And) else any(vals)
        if isinstance(t, ast.UnaryOp) and isinstance(t.op, ast.Not):
            v = ev(t.operand, m)
            return None if v is None else not v
        if isinstance(t, ast.Compare) and len(t.ops) == 1 and src(t.left) == tv:
            c = t.comparators[0]
            if isinstance(t.ops[0], (ast.Eq, ast.NotEq)) and (dotted(c) or "").startswith("ReadAssignmentType."):
                v = dotted(c).split(".")[-1] == m
                return v if isinstance(t.ops[0], ast.Eq) else not v
            if isinstance(t.ops[0], (ast.In, ast.NotIn)) and isinstance(c, (ast.List, ast.Tuple, ast.Set)):
                v = m in {(dotted(e) or "").split(".")[-1] for e in c.elts}
                return v if isinstance(t.ops[0], ast.In) else not v
        if isinstance(t, ast.Call) and isinstance(t.func, ast.Attribute) and src(t.func.value) == tv and t.func.attr in preds and not t.args:
            return m in preds[t.func.attr]
        return None
    chains = [st for st in f.body if isinstance(st, ast.If) and any(isinstance(x, ast.Name) and x.id == tv for x in ast.walk(st.test))]
    if len(chains) != 1:
        ctx.undecided("W10", f, f._qualname, "expected one if/elif chain on %s at the top level of add_read_info (found %d)" % (tv, len(chains)))
        return
    n = 0
    for m in members:
        node, routine = chains[0], "none"
        while isinstance(node, ast.If):
            v = ev(node.test, m)
            if v is None:
                ctx.undecided("W10", node, f._qualname, "the test %s cannot be evaluated for %s" % (src(node.test)[:60], m))
                return
            if v:
                body_calls = {c.func.attr if isinstance(c.func, ast.Attribute) else (call_name(c) or "") for st in node.body
                              for c in ast.walk(st) if isinstance(c, ast.Call)}
                routine = "process_ambiguous" if "process_ambiguous" in body_calls else \
                    "process_inconsistent" if "process_inconsistent" in body_calls else \
                    "unique" if "inc" in body_calls else "none"
                break
            node = node.orelse[0] if len(node.orelse) == 1 and isinstance(node.orelse[0], ast.If) else None
        n += 1
        want = DISPATCH.get(m, "none")
        if routine != want:
            ctx.fail("W10", chains[0], f._qualname, "%s -> %s" % (m, routine), "a read of type %s is weighted through %s, the documentation assigns "
                     "it to %s: with with_ambiguous such a read adds 1/k to its k features although that strategy does not admit it (and it is "
                     "counted in the wrong statistics line)" % (m, routine, want))
        else:
            ctx.ok("W10", "%s:%d" % (LRC, chains[0].lineno), "%s -> %s" % (m, routine))
    ctx.floor("W10", "assignment types dispatched", n, 9)


def run(prog, ctx):
    ctx.rule("W10", "dispatch table of AssignedFeatureCounter.add_read_info over all members of ReadAssignmentType: ambiguous -> "
                    "process_ambiguous, every inconsistent type -> process_inconsistent, unique types -> weight 1, all others uncounted")
    w10(prog, ctx)
    ctx.rule("W8", "every get_features implementation of the assignment extractors returns a set (or a sequence made from one / filled under a "
                   "membership test): the k of the 1/k weight counts distinct features")
    w8(prog, ctx)
    ctx.rule("W9", "in merge_counts the zero-initialised statistics table is changed inside the loop over the per-chromosome files only by "
                   "`table[key] += value` (no update(), no overwrite)")
    w9(prog, ctx)
    ctx.rule("W5", "every create_gene_counter / create_transcript_counter call passes args.gene_quantification / "
                   "args.transcript_quantification respectively and an output path of the same level; the factories pass the strategy "
                   "to ReadWeightCounter and use their own level's extractor")
    w_levels(prog, ctx)
    ctx.rule("W7", "agreement between who types a record ambiguous and who weights it: the counter divides by the record's own feature count, so a "
                   "site that sets <record>.(gene_)assignment_type to an ambiguous member must not be controlled by the size of a set "
                   "accumulated over several records")
    w7(prog, ctx)
    ctx.rule("W6", "the unaligned-read number passed to merge_counts (the __not_aligned line) is read from a DatasetProcessor location that "
                   "is written unconditionally, before any use, in every iteration of the per-experiment loop (self-calls inlined)")
    w6(prog, ctx)
    ctx.rule("W4", "the accumulator cell type of AssignedFeatureCounter.feature_counter resolves to float (weights 1/k are fractional)")
    ctx.rule("W1", "path enumeration of ReadWeightCounter.process_* with a one-variable interval domain for the feature count: every "
                   "return is 0, 1 or 1/k; 1 only if k <= 1; 1/k only with the documented strategy flags positive on the path; the "
                   "strategy->flag table equals docs/cmd.md")
    ctx.rule("W2", "every feature_counter[..].inc(group, w): w == 1.0 outside loops under a single-feature guard, or w defined by "
                   "process_*(.., len(S)) and added exactly once per element of `for f in S` to feature f")
    ctx.rule("W3", "confirms_feature is implied by unique & spliced-corrected-alignment (truth table over opaque atoms); "
                   "confirmation only via confirms_feature; dump zeroes only unconfirmed features; early exits count the read once")
    w1(prog, ctx)
    w2(prog, ctx)
    w3(prog, ctx)
    w4(prog, ctx)
    w5(prog, ctx)
    ctx.assume("the feature count passed to process_inconsistent is >= 1 (a read reaching it has at least one matched feature)")
    ctx.assume("equality of printed values with sums over reads, %.2f rounding, TPM rescaling and cross-chromosome merging are value-level and not decided")
    ctx.assume("a multi-mapped read kept on two loci is weighted per record (observation in DESIGN.md section 7), not decided here")
