"""C11 - equivariance under strand reflection (structural part).

X2 left/right event tables are symmetric
X1 declared mirrored code pairs are exact duals under a typed reflection (see x1_pairs.py)
"""
import ast
import re

from ..engine.enumtables import EventTables, ISO
from ..engine.program import src, walk_no_nested, call_name, enclosing_stmt
from ..engine import flow


def twin(name):
    if re.search(r"(^|_)left(_|$)", name):
        return re.sub(r"(^|_)left(_|$)", lambda m: m.group(1) + "right" + m.group(2), name, count=1)
    if re.search(r"(^|_)right(_|$)", name):
        return re.sub(r"(^|_)right(_|$)", lambda m: m.group(1) + "left" + m.group(2), name, count=1)
    return None


def x2(prog, ctx):
    t = EventTables(prog)
    mod = prog.module(ISO)
    enum = prog.cls(ISO, "MatchEventSubtype")
    sets = dict(t.predicates)
    for n in ("nic_event_types", "nnic_event_types", "nonintronic_events", "all_major_events", "intronic_major_events"):
        sets[n] = t.named_set(n)
    pairs = 0
    for name in sorted(t.members):
        tw = twin(name)
        if tw is None:
            continue
        if tw not in t.members:
            ctx.fail("X2", enum, "MatchEventSubtype", name, "event %s has no mirror member %s" % (name, tw))
            continue
        if "left" not in name:
            continue  # handle each pair once, from the left member
        pairs += 1
        for sname, s in sorted(sets.items()):
            if (name in s) != (tw in s):
                ctx.fail("X2", enum, "MatchEventSubtype." + sname if sname.startswith("is_") else "<module>",
                         "%s: %s vs %s" % (sname, name, tw),
                         "%s contains %s but not its mirror %s: a read and its reflection are classified differently"
                         % (sname, name if name in s else tw, tw if name in s else name))
            else:
                ctx.ok("X2", ISO, "%s: %s/%s both %s" % (sname, name, tw, "in" if name in s else "out"),
                       nontrivial=name in s)
        if t.cost.get(name) != t.cost.get(tw):
            ctx.fail("X2", mod.assigns["event_subtype_cost"], "<module>", "event_subtype_cost[%s] vs [%s]" % (name, tw),
                     "cost of %s is %s but its mirror %s costs %s" % (name, t.cost.get(name), tw, t.cost.get(tw)))
        else:
            ctx.ok("X2", ISO, "cost(%s) == cost(%s) == %s" % (name, tw, t.cost.get(name)))
        pn, pt = t.printable.get(name), t.printable.get(tw)
        if (pn is None) != (pt is None):
            ctx.fail("X2", mod.assigns["match_subtype_printable_names"], "<module>", "printable names %s / %s" % (name, tw),
                     "only one of %s / %s has strand-aware printable names" % (name, tw))
        elif pn is not None:
            if not (len(pn) == 3 and len(pt) == 3 and pn[0] == pt[1] and pn[1] == pt[0] and pn[2] == pt[2]):
                ctx.fail("X2", mod.assigns["match_subtype_printable_names"], "<module>", "%s=%s / %s=%s" % (name, pn, tw, pt),
                         "printable 5'/3' names of %s and %s are not mirror images (a,b,c)/(b,a,c)" % (name, tw))
            else:
                ctx.ok("X2", ISO, "printable names of %s/%s mirrored: %s" % (name, tw, pn))
    # alternative_sites symmetric
    for (side, known), mem in sorted(t.alternative_sites.items()):
        other = t.alternative_sites.get(("right" if side == "left" else "left", known))
        if other is None or twin(mem) != other or side not in mem:
            ctx.fail("X2", mod.assigns["alternative_sites"], "<module>", "alternative_sites[(%r, %r)]" % (side, known),
                     "alternative_sites maps (%s,%s) to %s whose mirror entry is %s" % (side, known, mem, other))
        else:
            ctx.ok("X2", ISO, "alternative_sites (%s,%s) -> %s mirrored by %s" % (side, known, mem, other))
    # get_mono_exon_classification / polya sets in MatchClassification use left+right together
    ctx.floor("X2", "left/right member pairs", pairs, 14)
    return pairs


def _sentinel_guarded(node, text, stop):
    """True if whenever `node` executes the expression `text` is known to differ from the 'not found' sentinel -1."""
    for atom, pol in flow.guard_facts(node, stop):
        if isinstance(atom, ast.Compare) and len(atom.ops) == 1 and src(atom.comparators[0]) == "-1" and src(atom.left) == text:
            if (isinstance(atom.ops[0], ast.Eq) and not pol) or (isinstance(atom.ops[0], ast.NotEq) and pol):
                return True
    return False


def x3(prog, ctx):
    """-1 ('site not found') is not a coordinate and has no mirror image: it must never enter coordinate arithmetic."""
    PV = "src/polya_verification.py"
    n = 0
    funcs = {q: f for m, q, f in prog.all_functions() if m.rel == PV}
    for q, f in sorted(funcs.items()):
        for p in [a.arg for a in f.args.args if re.search(r"poly[at]_pos$", a.arg)]:
            uses = []
            for node in walk_no_nested(f):
                if isinstance(node, ast.Name) and node.id == p and isinstance(node.ctx, ast.Load):
                    par = node._parent
                    arith = isinstance(par, ast.BinOp) or (isinstance(par, ast.Compare) and
                                                           any(isinstance(o, (ast.Lt, ast.LtE, ast.Gt, ast.GtE)) for o in par.ops))
                    if arith:
                        uses.append(node)
            if not uses:
                continue
            n += 1
            unguarded = [u for u in uses if not _sentinel_guarded(u, p, f)]
            if not unguarded:
                ctx.ok("X3", "%s:%d" % (PV, f.lineno), "%s: every arithmetic use of %s is behind a `%s == -1` exit / `!= -1` test" % (q, p, p))
                continue
            # the callee relies on its callers: every call site must pass a value known to differ from -1
            pos = [a.arg for a in f.args.args].index(p) - (1 if f.args.args[0].arg in ("self", "cls") else 0)
            bad = None
            ncalls = 0
            for m2, q2, f2 in prog.all_functions():
                for c in walk_no_nested(f2):
                    if isinstance(c, ast.Call) and (call_name(c) or "").split(".")[-1] == q.split(".")[-1] and len(c.args) > pos:
                        ncalls += 1
                        if not _sentinel_guarded(c, src(c.args[pos]), f2):
                            bad = bad or (m2, q2, c)
            if bad:
                ctx.fail("X3", bad[2], bad[1], "%s passes %s" % (src(bad[2])[:70], src(bad[2].args[pos])),
                         "%s computes with its parameter %s (e.g. `%s`) without testing it for the 'not found' value -1, and this caller "
                         "passes %s without such a test either: -1 enters coordinate arithmetic, where it yields a plausible-looking "
                         "position on one strand and junk on the other (the sentinel has no mirror image)"
                         % (q, p, src(enclosing_stmt(unguarded[0]))[:50], src(bad[2].args[pos])))
            else:
                ctx.ok("X3", "%s:%d" % (PV, f.lineno), "%s does not test %s itself, but all %d call sites pass a value tested against -1" % (q, p, ncalls))
    ctx.floor("X3", "functions computing with a polyA/polyT position parameter", n, 4)


def run(prog, ctx):
    ctx.rule("X3", "a parameter named *polya_pos / *polyt_pos that is used in arithmetic or an ordering comparison is protected from the "
                   "sentinel -1 by a dominating `== -1` exit / `!= -1` test in the function, or at every call site")
    x3(prog, ctx)
    ctx.rule("X2", "every *_left member of MatchEventSubtype has a *_right twin; twins lie in the same classification sets, "
                   "have equal cost, mirrored printable names, and alternative_sites is side-symmetric")
    x2(prog, ctx)
    from . import x1_pairs
    x1_pairs.run(prog, ctx)
    ctx.rule("X4", "strand decision table (rule N6 of C04): StrandDetector.get_strand / get_clean_strand answer the opposite strand for the "
                   "mirrored case (forward <-> reverse canonical sites, polyA <-> polyT), over all small cases")
    from . import c04 as _c04
    _c04.strand_table(prog, ctx, "X4")
    ctx.assume("translation equivariance and all value-level equivariance are runtime-valued and not decided")
