"""C11 - equivariance under strand reflection (structural part).

X2 left/right event tables are symmetric
X1 declared mirrored code pairs are exact duals under a typed reflection (see x1_pairs.py)
"""
import ast
import re

from ..engine.enumtables import EventTables, ISO
from ..engine.program import AnalysisError, src, walk_no_nested, call_name, enclosing_stmt
from ..engine import flow


def twin(name):
    if re.search(r"(^|_)left(_|$)", name):
        return re.sub(r"(^|_)left(_|$)", lambda m: m.group(1) + "right" + m.group(2), name, count=1)
    if re.search(r"(^|_)right(_|$)", name):
        return re.sub(r"(^|_)right(_|$)", lambda m: m.group(1) + "left" + m.group(2), name, count=1)
    return None


def x2(prog, ctx):
    t = EventTables(prog)
    mod = prog.module(ISO)
    enum = prog.cls(ISO, "MatchEventSubtype")
    sets = dict(t.predicates)
    for n in ("nic_event_types", "nnic_event_types", "nonintronic_events", "all_major_events", "intronic_major_events"):
        sets[n] = t.named_set(n)
    pairs = 0
    for name in sorted(t.members):
        tw = twin(name)
        if tw is None:
            continue
        if tw not in t.members:
            ctx.fail("X2", enum, "MatchEventSubtype", name, "event %s has no mirror member %s" % (name, tw))
            continue
        if "left" not in name:
            continue  # handle each pair once, from the left member
        pairs += 1
        for sname, s in sorted(sets.items()):
            if (name in s) != (tw in s):
                ctx.fail("X2", enum, "MatchEventSubtype." + sname if sname.startswith("is_") else "<module>",
                         "%s: %s vs %s" % (sname, name, tw),
                         "%s contains %s but not its mirror %s: a read and its reflection are classified differently"
                         % (sname, name if name in s else tw, tw if name in s else name))
            else:
                ctx.ok("X2", ISO, "%s: %s/%s both %s" % (sname, name, tw, "in" if name in s else "out"),
                       nontrivial=name in s)
        if t.cost.get(name) != t.cost.get(tw):
            ctx.fail("X2", mod.assigns["event_subtype_cost"], "<module>", "event_subtype_cost[%s] vs [%s]" % (name, tw),
                     "cost of %s is %s but its mirror %s costs %s" % (name, t.cost.get(name), tw, t.cost.get(tw)))
        else:
            ctx.ok("X2", ISO, "cost(%s) == cost(%s) == %s" % (name, tw, t.cost.get(name)))
        pn, pt = t.printable.get(name), t.printable.get(tw)
        if (pn is None) != (pt is None):
            ctx.fail("X2", mod.assigns["match_subtype_printable_names"], "<module>", "printable names %s / %s" % (name, tw),
                     "only one of %s / %s has strand-aware printable names" % (name, tw))
        elif pn is not None:
            if not (len(pn) == 3 and len(pt) == 3 and pn[0] == pt[1] and pn[1] == pt[0] and pn[2] == pt[2]):
                ctx.fail("X2", mod.assigns["match_subtype_printable_names"], "<module>", "%s=%s / %s=%s" % (name, pn, tw, pt),
                         "printable 5'/3' names of %s and %s are not mirror images (a,b,c)/(b,a,c)" % (name, tw))
            else:
                ctx.ok("X2", ISO, "printable names of %s/%s mirrored: %s" % (name, tw, pn))
    # alternative_sites symmetric
    for (side, known), mem in sorted(t.alternative_sites.items()):
        other = t.alternative_sites.get(("right" if side == "left" else "left", known))
        if other is None or twin(mem) != other or side not in mem:
            ctx.fail("X2", mod.assigns["alternative_sites"], "<module>", "alternative_sites[(%r, %r)]" % (side, known),
                     "alternative_sites maps (%s,%s) to %s whose mirror entry is %s" % (side, known, mem, other))
        else:
            ctx.ok("X2", ISO, "alternative_sites (%s,%s) -> %s mirrored by %s" % (side, known, mem, other))
    # get_mono_exon_classification / polya sets in MatchClassification use left+right together
    ctx.floor("X2", "left/right member pairs", pairs, 14)
    return pairs


def _sentinel_guarded(node, text, stop):
    """True if whenever `node` executes the expression `text` is known to differ from the 'not found' sentinel -1."""
    for atom, pol in flow.guard_facts(node, stop):
        if isinstance(atom, ast.Compare) and len(atom.ops) == 1 and src(atom.comparators[0]) == "-1" and src(atom.left) == text:
            if (isinstance(atom.ops[0], ast.Eq) and not pol) or (isinstance(atom.ops[0], ast.NotEq) and pol):
                return True
    return False


def x3(prog, ctx):
    """-1 ('site not found') is not a coordinate and has no mirror image: it must never enter coordinate arithmetic."""
    PV = "src/polya_verification.py"
    n = 0
    funcs = {q: f for m, q, f in prog.all_functions() if m.rel == PV}
    for q, f in sorted(funcs.items()):
        for p in [a.arg for a in f.args.args if re.search(r"poly[at]_pos$", a.arg)]:
            uses = []
            for node in walk_no_nested(f):
                if isinstance(node, ast.Name) and node.id == p and isinstance(node.ctx, ast.Load):
                    par = node._parent
                    arith = isinstance(par, ast.BinOp) or (isinstance(par, ast.Compare) and
                                                           any(isinstance(o, (ast.Lt, ast.LtE, ast.Gt, ast.GtE)) for o in par.ops))
                    if arith:
                        uses.append(node)
            if not uses:
                continue
            n += 1
            unguarded = [u for u in uses if not _sentinel_guarded(u, p, f)]
            if not unguarded:
                ctx.ok("X3", "%s:%d" % (PV, f.lineno), "%s: every arithmetic use of %s is behind a `%s == -1` exit / `!= -1` test" % (q, p, p))
                continue
            # the callee relies on its callers: every call site must pass a value known to differ from -1
            pos = [a.arg for a in f.args.args].index(p) - (1 if f.args.args[0].arg in ("self", "cls") else 0)
            bad = None
            ncalls = 0
            for m2, q2, f2 in prog.all_functions():
                for c in walk_no_nested(f2):
                    if isinstance(c, ast.Call) and (call_name(c) or "").split(".")[-1] == q.split(".")[-1] and len(c.args) > pos:
                        ncalls += 1
                        if not _sentinel_guarded(c, src(c.args[pos]), f2):
                            bad = bad or (m2, q2, c)
            if bad:
                ctx.fail("X3", bad[2], bad[1], "%s passes %s" % (src(bad[2])[:70], src(bad[2].args[pos])),
                         "%s computes with its parameter %s (e.g. `%s`) without testing it for the 'not found' value -1, and this caller "
                         "passes %s without such a test either: -1 enters coordinate arithmetic, where it yields a plausible-looking "
                         "position on one strand and junk on the other (the sentinel has no mirror image)"
                         % (q, p, src(enclosing_stmt(unguarded[0]))[:50], src(bad[2].args[pos])))
            else:
                ctx.ok("X3", "%s:%d" % (PV, f.lineno), "%s does not test %s itself, but all %d call sites pass a value tested against -1" % (q, p, ncalls))
    ctx.floor("X3", "functions computing with a polyA/polyT position parameter", n, 4)
    # the fields of PolyAInfo themselves: combined by max / min (which picks the outer tail position on one strand and the inner one on the
    # other - and a found position over 'not found' only because -1 happens to be small), added, subtracted or ordered only behind a test
    fields = ("external_polya_pos", "internal_polya_pos", "external_polyt_pos", "internal_polyt_pos")
    k = 0
    for m, q, f in prog.all_functions():
        for node in walk_no_nested(f):
            if not (isinstance(node, ast.Attribute) and node.attr in fields and isinstance(node.ctx, ast.Load)):
                continue
            par = node._parent
            how = None
            if isinstance(par, ast.Call) and call_name(par) in ("max", "min") and node in par.args:
                how = "%s(...)" % call_name(par)
            elif isinstance(par, ast.BinOp):
                how = "arithmetic"
            elif isinstance(par, ast.Compare) and any(isinstance(o, (ast.Lt, ast.LtE, ast.Gt, ast.GtE)) for o in par.ops):
                how = "an ordering comparison"
            if how is None:
                continue
            k += 1
            if _sentinel_guarded(node, src(node), f):
                ctx.ok("X3", "%s:%d" % (m.rel, node.lineno), "%s: %s used in %s behind a test against -1" % (q, src(node), how))
            else:
                ctx.fail("X3", node, q, src(enclosing_stmt(node))[:90], "%s enters %s without a test against the 'not found' value -1: the "
                         "sentinel takes part in choosing / computing a coordinate, and what is chosen for a polyA position is not the "
                         "mirror image of what is chosen for a polyT position (max picks the outer tail end on one strand, the inner on "
                         "the other)" % (src(node), how))
    ctx.extra["x3_field_uses"] = k


def x5(prog, ctx):
    """Where the tail position is put relative to the tail: find_polya_tail reports (coordinate of the first tail base) + dA,
    find_polyt_head reports (coordinate of the last head base) + dT; the two are mirror images iff dT == -dA, in the branch where the
    tail lies in the clipped part and in the branch where it lies inside the aligned part.

    Conventions used (pysam): alignment.reference_end = 1-based coordinate L of the last aligned base (0-based exclusive end);
    alignment.reference_start = F - 1 with F the 1-based coordinate of the first aligned base; read index m_end = first base after the
    aligned part, m_start = first aligned base; for an ungapped walk move_ref_coord_alogn_alignment(alignment, shift) = |shift|
    (the walkers themselves are decided by C16/Q1, Q3).  The offsets are read off every returning path (helpers inlined): the part of
    the path after the last assignment of the read index is evaluated symbolically, so that the result is a linear form over the
    reference coordinate, the read index and the mapped-region boundary."""
    from ..engine import linform as lf, symexec
    PFM = "src/polya_finder.py"
    res = {}
    for name, ref_attr in (("PolyAFinder.find_polya_tail", "alignment.reference_end"), ("PolyAFinder.find_polyt_head", "alignment.reference_start")):
        f0 = prog.func_inlined(PFM, name, exclude=("move_ref_coord_alogn_alignment", "find_polya"))
        # the projection onto the reference may have been split off into a helper of the class: analyse the function that holds it
        cands = [(f0, {a.arg for a in f0.args.args})]
        meths = prog.methods_of(prog.cls(PFM, "PolyAFinder"), inherited=False)
        for c in ast.walk(prog.func(PFM, name)):
            if isinstance(c, ast.Call) and isinstance(c.func, ast.Attribute) and c.func.attr in meths and c.func.attr != name.split(".")[-1]:
                cands.append((meths[c.func.attr], set()))
        f = bounds = pos_names = None
        for g, excluded in cands:
            b_ = {n.id for n in ast.walk(g) if isinstance(n, ast.Name) and "mapped_region" in n.id} | \
                 {a.arg for a in g.args.args if "mapped_region" in a.arg}
            p_ = set()
            for n in ast.walk(g):
                pair = None
                if isinstance(n, ast.BinOp) and isinstance(n.op, ast.Sub):
                    pair = (n.left, n.right)
                elif isinstance(n, ast.Compare) and len(n.ops) == 1:
                    pair = (n.left, n.comparators[0])
                if pair and all(isinstance(x, ast.Name) for x in pair):
                    ids = {pair[0].id, pair[1].id}
                    if len(ids & b_) == 1:
                        p_ |= ids - b_ - excluded
            if len(b_) == 1 and len(p_) == 1 and ref_attr.split(".")[-1] in {a.attr for a in ast.walk(g) if isinstance(a, ast.Attribute)}:
                f, bounds, pos_names = g, b_, p_
                break
        if f is None:
            raise AnalysisError("%s: read index / mapped-region boundary not identified in the function or its helpers" % name)
        bound, pos = next(iter(bounds)), next(iter(pos_names))
        out = {}
        for pth in flow.paths(f):
            if pth.exit != "return" or pth.exit_node is None or pth.exit_node.value is None:
                continue
            rv = pth.exit_node.value
            if isinstance(rv, ast.Constant) or (isinstance(rv, ast.UnaryOp) and isinstance(rv.operand, ast.Constant)):
                continue
            # suffix of the path after the last (re)definition of the read index
            last = -1
            for i_, ev in enumerate(pth.events):
                if ev[0] == "stmt" and isinstance(ev[1], (ast.Assign, ast.AugAssign)):
                    tg = ev[1].targets if isinstance(ev[1], ast.Assign) else [ev[1].target]
                    if any(isinstance(t, ast.Name) and t.id in (pos, bound) for t in tg):
                        last = i_
            suffix = flow.Path(pth.events[last + 1:], pth.exit, pth.exit_node)
            env = symexec.run_path(suffix)
            val = symexec.subst(rv, env)
            if isinstance(val, ast.Call) and (call_name(val) or "") == "max" and len(val.args) == 2:       # max(1, position): clamp at the chromosome start
                val = next(a for a in val.args if not isinstance(a, ast.Constant))
            # which side of the boundary: from the conditions of the suffix
            sub = symexec.cond_substituter(suffix)
            side = None
            for i_, ev in enumerate(suffix.events):
                if ev[0] != "cond":
                    continue
                for atom, pol in flow.conjuncts(ev[1], ev[2]):
                    atom = sub(atom, i_)
                    if isinstance(atom, ast.Compare) and len(atom.ops) == 1:
                        d = dict(lf.linform(atom.left))
                        for k, c in lf.linform(atom.comparators[0]).items():
                            d[k] = d.get(k, 0) - c
                        d = {k: c for k, c in d.items() if c}
                        if set(d) - {"1"} == {pos, bound} and d[pos] == -d[bound]:
                            op = type(atom.ops[0])
                            if not pol:
                                op = {ast.Lt: ast.GtE, ast.LtE: ast.Gt, ast.Gt: ast.LtE, ast.GtE: ast.Lt}.get(op)
                            sgn = d[pos]          # sgn * (pos - bound) + c  op 0
                            c0 = d.get("1", 0)
                            if op in (ast.Gt, ast.GtE):
                                side = ("above" if sgn > 0 else "below", c0, op)
                            elif op in (ast.Lt, ast.LtE):
                                side = ("below" if sgn > 0 else "above", c0, op)
            if side is None:
                raise AnalysisError("%s: a returning path does not compare the read index with the mapped-region boundary: %s" % (name, pth.describe()[:100]))
            above = side[0] == "above"
            # |shift| for the walker: shift = +-(pos - bound)
            def walker(e):
                class T(ast.NodeTransformer):
                    def visit_Call(self_, c):
                        if (call_name(c) or "").endswith("move_ref_coord_alogn_alignment") and len(c.args) == 2:
                            sh = lf.linform(c.args[1])
                            if set(sh) == {pos, bound} and sh[pos] == -sh[bound]:
                                mag = ast.BinOp(left=ast.Name(id=pos, ctx=ast.Load()), op=ast.Sub(), right=ast.Name(id=bound, ctx=ast.Load()))
                                return mag if above else ast.UnaryOp(op=ast.USub(), operand=mag)
                        return self_.generic_visit(c)
                return T().visit(symexec.clone(e))
            form = lf.linform(walker(val))
            base = {ref_attr: 1, pos: 1, bound: -1}
            rest = dict(form)
            for k, c in base.items():
                rest[k] = rest.get(k, 0) - c
            rest = {k: c for k, c in rest.items() if c}
            if set(rest) - {"1"}:
                raise AnalysisError("%s: position on path %s is not %s + %s - %s + const: %s" % (name, pth.describe()[:60], ref_attr, pos, bound, lf.fmt(form)))
            in_clip = above if ref_attr.endswith("reference_end") else not above
            label = "tail in the clipped part" if in_clip else "tail inside the aligned part"
            off = rest.get("1", 0) - 1
            if label in out and out[label] != off:
                raise AnalysisError("%s: two paths of the branch '%s' give different offsets" % (name, label))
            out[label] = off
        if len(out) != 2:
            raise AnalysisError("%s: expected a clipped and an aligned branch, found %s" % (name, sorted(out)))
        res[name] = (out, f)
    (da, fa), (dt, ft) = res["PolyAFinder.find_polya_tail"], res["PolyAFinder.find_polyt_head"]
    for label in sorted(da):
        if da[label] + dt[label] == 0:
            ctx.ok("X5", "%s:%d" % (PFM, ft.lineno), "%s: polyA = first tail base %+d, polyT = last head base %+d (mirror images)" % (label, da[label], dt[label]))
        else:
            ctx.fail("X5", ft, "PolyAFinder.find_polya_tail / find_polyt_head", label,
                     "%s: the polyA position is (first tail base) %+d, the polyT position is (last head base) %+d; mirror images would be %+d and %+d. "
                     "The same molecule read from the other strand gets its tail position %d bp further out, so a polyT-defined transcript "
                     "start is not the mirror image of the polyA-defined end of the reverse-complemented input"
                     % (label, da[label], dt[label], da[label], -da[label], abs(da[label] + dt[label])))


def x6(prog, ctx, tag="X6", canonical=True):
    """Side-specific constant tables come in pairs (a polyA-side and a polyT-side list, a forward and a reverse table): the second must be
    the mirror image of the first."""
    from ..engine.reflect import dual_ident
    n = 0
    for rel, m in sorted(prog.modules.items()):
        tables = {}
        for st in ast.walk(m.tree):
            if isinstance(st, ast.Assign) and len(st.targets) == 1 and isinstance(st.targets[0], ast.Name) \
                    and isinstance(st.value, (ast.List, ast.Tuple, ast.Set)) and st.value.elts \
                    and all(isinstance(e, ast.Attribute) for e in st.value.elts) \
                    and not isinstance(getattr(st, "_parent", None), (ast.FunctionDef, ast.AsyncFunctionDef)):
                owner = getattr(st, "_parent", None)
                tables[(getattr(owner, "name", ""), st.targets[0].id)] = st
        for (owner, name), st in sorted(tables.items()):
            for cand in {dual_ident(name), dual_ident(name.lower()).upper() if name.isupper() else dual_ident(name)}:
                if cand != name and (owner, cand) in tables and name < cand:
                    other = tables[(owner, cand)]
                    n += 1

                    def mirrored(e):
                        parts = src(e).split(".")
                        parts[-1] = dual_ident(parts[-1])
                        return ".".join(parts)
                    left = sorted(mirrored(e) for e in st.value.elts)
                    right = sorted(src(e) for e in other.value.elts)
                    if left != right:
                        ctx.fail(tag, other, (owner + "." if owner else "") + cand, "%s vs mirrored %s" % (right, left),
                                 "the table %s is not the mirror image of its twin %s: it holds %s where the mirror image of the twin is %s - the "
                                 "two strands / sides are handled with different event sets" % (cand, name, right, left))
                    else:
                        ctx.ok(tag, "%s:%d" % (rel, other.lineno), "%s is the mirror image of %s" % (cand, name))
    if canonical:
        from . import c18 as _c18
        _c18.k3(prog, ctx, tag=tag)
    return n


def x7(prog, ctx):
    """The annotated features of the overlapping-features profile (introns of all isoforms) are sorted by START; their ENDs are not monotone
    (a long intron can enclose a short one).  The mirror image of 'sorted by start' is 'sorted by end, descending', which this list is not:
    a scan may stop early on a test of a feature's start, never on a test of its end - the polyT side has no such shortcut."""
    LRP = "src/long_read_profiles.py"
    cls = prog.cls(LRP, "OverlappingFeaturesProfileConstructor")
    n = 0
    for name, f in sorted(prog.methods_of(cls, inherited=False).items()):
        for lp in [l for l in walk_no_nested(f) if isinstance(l, (ast.For, ast.While))]:
            if "known_features" not in src(lp.iter if isinstance(lp, ast.For) else lp.test):
                continue
            n += 1
            for ex in [x for x in walk_no_nested(lp) if isinstance(x, (ast.Break, ast.Return))]:
                if [l for l in flow.enclosing_loops(ex) if l is lp] == []:
                    continue
                for g in flow.guards_of(ex, stop=lp):
                    ends = [x for x in ast.walk(g.test) if isinstance(x, ast.Subscript) and isinstance(x.slice, ast.Constant) and x.slice.value == 1
                            and "known_features" in src(x.value)]
                    if ends:
                        ctx.fail("X7", ex, "OverlappingFeaturesProfileConstructor." + name, "early exit on %s" % src(g.test)[:70],
                                 "the scan over the annotated features stops at the first feature whose END satisfies %s; the list is sorted by "
                                 "start only, so a long feature that starts earlier ends the scan before shorter features behind it are "
                                 "visited - on the polyT side only, the polyA side (test on starts) has no counterpart of this error"
                                 % src(g.test)[:60])
    if not [x for x in ctx.findings if x.rule == "X7"]:
        ctx.ok("X7", LRP, "%d scans over known_features of the overlapping-features constructor, none left early on a test of a feature's end" % n)
    ctx.floor("X7", "loops over known_features in OverlappingFeaturesProfileConstructor", n, 3)


def run(prog, ctx):
    ctx.rule("X7", "no loop over known_features of OverlappingFeaturesProfileConstructor (sorted by start, ends not monotone) is left by break / "
                   "return under a test of a feature's end coordinate")
    x7(prog, ctx)
    ctx.rule("X3", "a parameter named *polya_pos / *polyt_pos that is used in arithmetic or an ordering comparison is protected from the "
                   "sentinel -1 by a dominating `== -1` exit / `!= -1` test in the function, or at every call site")
    x3(prog, ctx)
    ctx.rule("X2", "every *_left member of MatchEventSubtype has a *_right twin; twins lie in the same classification sets, "
                   "have equal cost, mirrored printable names, and alternative_sites is side-symmetric")
    x2(prog, ctx)
    from . import x1_pairs
    x1_pairs.run(prog, ctx)
    ctx.rule("X6", "twin constant tables: a module- or class-level table of enum members whose name has a dual (polya/polyt, left/right, ...) "
                   "equals the twin with every member's side dualised; CANONICAL_REV_SITES is the reverse complement of CANONICAL_FWD_SITES")
    x6(prog, ctx)
    ctx.rule("X5", "offset of the reported tail position from the tail itself, in linear form, for find_polya_tail and find_polyt_head and both of "
                   "their branches (tail in the clipped part / inside the aligned part), under pysam's coordinate conventions: the polyT offset "
                   "must be the negated polyA offset")
    x5(prog, ctx)
    ctx.rule("X4", "strand decision table (rule N6 of C04): StrandDetector.get_strand / get_clean_strand answer the opposite strand for the "
                   "mirrored case (forward <-> reverse canonical sites, polyA <-> polyT), over all small cases")
    from . import c04 as _c04
    _c04.strand_table(prog, ctx, "X4")
    ctx.assume("translation equivariance and all value-level equivariance are runtime-valued and not decided")
