"""C11 - equivariance under strand reflection (structural part).

X2 left/right event tables are symmetric
X1 declared mirrored code pairs are exact duals under a typed reflection (see x1_pairs.py)
"""
import ast
import re

from ..engine.enumtables import EventTables, ISO
from ..engine.program import src, walk_no_nested, call_name, enclosing_stmt
from ..engine import flow


def twin(name):
    if re.search(r"(^|_)left(_|$)", name):
        return re.sub(r"(^|_)left(_|$)", lambda m: m.group(1) + "right" + m.group(2), name, count=1)
    if re.search(r"(^|_)right(_|$)", name):
        return re.sub(r"(^|_)right(_|$)", lambda m: m.group(1) + "left" + m.group(2), name, count=1)
    return None


def x2(prog, ctx):
    t = EventTables(prog)
    mod = prog.module(ISO)
    enum = prog.cls(ISO, "MatchEventSubtype")
    sets = dict(t.predicates)
    for n in ("nic_event_types", "nnic_event_types", "nonintronic_events", "all_major_events", "intronic_major_events"):
        sets[n] = t.named_set(n)
    pairs = 0
    for name in sorted(t.members):
        tw = twin(name)
        if tw is None:
            continue
        if tw not in t.members:
            ctx.fail("X2", enum, "MatchEventSubtype", name, "event %s has no mirror member %s" % (name, tw))
            continue
        if "left" not in name:
            continue  # handle each pair once, from the left member
        pairs += 1
        for sname, s in sorted(sets.items()):
            if (name in s) != (tw in s):
                ctx.fail("X2", enum, "MatchEventSubtype." + sname if sname.startswith("is_") else "<module>",
                         "%s: %s vs %s" % (sname, name, tw),
                         "%s contains %s but not its mirror %s: a read and its reflection are classified differently"
                         % (sname, name if name in s else tw, tw if name in s else name))
            else:
                ctx.ok("X2", ISO, "%s: %s/%s both %s" % (sname, name, tw, "in" if name in s else "out"),
                       nontrivial=name in s)
        if t.cost.get(name) != t.cost.get(tw):
            ctx.fail("X2", mod.assigns["event_subtype_cost"], "<module>", "event_subtype_cost[%s] vs [%s]" % (name, tw),
                     "cost of %s is %s but its mirror %s costs %s" % (name, t.cost.get(name), tw, t.cost.get(tw)))
        else:
            ctx.ok("X2", ISO, "cost(%s) == cost(%s) == %s" % (name, tw, t.cost.get(name)))
        pn, pt = t.printable.get(name), t.printable.get(tw)
        if (pn is None) != (pt is None):
            ctx.fail("X2", mod.assigns["match_subtype_printable_names"], "<module>", "printable names %s / %s" % (name, tw),
                     "only one of %s / %s has strand-aware printable names" % (name, tw))
        elif pn is not None:
            if not (len(pn) == 3 and len(pt) == 3 and pn[0] == pt[1] and pn[1] == pt[0] and pn[2] == pt[2]):
                ctx.fail("X2", mod.assigns["match_subtype_printable_names"], "<module>", "%s=%s / %s=%s" % (name, pn, tw, pt),
                         "printable 5'/3' names of %s and %s are not mirror images (a,b,c)/(b,a,c)" % (name, tw))
            else:
                ctx.ok("X2", ISO, "printable names of %s/%s mirrored: %s" % (name, tw, pn))
    # alternative_sites symmetric
    for (side, known), mem in sorted(t.alternative_sites.items()):
        other = t.alternative_sites.get(("right" if side == "left" else "left", known))
        if other is None or twin(mem) != other or side not in mem:
            ctx.fail("X2", mod.assigns["alternative_sites"], "<module>", "alternative_sites[(%r, %r)]" % (side, known),
                     "alternative_sites maps (%s,%s) to %s whose mirror entry is %s" % (side, known, mem, other))
        else:
            ctx.ok("X2", ISO, "alternative_sites (%s,%s) -> %s mirrored by %s" % (side, known, mem, other))
    # get_mono_exon_classification / polya sets in MatchClassification use left+right together
    ctx.floor("X2", "left/right member pairs", pairs, 14)
    return pairs


def _sentinel_guarded(node, text, stop):
    """True if whenever `node` executes the expression `text` is known to differ from the 'not found' sentinel -1."""
    for atom, pol in flow.guard_facts(node, stop):
        if isinstance(atom, ast.Compare) and len(atom.ops) == 1 and src(atom.comparators[0]) == "-1" and src(atom.left) == text:
            if (isinstance(atom.ops[0], ast.Eq) and not pol) or (isinstance(atom.ops[0], ast.NotEq) and pol):
                return True
    return False


def x3(prog, ctx):
    """-1 ('site not found') is not a coordinate and has no mirror image: it must never enter coordinate arithmetic."""
    PV = "src/polya_verification.py"
    n = 0
    funcs = {q: f for m, q, f in prog.all_functions() if m.rel == PV}
    for q, f in sorted(funcs.items()):
        for p in [a.arg for a in f.args.args if re.search(r"poly[at]_pos$", a.arg)]:
            uses = []
            for node in walk_no_nested(f):
                if isinstance(node, ast.Name) and node.id == p and isinstance(node.ctx, ast.Load):
                    par = node._parent
                    arith = isinstance(par, ast.BinOp) or (isinstance(par, ast.Compare) and
                                                           any(isinstance(o, (ast.Lt, ast.LtE, ast.Gt, ast.GtE)) for o in par.ops))
                    if arith:
                        uses.append(node)
            if not uses:
                continue
            n += 1
            unguarded = [u for u in uses if not _sentinel_guarded(u, p, f)]
            if not unguarded:
                ctx.ok("X3", "%s:%d" % (PV, f.lineno), "%s: every arithmetic use of %s is behind a `%s == -1` exit / `!= -1` test" % (q, p, p))
                continue
            # the callee relies on its callers: every call site must pass a value known to differ from -1
            pos = [a.arg for a in f.args.args].index(p) - (1 if f.args.args[0].arg in ("self", "cls") else 0)
            bad = None
            ncalls = 0
            for m2, q2, f2 in prog.all_functions():
                for c in walk_no_nested(f2):
                    if isinstance(c, ast.Call) and (call_name(c) or "").split(".")[-1] == q.split(".")[-1] and len(c.args) > pos:
                        ncalls += 1
                        if not _sentinel_guarded(c, src(c.args[pos]), f2):
                            bad = bad or (m2, q2, c)
            if bad:
                ctx.fail("X3", bad[2], bad[1], "%s passes %s" % (src(bad[2])[:70], src(bad[2].args[pos])),
                         "%s computes with its parameter %s (e.g. `%s`) without testing it for the 'not found' value -1, and this caller "
                         "passes %s without such a test either: -1 enters coordinate arithmetic, where it yields a plausible-looking "
                         "position on one strand and junk on the other (the sentinel has no mirror image)"
                         % (q, p, src(enclosing_stmt(unguarded[0]))[:50], src(bad[2].args[pos])))
            else:
                ctx.ok("X3", "%s:%d" % (PV, f.lineno), "%s does not test %s itself, but all %d call sites pass a value tested against -1" % (q, p, ncalls))
    ctx.floor("X3", "functions computing with a polyA/polyT position parameter", n, 4)


def x5(prog, ctx):
    """Where the tail position is put relative to the tail: find_polya_tail reports (coordinate of the first tail base) + dA,
    find_polyt_head reports (coordinate of the last head base) + dT; the two are mirror images iff dT == -dA, in the branch where the
    tail lies in the clipped part and in the branch where it lies inside the aligned part.

    Conventions used (pysam): alignment.reference_end = 1-based coordinate L of the last aligned base (0-based exclusive end);
    alignment.reference_start = F - 1 with F the 1-based coordinate of the first aligned base; read index m_end = first base after the
    aligned part, m_start = first aligned base; for an ungapped walk move_ref_coord_alogn_alignment(alignment, shift) = |shift|
    (the walkers themselves are decided by C16/Q1, Q3)."""
    from ..engine import linform as lf, symexec
    PFM = "src/polya_finder.py"
    res = {}
    for name, ref_attr in (("PolyAFinder.find_polya_tail", "alignment.reference_end"), ("PolyAFinder.find_polyt_head", "alignment.reference_start")):
        f = prog.func(PFM, name)
        rets = [r for r in walk_no_nested(f) if isinstance(r, ast.Return) and r.value is not None and not isinstance(r.value, ast.Constant)
                and not (isinstance(r.value, ast.UnaryOp))]
        if len(rets) != 1:
            raise AnalysisError("%s: expected one non-constant return" % name)
        rv = rets[0].value
        if isinstance(rv, ast.Call) and (call_name(rv) or "") == "max" and len(rv.args) == 2:      # max(1, position): clamp at the chromosome start
            rv = next(a for a in rv.args if not isinstance(a, ast.Constant))
        if not isinstance(rv, ast.Name):
            raise AnalysisError("%s: returned position is not a local" % name)
        # the last if-statement both of whose branches assign the returned local
        cand = [st for st in f.body if isinstance(st, ast.If) and st.orelse
                and all(any(isinstance(a, ast.Assign) and src(a.targets[0]) == rv.id for a in blk) for blk in (st.body, st.orelse))]
        if len(cand) != 1 or not (isinstance(cand[0].test, ast.Compare) and len(cand[0].test.ops) == 1):
            raise AnalysisError("%s: the clipped / aligned case distinction for %s was not found" % (name, rv.id))
        st = cand[0]
        l, r = st.test.left, st.test.comparators[0]
        if not (isinstance(l, ast.Name) and isinstance(r, ast.Name)):
            raise AnalysisError("%s: case distinction is not <read index> <op> <mapped-region boundary>" % name)
        pos, bound = l.id, r.id
        out = {}
        for label, blk, in_clip in (("tail in the clipped part", st.body, True), ("tail inside the aligned part", st.orelse, False)):
            env = {}
            for a in blk:
                if isinstance(a, ast.Assign) and len(a.targets) == 1 and isinstance(a.targets[0], ast.Name):
                    v = symexec.subst(a.value, env)
                    if isinstance(a.value, ast.Call) and (call_name(a.value) or "").endswith("move_ref_coord_alogn_alignment") and len(a.value.args) == 2:
                        sh = lf.linform(symexec.subst(a.value.args[1], env))
                        # sign of the shift in this branch: the branch condition says on which side of the boundary the index lies
                        d = {k: c for k, c in sh.items()}
                        want_pos = {pos: 1, bound: -1}
                        if d == want_pos:
                            positive = isinstance(st.test.ops[0], (ast.LtE, ast.Lt))      # else-branch of pos <= bound: pos > bound
                        elif d == {k: -c for k, c in want_pos.items()}:
                            positive = isinstance(st.test.ops[0], (ast.GtE, ast.Gt))
                        else:
                            raise AnalysisError("%s: shift handed to the walker is not +-(index - boundary)" % name)
                        mag = symexec.subst(a.value.args[1], env)
                        v = mag if positive else ast.UnaryOp(op=ast.USub(), operand=mag)
                    env[a.targets[0].id] = v
            if rv.id not in env:
                raise AnalysisError("%s: %s not assigned in the branch '%s'" % (name, rv.id, label))
            form = lf.linform(env[rv.id])
            base = {ref_attr: 1, pos: 1, bound: -1}
            rest = dict(form)
            for k, c in base.items():
                rest[k] = rest.get(k, 0) - c
            rest = {k: c for k, c in rest.items() if c}
            if set(rest) - {"1"}:
                raise AnalysisError("%s (%s): position is not %s + %s - %s + const: %s" % (name, label, ref_attr, pos, bound, lf.fmt(form)))
            const = rest.get("1", 0)
            # coordinate of read index `pos`:  polyA: L + 1 + (pos - m_end) ; polyT: F - (m_start - pos) = reference_start + 1 + pos - m_start
            out[label] = const - 1
        res[name] = (out, f)
    (da, fa), (dt, ft) = res["PolyAFinder.find_polya_tail"], res["PolyAFinder.find_polyt_head"]
    for label in da:
        if da[label] + dt[label] == 0:
            ctx.ok("X5", "%s:%d" % (PFM, ft.lineno), "%s: polyA = first tail base %+d, polyT = last head base %+d (mirror images)" % (label, da[label], dt[label]))
        else:
            ctx.fail("X5", ft, "PolyAFinder.find_polya_tail / find_polyt_head", label,
                     "%s: the polyA position is (first tail base) %+d, the polyT position is (last head base) %+d; mirror images would be %+d and %+d. "
                     "The same molecule read from the other strand gets its tail position %d bp further out, so a polyT-defined transcript "
                     "start is not the mirror image of the polyA-defined end of the reverse-complemented input"
                     % (label, da[label], dt[label], da[label], -da[label], abs(da[label] + dt[label])))


def run(prog, ctx):
    ctx.rule("X3", "a parameter named *polya_pos / *polyt_pos that is used in arithmetic or an ordering comparison is protected from the "
                   "sentinel -1 by a dominating `== -1` exit / `!= -1` test in the function, or at every call site")
    x3(prog, ctx)
    ctx.rule("X2", "every *_left member of MatchEventSubtype has a *_right twin; twins lie in the same classification sets, "
                   "have equal cost, mirrored printable names, and alternative_sites is side-symmetric")
    x2(prog, ctx)
    from . import x1_pairs
    x1_pairs.run(prog, ctx)
    ctx.rule("X5", "offset of the reported tail position from the tail itself, in linear form, for find_polya_tail and find_polyt_head and both of "
                   "their branches (tail in the clipped part / inside the aligned part), under pysam's coordinate conventions: the polyT offset "
                   "must be the negated polyA offset")
    x5(prog, ctx)
    ctx.rule("X4", "strand decision table (rule N6 of C04): StrandDetector.get_strand / get_clean_strand answer the opposite strand for the "
                   "mirrored case (forward <-> reverse canonical sites, polyA <-> polyT), over all small cases")
    from . import c04 as _c04
    _c04.strand_table(prog, ctx, "X4")
    ctx.assume("translation equivariance and all value-level equivariance are runtime-valued and not decided")
