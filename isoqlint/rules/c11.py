"""C11 - equivariance under strand reflection (structural part).

X2 left/right event tables are symmetric
X1 declared mirrored code pairs are exact duals under a typed reflection (see x1_pairs.py)
"""
import re

from ..engine.enumtables import EventTables, ISO


def twin(name):
    if re.search(r"(^|_)left(_|$)", name):
        return re.sub(r"(^|_)left(_|$)", lambda m: m.group(1) + "right" + m.group(2), name, count=1)
    if re.search(r"(^|_)right(_|$)", name):
        return re.sub(r"(^|_)right(_|$)", lambda m: m.group(1) + "left" + m.group(2), name, count=1)
    return None


def x2(prog, ctx):
    t = EventTables(prog)
    mod = prog.module(ISO)
    enum = prog.cls(ISO, "MatchEventSubtype")
    sets = dict(t.predicates)
    for n in ("nic_event_types", "nnic_event_types", "nonintronic_events", "all_major_events", "intronic_major_events"):
        sets[n] = t.named_set(n)
    pairs = 0
    for name in sorted(t.members):
        tw = twin(name)
        if tw is None:
            continue
        if tw not in t.members:
            ctx.fail("X2", enum, "MatchEventSubtype", name, "event %s has no mirror member %s" % (name, tw))
            continue
        if "left" not in name:
            continue  # handle each pair once, from the left member
        pairs += 1
        for sname, s in sorted(sets.items()):
            if (name in s) != (tw in s):
                ctx.fail("X2", enum, "MatchEventSubtype." + sname if sname.startswith("is_") else "<module>",
                         "%s: %s vs %s" % (sname, name, tw),
                         "%s contains %s but not its mirror %s: a read and its reflection are classified differently"
                         % (sname, name if name in s else tw, tw if name in s else name))
            else:
                ctx.ok("X2", ISO, "%s: %s/%s both %s" % (sname, name, tw, "in" if name in s else "out"),
                       nontrivial=name in s)
        if t.cost.get(name) != t.cost.get(tw):
            ctx.fail("X2", mod.assigns["event_subtype_cost"], "<module>", "event_subtype_cost[%s] vs [%s]" % (name, tw),
                     "cost of %s is %s but its mirror %s costs %s" % (name, t.cost.get(name), tw, t.cost.get(tw)))
        else:
            ctx.ok("X2", ISO, "cost(%s) == cost(%s) == %s" % (name, tw, t.cost.get(name)))
        pn, pt = t.printable.get(name), t.printable.get(tw)
        if (pn is None) != (pt is None):
            ctx.fail("X2", mod.assigns["match_subtype_printable_names"], "<module>", "printable names %s / %s" % (name, tw),
                     "only one of %s / %s has strand-aware printable names" % (name, tw))
        elif pn is not None:
            if not (len(pn) == 3 and len(pt) == 3 and pn[0] == pt[1] and pn[1] == pt[0] and pn[2] == pt[2]):
                ctx.fail("X2", mod.assigns["match_subtype_printable_names"], "<module>", "%s=%s / %s=%s" % (name, pn, tw, pt),
                         "printable 5'/3' names of %s and %s are not mirror images (a,b,c)/(b,a,c)" % (name, tw))
            else:
                ctx.ok("X2", ISO, "printable names of %s/%s mirrored: %s" % (name, tw, pn))
    # alternative_sites symmetric
    for (side, known), mem in sorted(t.alternative_sites.items()):
        other = t.alternative_sites.get(("right" if side == "left" else "left", known))
        if other is None or twin(mem) != other or side not in mem:
            ctx.fail("X2", mod.assigns["alternative_sites"], "<module>", "alternative_sites[(%r, %r)]" % (side, known),
                     "alternative_sites maps (%s,%s) to %s whose mirror entry is %s" % (side, known, mem, other))
        else:
            ctx.ok("X2", ISO, "alternative_sites (%s,%s) -> %s mirrored by %s" % (side, known, mem, other))
    # get_mono_exon_classification / polya sets in MatchClassification use left+right together
    ctx.floor("X2", "left/right member pairs", pairs, 14)
    return pairs


def run(prog, ctx):
    ctx.rule("X2", "every *_left member of MatchEventSubtype has a *_right twin; twins lie in the same classification sets, "
                   "have equal cost, mirrored printable names, and alternative_sites is side-symmetric")
    x2(prog, ctx)
    from . import x1_pairs
    x1_pairs.run(prog, ctx)
    ctx.assume("translation equivariance and all value-level equivariance are runtime-valued and not decided")
