"""C03 - output annotations well-formed, reference transcripts verbatim (structural part).

G1 print gate: nothing is written for a model unless it passed validate_exons
G2 reference models are built only by the copy constructor, from the annotation's own fields; the extended
   storage holds every reference transcript and every novel model
G3 no in-place mutation can reach a reference model (which aliases the annotation's exon list)
"""
import ast
import re

from ..engine.program import AnalysisError, dotted, src, walk_no_nested, call_name, enclosing_function, enclosing_stmt
from ..engine import flow
DSP = "src/dataset_processor.py"

TP = "src/transcript_printer.py"
GI = "src/gene_info.py"
GMC = "src/graph_based_model_construction.py"
MUTATORS = {"append", "insert", "pop", "sort", "reverse", "extend", "remove", "clear"}


# exon lists on which the print gate is decided by finite case analysis: (exons, must be accepted?)
VALIDATE_CASES = [
    ([(5, 9)], True), ([(5, 5)], True), ([(1, 1)], True), ([(1, 2), (3, 3)], True), ([(10, 20), (30, 40), (50, 50)], True),
    ([(5, 4)], False), ([(0, 3)], False), ([(-3, 3)], False), ([(10, 20), (5, 8)], False), ([(10, 20), (30, 29)], False),
]


def validate_predicate(prog, ctx, tag, consequence):
    """validate_exons accepts exactly the well-formed exon lists (sorted, 1 <= start <= end; a 1-bp exon is well-formed) - decided by
    interpreting its body on a fixed set of small exon lists (no repository code is run)."""
    from ..engine import staticeval
    v = prog.func(TP, "validate_exons")
    bad = None
    for exons, want in VALIDATE_CASES:
        try:
            got = staticeval.call_function(v, [list(exons)], funcs=staticeval.module_helpers(prog))
        except (staticeval.NoEval, IndexError, TypeError, KeyError) as e:
            raise AnalysisError("validate_exons is not statically evaluable (%s)" % e)
        if bool(got) != want:
            bad = bad or (exons, want, got)
    if bad:
        ctx.fail(tag, v, "validate_exons", src(v.body[-1])[:100], "validate_exons %s the exon list %s (%s): %s"
                 % ("rejects" if bad[1] else "accepts", bad[0], "well-formed: sorted, 1 <= start <= end" if bad[1] else "malformed", consequence))
    else:
        ctx.ok(tag, "%s:%d" % (TP, v.lineno), "validate_exons accepts exactly the well-formed lists among %d cases (1-bp exons, unsorted, start > end, start < 1)"
               % len(VALIDATE_CASES))


def g1(prog, ctx):
    f = prog.func_inlined(TP, "GFFPrinter.dump")      # blocks extracted into helpers of the class are analysed in place
    # the validating loop: `for i, model in enumerate(storage): if not validate_exons(model.exon_blocks): ...; continue`
    storage = f.args.args[2].arg
    loops = [l for l in walk_no_nested(f) if isinstance(l, ast.For) and storage in src(l.iter)]
    gate = None
    registry = None
    for l in loops:
        for st in l.body:
            if isinstance(st, ast.If) and "validate_exons(" in src(st.test):
                gate = (l, st)
    if gate is None:
        ctx.fail("G1", f, f._qualname, "validation loop", "no loop over the model storage tests validate_exons before registering models")
        return
    loop, ifst = gate
    t = ifst.test
    negated = isinstance(t, ast.UnaryOp) and isinstance(t.op, ast.Not)
    call = t.operand if negated else t
    model_var = loop.target.elts[1].id if isinstance(loop.target, ast.Tuple) else src(loop.target)
    if not (isinstance(call, ast.Call) and call_name(call) == "validate_exons" and src(call.args[0]) == "%s.exon_blocks" % model_var):
        ctx.fail("G1", ifst, f._qualname, src(t), "the gate does not validate the model's own exon_blocks")
        return
    # registry appends: dominated by a passed validation
    idx_var = loop.target.elts[0].id if isinstance(loop.target, ast.Tuple) else None
    appends = [c for c in ast.walk(loop) if isinstance(c, ast.Call) and isinstance(c.func, ast.Attribute) and c.func.attr == "append"
               and c.args and (src(c.args[0]) == idx_var or src(c.args[0]) == model_var)]
    if len(appends) != 1:
        ctx.fail("G1", loop, f._qualname, "registry append", "expected exactly one registration of a validated model (index)")
        return
    ap = appends[0]
    st = ap
    while not isinstance(st, ast.stmt):
        st = st._parent
    facts = flow.guard_facts(st, stop=f)
    passed = any(("validate_exons(" in src(tt)) and (pol != negated if False else (pol is (not negated))) for tt, pol in
                 [(x.operand if isinstance(x, ast.UnaryOp) and isinstance(x.op, ast.Not) else x,
                   (not p) if isinstance(x, ast.UnaryOp) and isinstance(x.op, ast.Not) else p) for x, p in facts])
    # simpler: some fact states validate_exons(...) is True
    passed = False
    for x, p in facts:
        if isinstance(x, ast.UnaryOp) and isinstance(x.op, ast.Not):
            x, p = x.operand, not p
        if isinstance(x, ast.Call) and call_name(x) == "validate_exons" and p:
            passed = True
    recv = ap.func.value
    if isinstance(recv, ast.Name):
        rdefs = [s_ for s_ in ast.walk(loop) if isinstance(s_, ast.Assign) and src(s_.targets[0]) == recv.id]
        if rdefs:
            recv = rdefs[-1].value
    registry = src(recv.value) if isinstance(recv, ast.Subscript) else src(recv)
    if not passed:
        ctx.fail("G1", ap, f._qualname, src(ap), "a model index is registered for printing on a path where validate_exons did not pass "
                 "(the failing branch must leave the iteration)")
        return
    ctx.ok("G1", "%s:%d" % (TP, ap.lineno), "model index registered in %s only after validate_exons passed" % registry)
    # every write of a transcript / exon line reads models only through the registry
    writes = [c for c in walk_no_nested(f) if isinstance(c, ast.Call) and src(c.func) == "self.out_gff.write"]
    # the variable holding the model being printed: assigned from storage[<index>] outside the validating loop
    model_vars = {s_.targets[0].id for s_ in walk_no_nested(f) if isinstance(s_, ast.Assign) and isinstance(s_.targets[0], ast.Name)
                  and isinstance(s_.value, ast.Subscript) and src(s_.value.value) == storage and not any(l_ is loop for l_ in flow.enclosing_loops(s_))}
    n = 0
    for w in writes:
        st = w
        while not isinstance(st, ast.stmt):
            st = st._parent
        loops_w = flow.enclosing_loops(st)
        # names the written text is computed from: reaching definitions through plain local assignments only (no tables, no control
        # dependence); a loop variable is where the chase stops
        from ..engine.dataflow import local_defs, reaching_defs
        ldefs = local_defs(f)
        touched, seen_at = set(), set()
        todo_ = [(x.id, st) for a_ in w.args for x in ast.walk(a_) if isinstance(x, ast.Name)]
        elem_hit = False
        while todo_:
            nm_, at_ = todo_.pop()
            if (nm_, id(at_)) in seen_at:
                continue
            seen_at.add((nm_, id(at_)))
            touched.add(nm_)
            if nm_ not in ldefs:
                continue
            for kind_, val_, dst_ in reaching_defs(f, nm_, at_, ldefs):
                if kind_ == "assign":
                    if isinstance(val_, ast.Subscript) and src(val_.value) == storage:
                        elem_hit = True
                    todo_.extend((x.id, dst_) for x in ast.walk(val_) if isinstance(x, ast.Name))
                elif kind_ == "loop" and (storage in src(val_)):
                    elem_hit = True
        if elem_hit:
            # must be inside `for model_index in registry[gene_id]` with model = storage[model_index]
            ok_loop = any(isinstance(l, ast.For) and registry in src(l.iter) for l in loops_w)
            if not ok_loop:
                ctx.fail("G1", w, f._qualname, src(w)[:80], "a transcript/exon line is written outside the loop over validated model indices")
            else:
                ctx.ok("G1", "%s:%d" % (TP, w.lineno), "transcript/exon line written inside loop over %s" % registry)
            n += 1
        else:
            ctx.ok("G1", "%s:%d" % (TP, w.lineno), "gene line (coordinates from validated models + annotation gene regions)")
            n += 1
    # the model used for printing is storage[index from the registry]
    mdefs = [s for s in walk_no_nested(f) if isinstance(s, ast.Assign) and isinstance(s.targets[0], ast.Name) and s.targets[0].id in model_vars]
    if len(mdefs) > 1 or (mdefs and not isinstance(mdefs[0].value, ast.Subscript)):
        ctx.undecided("G1", f, f._qualname, "%d look-ups of a model in the storage outside the validating loop, expected at most one" % len(mdefs))
    # (no look-up at all: the registry holds the validated models themselves; the write sites were checked against it above)
    # gene coordinates: only max_range over validated transcripts / annotation gene regions
    gi_assign = [s for s in ast.walk(loop) if isinstance(s, ast.Assign) and "gene_info_dict[" in src(s.targets[0])]
    for s in gi_assign:
        # a gene record may be built from the model's strand / chromosome and from ranges; raw exon coordinates must go through max_range
        if "exon_blocks" in src(s.value) and "max_range(" not in src(s.value) and "gene_range" not in src(s.value):
            ctx.fail("G1", s, f._qualname, src(s), "gene record coordinates are not the range over validated transcripts")
    ctx.floor("G1", "GTF write sites", n, 3)
    # validate_exons itself: sortedness and 0 < start <= end
    validate_predicate(prog, ctx, "G1", "a malformed model is printed, or a well-formed one is dropped from the GTF")
    # no other function writes to out_gff except merge (which copies files); helpers called only from dump were inlined above
    gp = prog.cls(TP, "GFFPrinter")
    gmeths = prog.methods_of(gp, inherited=False)
    callers = {}
    for name_, fm in gmeths.items():
        for c in walk_no_nested(fm):
            if isinstance(c, ast.Call) and isinstance(c.func, ast.Attribute) and dotted(c.func.value) in ("self", "GFFPrinter") and c.func.attr in gmeths:
                callers.setdefault(c.func.attr, set()).add(name_)
    only_from_dump = set()
    changed = True
    while changed:
        changed = False
        for name_, cs in callers.items():
            if name_ not in only_from_dump and cs and all(x == "dump" or x in only_from_dump for x in cs):
                ext = [1 for _m, q2, f2 in prog.all_functions() if not q2.startswith("GFFPrinter.") for c in walk_no_nested(f2)
                       if isinstance(c, ast.Call) and isinstance(c.func, ast.Attribute) and c.func.attr == name_]
                if not ext:
                    only_from_dump.add(name_)
                    changed = True
    for m, q, fn in prog.all_functions():
        if m.rel == TP and q.startswith("GFFPrinter.") and q.split(".")[-1] in only_from_dump:
            continue
        for c in walk_no_nested(fn):
            if isinstance(c, ast.Call) and isinstance(c.func, ast.Attribute) and c.func.attr == "write" \
                    and "out_gff" in src(c.func.value) and not (m.rel == TP and q in ("GFFPrinter.dump", "GFFPrinter.__init__")):
                ctx.fail("G1", c, q, src(c)[:80], "GTF handle written outside GFFPrinter.dump: bypasses the validation gate")


def reference_constructor(prog):
    """The copy constructor of reference models: TranscriptModel.from_reference_transcript, or - under another name - the one class/static
    method of TranscriptModel that creates the object with __new__ and gives it the type `known`."""
    f = prog.try_func(GI, "TranscriptModel.from_reference_transcript")
    if f is not None:
        return f
    cls = prog.cls(GI, "TranscriptModel")
    cands = []
    for st in cls.body:
        if isinstance(st, ast.FunctionDef) and any(src(d) in ("classmethod", "staticmethod") for d in st.decorator_list) \
                and any(isinstance(c, ast.Call) and src(c.func).endswith(".__new__") for c in walk_no_nested(st)) \
                and any(isinstance(a, ast.Assign) and src(a.value) == "TranscriptModelType.known" for a in walk_no_nested(st)):
            cands.append(st)
    if len(cands) != 1:
        raise AnalysisError("the copy constructor of reference transcript models (TranscriptModel.from_reference_transcript) not found")
    return cands[0]


def g2(prog, ctx):
    # who creates `known` models
    ctor = reference_constructor(prog)
    sites = []
    for rel in sorted(prog.modules):
        for node in ast.walk(prog.modules[rel].tree):
            if isinstance(node, ast.Attribute) and src(node) == "TranscriptModelType.known":
                # value position (assigned or passed), not comparison
                cur = node
                role = "value"
                while not isinstance(cur, ast.stmt):
                    parent = cur._parent
                    if isinstance(parent, ast.Compare):
                        role = "compare"
                        break
                    cur = parent
                if role == "value" and not isinstance(cur, ast.ClassDef):
                    sites.append((node, cur))
    for node, st in sites:
        fn = enclosing_function(node)
        fq = getattr(fn, "_qualname", "<module>")
        if fn is ctor:
            ctx.ok("G2", "%s:%d" % (GI, node.lineno), "known type assigned in the copy constructor")
        elif isinstance(st, ast.Assign) and isinstance(st.targets[0], ast.Name) and not fn:
            continue
        else:
            ctx.fail("G2", node, fq, src(st), "a transcript model is given type `known` outside TranscriptModel.from_reference_transcript")
    ctx.floor("G2", "sites assigning TranscriptModelType.known", len(sites), 1)
    f = ctor
    want = {"exon_blocks": "gene_info.all_isoforms_exons[isoform_id]", "strand": "gene_info.isoform_strands[isoform_id]",
            "gene_id": "gene_info.gene_id_map[isoform_id]", "transcript_id": "isoform_id", "chr_id": "gene_info.chr_id"}
    got = {}
    for st in walk_no_nested(f):
        if isinstance(st, ast.Assign) and isinstance(st.targets[0], ast.Attribute):
            got[st.targets[0].attr] = src(st.value)
    for fld, w in sorted(want.items()):
        if got.get(fld) != w:
            ctx.fail("G2", f, f._qualname, "%s = %s" % (fld, got.get(fld)), "reference model field %s is taken from %s, not from the "
                     "annotation's own %s" % (fld, got.get(fld), w))
        else:
            ctx.ok("G2", "%s:%d" % (GI, f.lineno), "reference model %s <- %s" % (fld, w))
    # extended storage: every reference isoform and every novel model, unfiltered
    ce = prog.func(TP, "create_extended_storage")
    novel_param = ce.args.args[3].arg

    def elem_kind(elem, var, it):
        """what one generated element is: a reference model per annotated isoform / a novel model handed in, unchanged"""
        if "all_isoforms_exons" in src(it) and isinstance(elem, ast.Call) and (call_name(elem) or "").split(".")[-1] == ctor.name \
                and any(src(a) == var for a in list(elem.args) + [k.value for k in elem.keywords]):
            return "ref"
        if src(it) == novel_param and src(elem) == var:
            return "novel"
        return "unknown"

    def parts(e, path_stmts, depth=0):
        if depth > 4:
            return ["unknown"]
        if isinstance(e, ast.BinOp) and isinstance(e.op, ast.Add):
            return parts(e.left, path_stmts, depth + 1) + parts(e.right, path_stmts, depth + 1)
        if isinstance(e, ast.Call) and call_name(e) == "list" and len(e.args) == 1:
            return ["novel"] if src(e.args[0]) == novel_param else parts(e.args[0], path_stmts, depth + 1)
        if isinstance(e, ast.ListComp) and len(e.generators) == 1 and not e.generators[0].ifs:
            return [elem_kind(e.elt, src(e.generators[0].target), e.generators[0].iter)]
        if isinstance(e, ast.ListComp) and len(e.generators) == 1 and e.generators[0].ifs:
            k_ = elem_kind(e.elt, src(e.generators[0].target), e.generators[0].iter)
            return ["filtered:" + k_] if k_ != "unknown" else ["unknown"]
        if isinstance(e, ast.List) and not e.elts:
            return []
        if isinstance(e, ast.Name):
            out = []
            for st in path_stmts:
                if isinstance(st, ast.Assign) and len(st.targets) == 1 and src(st.targets[0]) == e.id:
                    out = parts(st.value, path_stmts, depth + 1)
                elif isinstance(st, ast.AugAssign) and src(st.target) == e.id and isinstance(st.op, ast.Add):
                    out = out + parts(st.value, path_stmts, depth + 1)
                elif isinstance(st, ast.For) and any(isinstance(x, ast.Call) and src(x.func) in (e.id + ".append", e.id + ".extend")
                                                     for x in ast.walk(st)):
                    if len(st.body) == 1 and isinstance(st.body[0], ast.Expr) and isinstance(st.body[0].value, ast.Call) \
                            and src(st.body[0].value.func) == e.id + ".append" and len(st.body[0].value.args) == 1:
                        out = out + [elem_kind(st.body[0].value.args[0], src(st.target), st.iter)]
                    else:
                        # the same append, but under a condition: the pass over the source is filtered
                        cond_app = [x for x in ast.walk(st) if isinstance(x, ast.Call) and src(x.func) == e.id + ".append" and len(x.args) == 1]
                        kinds = {elem_kind(x.args[0], src(st.target), st.iter) for x in cond_app}
                        if len(kinds) == 1 and "unknown" not in kinds and any(isinstance(y, ast.If) for y in ast.walk(st)):
                            out = out + ["filtered:" + kinds.pop()]
                        else:
                            out = out + ["unknown"]
                elif isinstance(st, ast.Expr) and isinstance(st.value, ast.Call) and src(st.value.func) == e.id + ".extend" and st.value.args:
                    out = out + parts(st.value.args[0], path_stmts, depth + 1)
                elif isinstance(st, ast.Expr) and isinstance(st.value, ast.Call) and src(st.value.func).startswith(e.id + "."):
                    out = out + ["unknown"]
            return out
        return ["unknown"]

    n_ret = with_ref = 0
    for p in flow.paths(ce):
        if p.exit != "return" or not isinstance(p.exit_node, ast.Return) or p.exit_node.value is None:
            continue
        rv = p.exit_node.value
        if not (isinstance(rv, ast.Tuple) and rv.elts):
            ctx.undecided("G2", p.exit_node, ce._qualname, "create_extended_storage does not return a (models, gene_info) pair here")
            continue
        n_ret += 1
        # statements of the path, loops once (not their bodies)
        top = []
        skip = set()
        for st_ in p.stmts():
            if id(st_) in skip:
                continue
            top.append(st_)
            if isinstance(st_, (ast.For, ast.While)):
                skip |= {id(x) for x in ast.walk(st_) if x is not st_}
        got = parts(rv.elts[0], top)
        annotated = any(isinstance(x, ast.Call) and call_name(x) == "GeneInfo" for st_ in top for x in ast.walk(st_))
        filt = [g_ for g_ in got if g_.startswith("filtered:")]
        if filt:
            ctx.fail("G2", p.exit_node, ce._qualname, "%s models filtered" % filt[0].split(":")[1],
                     "the %s models enter the extended storage under a condition: %s" % (
                         "novel" if filt[0].endswith("novel") else "reference",
                         "novel models are filtered or altered when building the extended storage - transcripts printed to transcript_models.gtf "
                         "are missing from extended_annotation.gtf" if filt[0].endswith("novel") else
                         "extended storage does not contain one reference model for every annotated isoform"), path=p.describe())
        elif "unknown" in got:
            ctx.undecided("G2", p.exit_node, ce._qualname, "the returned model list is built in a way the rule cannot follow on path [%s]: %s"
                          % (p.describe()[:80], got))
        elif got.count("novel") != 1:
            ctx.fail("G2", p.exit_node, ce._qualname, src(p.exit_node), "on this path the extended storage is returned without the novel "
                     "models (or with them twice): transcripts printed to transcript_models.gtf are missing from extended_annotation.gtf",
                     path=p.describe())
        elif annotated and got.count("ref") != 1:
            ctx.fail("G2", ce, ce._qualname, "reference loop", "extended storage does not contain one reference model for every annotated "
                     "isoform (unfiltered pass over all_isoforms_exons) on the path that loads the annotation", path=p.describe())
        else:
            with_ref += "ref" in got
            ctx.ok("G2", "%s:%d" % (TP, p.exit_node.lineno), "return path yields %s, unfiltered (%s)" % (" + ".join(got), p.describe()[:60]))
    if n_ret and not with_ref and not ctx.undecideds:
        ctx.fail("G2", ce, ce._qualname, "reference loop", "extended storage does not append one reference model for every annotated isoform")
    # the novel models handed over are exactly the non-known models printed to transcript_models.gtf
    cm = prog.func("src/dataset_processor.py", "construct_models_in_parallel")
    from ..engine import argswap
    ces = [c for c in walk_no_nested(cm) if isinstance(c, ast.Call) and (call_name(c) or "").split(".")[-1] == "create_extended_storage"]
    nlist = None
    if len(ces) == 1:
        b_ = argswap.bind_args(ces[0], ce)
        nlist = src(b_[ce.args.args[3].arg]) if ce.args.args[3].arg in b_ else None
    nm = [st for st in walk_no_nested(cm) if isinstance(st, ast.Expr) and nlist and (nlist + ".append(") in src(st)]
    okn = False
    if len(nm) == 1:
        lps = [l for l in flow.enclosing_loops(nm[0]) if isinstance(l, ast.For) and src(l.iter).endswith(".transcript_model_storage")]
        if lps and src(nm[0].value.args[0]) == src(lps[-1].target):
            lv = src(lps[-1].target)
            okn = any(isinstance(t, ast.Compare) and len(t.ops) == 1 and src(t.left) == lv + ".transcript_type"
                      and src(t.comparators[0]) == "TranscriptModelType.known"
                      and ((isinstance(t.ops[0], ast.NotEq) and p) or (isinstance(t.ops[0], ast.Eq) and not p))
                      for t, p in flow.guard_facts(nm[0], stop=cm))
    if not okn:
        ctx.fail("G2", cm, cm._qualname, "novel_model_storage", "novel models for the extended annotation are not exactly the non-known "
                 "models of the constructor's final storage")
    else:
        ctx.ok("G2", "src/dataset_processor.py:%d" % nm[0].lineno, "extended annotation receives exactly the non-known models that were dumped")


def g3(prog, ctx):
    """In-place mutations of exon lists / strand of models must not reach reference models."""
    _ctor_name = reference_constructor(prog).name
    sites = []
    for m, q, f in prog.all_functions():
        for n in walk_no_nested(f):
            tgt = None
            if isinstance(n, (ast.Assign, ast.AugAssign)):
                for t in (n.targets if isinstance(n, ast.Assign) else [n.target]):
                    if isinstance(t, ast.Subscript) and src(t.value).endswith(".exon_blocks"):
                        tgt = ("subscript-store", t)
                    elif isinstance(t, ast.Attribute) and t.attr in ("exon_blocks", "strand") and not src(t.value) in ("self",) \
                            and not (f.name in ("__init__", _ctor_name)):
                        # assigning the field of an existing model object
                        if isinstance(t.value, ast.Name) and t.value.id in ("self", "cls", "transcript_model") and f.name in ("__init__", _ctor_name):
                            continue
                        tgt = ("field-store", t)
            elif isinstance(n, ast.Delete):
                for t in n.targets:
                    if "exon_blocks" in src(t):
                        tgt = ("del", t)
            elif isinstance(n, ast.Call) and isinstance(n.func, ast.Attribute) and n.func.attr in MUTATORS \
                    and src(n.func.value).endswith(".exon_blocks"):
                tgt = ("mutator-call", n)
            if tgt:
                sites.append((m, q, f, n, tgt))
    # field stores in alternative constructors (cls.__new__) of other classes (read assignments have no exon_blocks) are filtered by name
    checked = 0
    for m, q, f, n, (kind, t) in sites:
        recv = src(t.value if kind != "mutator-call" else t.func.value)
        base = recv.split(".")[0].split("[")[0]
        if kind == "field-store" and t.attr == "strand":
            # `.strand` also exists on read assignments and gene records: it concerns a transcript model only if the same variable
            # is used as one in this function (exon_blocks / transcript_type / transcript_id / intron_path)
            as_model = any(isinstance(x, ast.Attribute) and isinstance(x.value, ast.Name) and x.value.id == base
                           and x.attr in ("exon_blocks", "transcript_type", "transcript_id", "intron_path") for x in walk_no_nested(f))
            if base in ("self", "cls") or not as_model:
                continue
        if kind == "field-store" and f.name in ("__init__", _ctor_name, "from_models", "from_model", "from_region", "deserialize"):
            continue
        checked += 1
        st = n
        while not isinstance(st, ast.stmt):
            st = st._parent
        # locally guarded?
        def novel_only(facts):
            for x, p in facts:
                tx = src(x)
                if "transcript_type" in tx and "known" in tx:
                    if (("!=" in tx) and p) or (("==" in tx) and not p):
                        return True
            return False
        if novel_only(flow.guard_facts(st, stop=f)):
            ctx.ok("G3", "%s:%d" % (m.rel, n.lineno), "%s of %s guarded locally by transcript_type != known" % (kind, recv))
            continue
        # guarded at every call site of the enclosing function?
        param = base
        callers = []
        for m2, q2, f2 in prog.all_functions():
            for c in walk_no_nested(f2):
                if isinstance(c, ast.Call) and (call_name(c) or "").split(".")[-1] == f.name and f2 is not f:
                    callers.append((m2, q2, f2, c))
        if not callers:
            ctx.fail("G3", n, q, src(st), "%s mutates %s in place and no guarded call site was found; reference models alias the "
                     "annotation's exon lists" % (kind, recv))
            continue
        allok = True
        for m2, q2, f2, c in callers:
            cst = c
            while not isinstance(cst, ast.stmt):
                cst = cst._parent
            if not novel_only(flow.guard_facts(cst, stop=f2)):
                allok = False
                ctx.fail("G3", c, q2, src(c), "%s mutates %s in place (%s:%d) and is called here without being control-dependent on "
                         "transcript_type != known: a reference transcript (and the annotation's shared exon list) would be altered"
                         % (q, recv, m.rel, n.lineno))
        if allok:
            ctx.ok("G3", "%s:%d" % (m.rel, n.lineno), "%s of %s: all %d call site(s) of %s are guarded by transcript_type != known"
                   % (kind, recv, len(callers), q))
    ctx.floor("G3", "in-place mutations of model exon lists / strand examined", checked, 2)
    ctx.extra["g3_sites"] = ["%s:%d %s %s" % (m.rel, n.lineno, q, kind) for m, q, f, n, (kind, t) in sites]


def g4(prog, ctx):
    """Genes are merged only when their strands are equal: a positive score requires known-equal strands."""
    f = prog.func(GMC, "TranscriptToGeneJoiner.count_score")
    n = 0
    for r in walk_no_nested(f):
        if not isinstance(r, ast.Return) or r.value is None:
            continue
        if isinstance(r.value, ast.Constant) and r.value.value == 0:
            continue
        n += 1
        facts = flow.guard_facts(r, stop=f)
        equal = False
        for t, p in facts:
            if isinstance(t, ast.Compare) and len(t.ops) == 1 and "gene_strands" in src(t.left) and "gene_strands" in src(t.comparators[0]):
                if (isinstance(t.ops[0], ast.NotEq) and not p) or (isinstance(t.ops[0], ast.Eq) and p):
                    equal = True
        if not equal:
            ctx.fail("G4", r, f._qualname, src(r)[:80], "a positive gene-merging score can be returned for genes whose strands are not known "
                     "to be equal: the merged gene record then carries a strand that differs from some of its transcripts")
        else:
            ctx.ok("G4", "%s:%d" % (GMC, r.lineno), "non-zero merge score only when the two gene strands are equal")
    ctx.floor("G4", "non-zero returns of count_score", n, 1)
    # merging happens only above a positive threshold
    j = prog.func(GMC, "TranscriptToGeneJoiner.join_transcripts")
    if not any(isinstance(x, ast.Compare) and isinstance(x.left, ast.Subscript) and src(x.left.value) == "self.scores" and isinstance(x.ops[0], ast.Lt)
               for x in walk_no_nested(j)):
        ctx.fail("G4", j, j._qualname, "threshold", "join_transcripts no longer stops at a positive score threshold")
    else:
        ctx.ok("G4", "%s:%d" % (GMC, j.lineno), "genes merged only for scores above a positive threshold")


def g5(prog, ctx):
    """A reference transcript enters the model storage at most once per chromosome task (the registry outlives the constructor objects
    that handle the sub-regions of one chromosome)."""
    GMC_ = "src/graph_based_model_construction.py"
    cls = prog.cls(GMC_, "GraphBasedModelConstructor")
    meths = prog.methods_of(cls, inherited=False)
    REG = "detected_known_isoforms"

    def not_in_registry(node, key, stop):
        for atom, pol in flow.guard_facts(node, stop):
            if isinstance(atom, ast.Compare) and len(atom.ops) == 1 and src(atom.left) == key and src(atom.comparators[0]).endswith("." + REG):
                if (isinstance(atom.ops[0], ast.In) and not pol) or (isinstance(atom.ops[0], ast.NotIn) and pol):
                    return True
        return False
    n = 0
    from ..engine.argswap import bind_args
    ctor = reference_constructor(prog)
    id_param = next((src(st.value) for st in walk_no_nested(ctor) if isinstance(st, ast.Assign) and isinstance(st.targets[0], ast.Attribute)
                     and st.targets[0].attr == "transcript_id" and isinstance(st.value, ast.Name)), None)
    # thin wrappers: methods that only return the constructor's result
    wrappers = {}
    for name, f in meths.items():
        rets = [r for r in walk_no_nested(f) if isinstance(r, ast.Return)]
        if len(f.body) <= 2 and len(rets) == 1 and isinstance(rets[0].value, ast.Call) and (call_name(rets[0].value) or "").split(".")[-1] == ctor.name:
            b = bind_args(rets[0].value, ctor)
            if id_param in b and isinstance(b[id_param], ast.Name) and b[id_param].id in [a.arg for a in f.args.args]:
                wrappers[name] = b[id_param].id
    for name, f in sorted(meths.items()):
        if name in wrappers:
            continue
        for c in walk_no_nested(f):
            if not (isinstance(c, ast.Call) and isinstance(c.func, ast.Attribute) and c.args):
                continue
            if c.func.attr in wrappers:
                karg = bind_args(c, meths[c.func.attr]).get(wrappers[c.func.attr])
            elif c.func.attr == ctor.name and id_param:
                karg = bind_args(c, ctor).get(id_param)
            else:
                continue
            if karg is None:
                ctx.undecided("G5", c, "GraphBasedModelConstructor." + name, "isoform id argument of %s not identified" % src(c)[:60])
                continue
            n += 1
            key = src(karg)
            st = enclosing_stmt(c)
            blk = getattr(st._parent, "body", []) if st in getattr(st._parent, "body", []) else getattr(st._parent, "orelse", [])
            registers = any(isinstance(x, ast.Expr) and isinstance(x.value, ast.Call) and src(x.value.func).endswith("." + REG + ".add")
                            and src(x.value.args[0]) == key for x in blk)
            if not registers:
                ctx.fail("G5", c, "GraphBasedModelConstructor." + name, src(st)[:90], "a reference transcript model is created here but its id is not "
                         "added to %s in the same block: a later sub-region of the chromosome reports it again" % REG)
                continue
            if not_in_registry(c, key, f):
                ctx.ok("G5", "%s:%d" % (GMC_, c.lineno), "%s: reference model of %s created only if it is not in %s, then registered" % (name, key, REG))
                continue
            # provenance: key iterates a table whose every insertion is made under the registry test
            ok_prov = False
            loops = [l for l in flow.enclosing_loops(c) if isinstance(l, ast.For) and src(l.target) == key]
            if loops:
                it = loops[0].iter
                tbl = src(it.func.value) if isinstance(it, ast.Call) and isinstance(it.func, ast.Attribute) and it.func.attr == "keys" else src(it)
                ins = []
                for name2, f2 in meths.items():
                    for x in walk_no_nested(f2):
                        if isinstance(x, ast.Subscript) and src(x.value) == tbl.split(".")[-1] and \
                                (isinstance(x.ctx, ast.Store) or (isinstance(getattr(x, "_parent", None), ast.Attribute)
                                                                  and x._parent.attr in ("append", "add", "extend"))):
                            ins.append((f2, x))
                ok_prov = bool(ins) and all(not_in_registry(x, src(x.slice), f2) for f2, x in ins)
            if ok_prov:
                ctx.ok("G5", "%s:%d" % (GMC_, c.lineno), "%s: %s ranges over a table filled only for ids that are not in %s" % (name, key, REG))
            else:
                ctx.fail("G5", c, "GraphBasedModelConstructor." + name, src(st)[:90],
                         "a reference transcript model for `%s` is created and appended without a test that the id is not yet in %s (neither "
                         "here nor where the table it iterates is filled): when the chromosome is processed in several sub-regions and the "
                         "transcript has reads in two of them, it is written twice to transcript_models.gtf" % (key, REG))
    ctx.floor("G5", "sites creating reference transcript models", n, 3)
    # the registry is reset once per chromosome task, not per sub-region
    f = prog.func("src/dataset_processor.py", "construct_models_in_parallel")
    from . import c10 as _c10
    helpers = _c10.reset_helpers(prog, "GraphBasedModelConstructor", REG)
    task_resets = [st for q_, st in _c10.reset_sites(prog, "GraphBasedModelConstructor", REG) if q_ == "construct_models_in_parallel"]
    if not task_resets:
        ctx.fail("G5", f, "construct_models_in_parallel", REG, "the registry of reported reference transcripts is not reset at the start of the chromosome task")
    for name, fm in meths.items():
        if name in helpers:
            continue                 # a static reset helper: what matters is where it is called (checked above and by S1/O3)
        for st in walk_no_nested(fm):
            if isinstance(st, ast.Assign) and any(src(t).endswith("." + REG) for t in st.targets):
                ctx.fail("G5", st, "GraphBasedModelConstructor." + name, src(st), "the registry is re-initialised inside the constructor class: it "
                         "forgets what earlier sub-regions of the chromosome already reported")


def g6(prog, ctx):
    """extended_annotation.gtf holds every reference transcript of every chromosome: whether the per-chromosome extended storage is built
    and dumped may depend on the run's options only (model construction on, annotation given), never on what the chromosome produced."""
    f = prog.func(DSP, "construct_models_in_parallel")
    sites = []
    for st in walk_no_nested(f):
        for c in (x for x in ast.walk(st) if isinstance(x, ast.Call)) if isinstance(st, (ast.Assign, ast.Expr)) else ():
            cn = (call_name(c) or "").split(".")[-1]
            if cn == "create_extended_storage":
                sites.append((st, c, "the extended storage (reference + novel transcripts of the chromosome) is built"))
    names = set()
    for st, c, _w in sites:
        for t in getattr(st, "targets", []):
            names |= {n.id for n in ast.walk(t) if isinstance(n, ast.Name)}
    for st in walk_no_nested(f):
        if isinstance(st, ast.Expr) and isinstance(st.value, ast.Call) and isinstance(st.value.func, ast.Attribute) and st.value.func.attr == "dump" \
                and names and names & {n.id for a in st.value.args for n in ast.walk(a) if isinstance(n, ast.Name)}:
            sites.append((st, st.value, "the extended annotation of the chromosome is written"))
    if len(sites) < 2:
        raise AnalysisError("construct_models_in_parallel: create_extended_storage(...) and the dump of its result not found")
    defs = {}
    for a in walk_no_nested(f):
        if isinstance(a, ast.Assign) and len(a.targets) == 1 and isinstance(a.targets[0], ast.Name):
            defs.setdefault(a.targets[0].id, []).append(a)
    mutated = {dotted(c.func.value) for c in walk_no_nested(f) if isinstance(c, ast.Call) and isinstance(c.func, ast.Attribute)
               and c.func.attr in ("append", "add", "extend", "update", "insert") and dotted(c.func.value)}
    params = {a.arg for a in f.args.args}

    def option_only(e, depth=0):
        """the expression depends on the function's parameters / options only, not on anything accumulated while processing"""
        callees = {id(c.func) for c in ast.walk(e) if isinstance(c, ast.Call)}
        for n in ast.walk(e):
            if isinstance(n, ast.Name) and id(n) not in callees:
                if n.id in mutated:
                    return False
                if n.id in params or n.id in ("gffutils", "os", "len", "bool", "None", "True", "False"):
                    continue
                vs = defs.get(n.id)
                if vs is None or depth > 3:
                    return False
                for a in vs:                      # every definition, and the tests selecting between them, depend on options only
                    if not option_only(a.value, depth + 1):
                        return False
                    if any(not option_only(g.test, depth + 1) for g in flow.guards_of(a, stop=f) if isinstance(getattr(a, "_parent", None), ast.If)):
                        return False
        return True
    n = 0
    for st, c, what in sites:
        for g in flow.guards_of(st, stop=f):
            for atom, pol in flow.conjuncts(g.test, g.polarity):
                n += 1
                if option_only(atom):
                    ctx.ok("G6", "%s:%d" % (DSP, st.lineno), "%s under %s%s (run options only)" % (what, "" if pol else "not ", src(atom)[:50]))
                else:
                    ctx.fail("G6", st, f._qualname, src(st)[:90],
                             "%s only if %s%s, which depends on what this chromosome produced and not just on the run's options: for a chromosome "
                             "where it is false none of the reference transcripts reaches extended_annotation.gtf"
                             % (what, "" if pol else "not ", src(atom)[:60]))
    ctx.floor("G6", "guard atoms above the extended-annotation build / dump", n, 4)


def g7(prog, ctx):
    """A gene record appears once per file: the printer's registry of printed gene ids only grows while the printer lives, and a gene
    line is written only for an id that is not yet in it and is registered in the same branch."""
    gp = prog.cls(TP, "GFFPrinter")
    meths = prog.methods_of(gp, inherited=False)
    regs = set()
    init = meths.get("__init__")
    for st in (walk_no_nested(init) if init is not None else ()):
        if isinstance(st, ast.Assign) and len(st.targets) == 1 and (dotted(st.targets[0]) or "").startswith("self.") \
                and isinstance(st.value, ast.Call) and call_name(st.value) == "set" and "gene" in dotted(st.targets[0]):
            regs.add(dotted(st.targets[0]))
    if len(regs) != 1:
        raise AnalysisError("GFFPrinter.__init__: registry of printed gene ids not found (%s)" % sorted(regs))
    reg = next(iter(regs))
    n = 0
    for name, f in sorted(meths.items()):
        for node in walk_no_nested(f):
            shrink = None
            if isinstance(node, ast.Call) and isinstance(node.func, ast.Attribute) and dotted(node.func.value) == reg \
                    and node.func.attr in ("clear", "remove", "discard", "pop", "difference_update", "intersection_update"):
                shrink = node
            if isinstance(node, ast.Assign) and any(dotted(t) == reg for t in node.targets) and name != "__init__":
                shrink = node
            if shrink is not None:
                n += 1
                ctx.fail("G7", shrink, "GFFPrinter." + name, src(shrink)[:80], "%s is emptied / rebound while the printer is in use: dump() is called "
                         "once per group of reads, so a gene that receives transcripts from two groups gets its gene record written twice" % reg)
    adds = [c for f in meths.values() for c in walk_no_nested(f) if isinstance(c, ast.Call) and isinstance(c.func, ast.Attribute)
            and dotted(c.func.value) == reg and c.func.attr == "add"]
    for c in adds:
        n += 1
        f = enclosing_function(c)
        facts = flow.guard_facts(enclosing_stmt(c), stop=f)
        key = src(c.args[0]) if c.args else "?"
        ok = any(isinstance(t, ast.Compare) and len(t.ops) == 1 and src(t.left) == key and src(t.comparators[0]) == reg
                 and ((isinstance(t.ops[0], ast.NotIn) and pol) or (isinstance(t.ops[0], ast.In) and not pol)) for t, pol in facts)
        if ok:
            ctx.ok("G7", "%s:%d" % (TP, c.lineno), "gene id registered in %s under `not in %s`; the registry is never emptied" % (reg, reg))
        else:
            ctx.fail("G7", c, f._qualname, src(c), "a gene id is registered as printed outside a `%s not in %s` test" % (key, reg))
    ctx.floor("G7", "registrations of printed gene ids", len(adds), 1)


def g8(prog, ctx):
    """Merging genes deletes the records of one of the two genes; transcripts of the deleted gene are re-attributed to the survivor.  A
    reference gene must never be the deleted one (its transcripts would leave their reference gene): at every call of merge_genes the
    argument bound to the deleted parameter is known - by the enclosing tests or a preceding assert - not to be a key of the
    annotation's gene table."""
    from ..engine.argswap import bind_args
    cls = prog.cls(GMC, "TranscriptToGeneJoiner")
    meths = prog.methods_of(cls, inherited=False)
    mg = meths.get("merge_genes")
    if mg is None:
        ctx.undecided("G8", cls, "TranscriptToGeneJoiner", "merge_genes not found")
        return
    params = [a.arg for a in mg.args.args if a.arg != "self"]
    deleted = {src(d.slice) for st in walk_no_nested(mg) if isinstance(st, ast.Delete) for d in st.targets
               if isinstance(d, ast.Subscript) and (dotted(d.value) or "").startswith("self.")}
    deleted &= set(params)
    if len(deleted) != 1:
        ctx.undecided("G8", mg, "TranscriptToGeneJoiner.merge_genes", "no single parameter whose records are deleted (%s)" % sorted(deleted))
        return
    dead = next(iter(deleted))
    n = 0
    for name, f in sorted(meths.items()):
        for c in walk_no_nested(f):
            if not (isinstance(c, ast.Call) and call_name(c) == "self.merge_genes"):
                continue
            n += 1
            arg = bind_args(c, mg).get(dead)
            if arg is None:
                ctx.undecided("G8", c, "TranscriptToGeneJoiner." + name, "argument for `%s` not found in %s" % (dead, src(c)))
                continue
            key = src(arg)
            facts = flow.guard_facts(enclosing_stmt(c), stop=f)
            ok = any(isinstance(t, ast.Compare) and len(t.ops) == 1 and src(t.left) == key
                     and src(t.comparators[0]).endswith("gene_info.gene_strands")
                     and ((isinstance(t.ops[0], ast.NotIn) and pol) or (isinstance(t.ops[0], ast.In) and not pol)) for t, pol in facts)
            if ok:
                ctx.ok("G8", "%s:%d" % (GMC, c.lineno), "merge_genes deletes %s, known not to be an annotated gene" % key)
            else:
                ctx.fail("G8", c, "TranscriptToGeneJoiner." + name, src(c)[:80],
                         "merge_genes deletes the records of its parameter `%s`; here that is %s, which is not known (test or assert on "
                         "gene_info.gene_strands) to be a novel gene: an annotated gene can be merged away and its transcripts are then "
                         "reported under another gene id" % (dead, key))
    ctx.floor("G8", "merge_genes call sites", n, 2)


def g10(prog, ctx):
    """Reference transcripts are reproduced verbatim because the exon list of an isoform is the list of the annotation's exon records: what is
    stored in all_isoforms_exons is built only by appending (record.start, record.end) for the records of the transcript, untransformed."""
    f = prog.func(GI, "GeneInfo.set_introns_and_exons")
    stores = [st for st in walk_no_nested(f) if isinstance(st, ast.Assign) and isinstance(st.targets[0], ast.Subscript)
              and src(st.targets[0].value) == "all_isoforms_exons"]
    if not stores:
        ctx.undecided("G10", f, f._qualname, "no store into all_isoforms_exons found")
        return
    n = 0
    for st in stores:
        n += 1
        v = st.value
        if isinstance(v, ast.Call):
            ctx.fail("G10", st, f._qualname, src(st)[:90], "the exon list of a reference isoform passes through %s(...) before it is stored: "
                     "transcripts are then printed with other exon records than the annotation has (from_reference_transcript copies "
                     "this table into both GTFs)" % (call_name(v) or src(v.func)))
            continue
        if not isinstance(v, ast.Name):
            ctx.undecided("G10", st, f._qualname, "stored exon list %s is not a plain local" % src(v)[:50])
            continue
        # the life of the list that is stored: the body of the per-transcript loop the store belongs to
        scope_loops = flow.enclosing_loops(st)
        scope = scope_loops[-1] if scope_loops else f
        muts = [c for c in walk_no_nested(scope) if isinstance(c, ast.Call) and isinstance(c.func, ast.Attribute) and src(c.func.value) == v.id]
        defs = [a for a in walk_no_nested(scope) if isinstance(a, (ast.Assign, ast.AugAssign))
                and any(src(t) == v.id for t in (a.targets if isinstance(a, ast.Assign) else [a.target]))]
        bad = None
        for a in defs:
            if not (isinstance(a, ast.Assign) and isinstance(a.value, ast.List) and not a.value.elts):
                bad = a
        for c in muts:
            ok = c.func.attr == "append" and len(c.args) == 1 and isinstance(c.args[0], ast.Tuple) and len(c.args[0].elts) == 2 \
                and [getattr(e, "attr", None) for e in c.args[0].elts] == ["start", "end"] \
                and len({src(e.value) for e in c.args[0].elts}) == 1
            if ok:
                rec = src(c.args[0].elts[0].value)
                lps = [l for l in flow.enclosing_loops(c) if isinstance(l, ast.For) and src(l.target) == rec]
                ok = bool(lps) and ".children(" in src(lps[-1].iter)
            if not ok and c.func.attr in MUTATORS | {"append"}:
                bad = bad or c
        if bad is not None:
            ctx.fail("G10", bad, f._qualname, src(bad)[:90], "the exon list stored for a reference isoform is changed by something else than "
                     "appending (record.start, record.end) of the transcript's own records: reference transcripts are no longer reproduced "
                     "verbatim")
        else:
            ctx.ok("G10", "%s:%d" % (GI, st.lineno), "all_isoforms_exons[...] is the untransformed list of the transcript's exon records")
    ctx.floor("G10", "stores into all_isoforms_exons", n, 1)


def g11(prog, ctx):
    """extended_annotation.gtf contains every reference transcript because the second stage runs one task per reference sequence and each
    task writes the reference transcripts of its sequence: the list of sequences the tasks are scheduled over is the whole reference -
    all keys of reference_record_dict - wherever it is computed or used, never a selection (sequences without reads still have genes)."""
    n = 0
    gl = prog.func(DSP, "DatasetProcessor.get_chr_list")

    def selection(e):
        """a comprehension with a condition / filter() somewhere in the expression"""
        for x in ast.walk(e):
            if isinstance(x, (ast.ListComp, ast.SetComp, ast.GeneratorExp)) and any(g.ifs for g in x.generators):
                return x
            if isinstance(x, ast.Call) and call_name(x) == "filter":
                return x
        return None
    rets = [r for r in walk_no_nested(gl) if isinstance(r, ast.Return) and r.value is not None]
    names = {r.value.id for r in rets if isinstance(r.value, ast.Name)}
    exprs = [r.value for r in rets] + [st.value for st in walk_no_nested(gl) if isinstance(st, ast.Assign)]
    for e in exprs:
        n += 1
        sel = selection(e)
        if sel is not None:
            ctx.fail("G11", sel, gl._qualname, src(sel)[:90], "get_chr_list returns a selection of the reference sequences (%s): the sequences "
                     "left out get no task in the second stage, and their reference transcripts are missing from extended_annotation.gtf"
                     % src(sel)[:60])
    if not any("reference_record_dict" in src(e) for e in exprs):
        ctx.undecided("G11", gl, gl._qualname, "the list is not computed from reference_record_dict")
    par = prog.func(DSP, "DatasetProcessor.process_assigned_reads")
    for st in walk_no_nested(par):
        if isinstance(st, ast.Assign) and any(isinstance(x, ast.Call) and (call_name(x) or "").endswith("get_chr_list") for x in ast.walk(st.value)):
            n += 1
            sel = selection(st.value)
            if sel is not None:
                ctx.fail("G11", st, par._qualname, src(st)[:90], "the second stage runs over a selection of the reference sequences (%s): "
                         "reference transcripts of the other sequences never reach extended_annotation.gtf" % src(sel)[:60])
            else:
                ctx.ok("G11", "%s:%d" % (DSP, st.lineno), "second-stage tasks are scheduled over get_chr_list() as it is")
    if not [f_ for f_ in ctx.findings if f_.rule == "G11"]:
        ctx.ok("G11", "%s:%d" % (DSP, gl.lineno), "get_chr_list returns every key of reference_record_dict")
    ctx.floor("G11", "definitions / uses of the task list", n, 2)


def run(prog, ctx):
    ctx.rule("G11", "get_chr_list returns all keys of reference_record_dict and process_assigned_reads schedules its tasks over that list "
                    "unfiltered (no conditional comprehension / filter)")
    g11(prog, ctx)
    ctx.rule("G10", "the exon list stored in all_isoforms_exons is a local that starts empty and only receives (record.start, record.end) of "
                    "the records of the transcript's own children loop - no call transforms it before it is stored")
    g10(prog, ctx)
    ctx.rule("G9", "rule I7 of C17 run for C03: with an annotation given, the id distributor scans all gene and transcript ids of the "
                   "chromosome (a novel transcript must not be printed under a reference transcript's id)")
    from . import c17 as _c17
    _c17.i7(prog, ctx, tag="G9")
    ctx.rule("G8", "at every call of TranscriptToGeneJoiner.merge_genes the argument whose records the callee deletes is known (enclosing test "
                   "or preceding assert) not to be a key of gene_info.gene_strands - an annotated gene is never the one merged away")
    g8(prog, ctx)
    ctx.rule("G5", "every creation of a reference transcript model is followed by registering its id in detected_known_isoforms in the "
                   "same block and is protected by `id not in registry` - as a dominating guard, or because the table its id ranges over is "
                   "filled only under that test; the registry is reset per chromosome task only")
    g5(prog, ctx)
    ctx.rule("G4", "TranscriptToGeneJoiner.count_score returns a non-zero score only under the fact that both gene strands are equal; "
                   "join_transcripts merges only above a positive threshold")
    ctx.rule("G1", "GFFPrinter.dump registers a model for printing only on a path where validate_exons(model.exon_blocks) passed; "
                   "transcript/exon lines are written only inside the loop over registered indices; nothing else writes the GTF handle")
    ctx.rule("G2", "TranscriptModelType.known is assigned only in TranscriptModel.from_reference_transcript, whose exons/strand/gene/id "
                   "come from the annotation maps of the same isoform id; the extended storage appends every reference isoform and "
                   "every non-known dumped model unfiltered")
    ctx.rule("G3", "every in-place mutation of a model's exon_blocks / strand is control-dependent, locally or at every call site, on "
                   "transcript_type != known (reference models alias the annotation's lists)")
    ctx.rule("G7", "the GFFPrinter's registry of printed gene ids is created in __init__, only ever added to (under `id not in registry`), and never "
                   "cleared, shrunk or rebound by another method")
    g7(prog, ctx)
    ctx.rule("G6", "in construct_models_in_parallel every guard above create_extended_storage(...) and above the dump of its result depends on "
                   "the function's parameters / run options only (single-definition locals resolved; nothing that is appended to while the "
                   "chromosome is processed)")
    g6(prog, ctx)
    g1(prog, ctx)
    g2(prog, ctx)
    g3(prog, ctx)
    g4(prog, ctx)
    ctx.assume("sortedness / non-overlap / chromosome bounds of novel exons, 'appears once', gene containment are value-level and not decided")
