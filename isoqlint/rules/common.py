"""Cross-cutting rules, run for every property on the part of the program its anchors name (properties.jsonl anchors.files).

U1 swapped arguments: a call passes two variables that carry the names of two of the callee's parameters, crossed.
U2 option/enum confusion: an option that is converted with Enum[args.x] (so it holds the member NAME, a str) is compared with an
   Enum member - the comparison is constantly False / True.
"""
import ast
import json
import os

from ..engine import argswap
from ..engine.program import src, dotted, walk_no_nested

_VERIF = os.path.dirname(os.path.dirname(os.path.dirname(os.path.abspath(__file__))))


def anchor_files(pid):
    with open(os.path.join(_VERIF, "properties.jsonl")) as fh:
        for line in fh:
            if line.strip():
                p = json.loads(line)
                if p["id"] == pid:
                    return set(p["anchors"]["files"])
    return set()


def run(prog, ctx, pid):
    files = anchor_files(pid)
    ctx.rule("U1", "no call in or into the property's anchor modules passes two plain variables/attributes named like two of the "
                   "callee's parameters in crossed positions (callee resolved by name; all same-named candidates must agree)")
    n = 0
    for m, q, f in prog.all_functions():
        if m.rel in files:
            n += 1
    hits = 0
    for m, q, c, cq, i, j in argswap.swapped_calls(prog):
        callee_mods = {cm.rel for cm, _q, _f in argswap.callee_candidates(prog, c)}
        if m.rel not in files and not (callee_mods & files):
            continue
        hits += 1
        ctx.fail("U1", c, q, src(c)[:110], "arguments %d and %d of this call are the variables `%s` and `%s`, which are the names of "
                 "parameters %d and %d of %s: the two values are passed crossed" % (i + 1, j + 1, src(c.args[i]), src(c.args[j]), j + 1, i + 1, cq))
    u2(prog, ctx, files)
    if not hits:
        ctx.ok("U1", "anchor modules", "no crossed same-named arguments in calls in/into %d anchor-module functions" % n, nontrivial=False)


def _enum_classes(prog):
    out = set()
    for m, q, c in prog.all_classes():
        for b in c.bases:
            bn = dotted(b) or ""
            if bn.split(".")[-1] in ("Enum", "IntEnum", "Flag"):
                out.add(c.name)
    return out


def u2(prog, ctx, files):
    enums = _enum_classes(prog)
    # options known to hold a member name: E[args.x] somewhere
    name_opts = {}
    for m, q, f in prog.all_functions():
        for n in walk_no_nested(f):
            if isinstance(n, ast.Subscript) and isinstance(n.value, ast.Name) and n.value.id in enums:
                d = dotted(n.slice)
                if d and "." in d:
                    name_opts.setdefault(d.split(".")[-1], n.value.id)
    # an attribute that is itself rebound to an Enum value (args.x = E[args.x]) changes type on the way: not decidable by name
    for m, q, f in prog.all_functions():
        for st in walk_no_nested(f):
            if isinstance(st, ast.Assign):
                for t in st.targets:
                    if isinstance(t, ast.Attribute) and t.attr in name_opts and not (isinstance(st.value, ast.Constant) and isinstance(st.value.value, str)):
                        if any(isinstance(x, ast.Name) and x.id in enums for x in ast.walk(st.value)) or not isinstance(st.value, (ast.Constant, ast.JoinedStr)):
                            if any(isinstance(x, ast.Name) and x.id in enums for x in ast.walk(st.value)):
                                name_opts.pop(t.attr, None)
    ctx.rule("U2", "an option attribute that is converted by Enum[<obj>.<opt>] holds the member's name (a str); it is never compared "
                   "with == / != / in against members of an Enum (constantly False); scoped to options whose derived settings an "
                   "anchor module of the property reads")
    n = 0
    for m, q, f in prog.all_functions():
        for c in walk_no_nested(f):
            if not (isinstance(c, ast.Compare) and len(c.ops) == 1 and isinstance(c.ops[0], (ast.Eq, ast.NotEq, ast.In, ast.NotIn, ast.Is, ast.IsNot))):
                continue
            sides = [c.left, c.comparators[0]]
            for a, b in (sides, sides[::-1]):
                da = dotted(a)
                if not (da and "." in da and da.split(".")[-1] in name_opts):
                    continue
                members = [x for x in ast.walk(b) if isinstance(x, ast.Attribute) and isinstance(x.value, ast.Name) and x.value.id in enums
                           and not x.attr.startswith("__")]
                if not members:
                    continue
                # scope: what is decided under this comparison
                cur = c
                while cur is not None and not isinstance(cur, ast.stmt):
                    cur = getattr(cur, "_parent", None)
                decided = {t.attr for st in ast.walk(cur) if isinstance(st, ast.Assign) for t in st.targets if isinstance(t, ast.Attribute)} if cur else set()
                decided.add(da.split(".")[-1])
                used = False
                for m2, q2, f2 in prog.all_functions():
                    if m2.rel in files and any(isinstance(x, ast.Attribute) and x.attr in decided for x in walk_no_nested(f2)):
                        used = True
                        break
                if not used and m.rel not in files:
                    continue
                n += 1
                ctx.fail("U2", c, q, src(c)[:100], "%s holds the NAME of a %s member (it is converted with %s[%s] elsewhere), so comparing it "
                         "with %s is constantly %s: the branch it guards is dead and %s keep(s) a value that the rest of the program "
                         "does not expect" % (da, name_opts[da.split(".")[-1]], name_opts[da.split(".")[-1]], da, src(members[0]),
                                              "False" if isinstance(c.ops[0], (ast.Eq, ast.In, ast.Is)) else "True",
                                              ", ".join(sorted(decided - {da.split(".")[-1]})) or da))
    if not n:
        ctx.ok("U2", "isoquant.py", "%d name-valued options (%s...) are never compared with Enum members" % (len(name_opts), ", ".join(sorted(name_opts)[:4])),
               nontrivial=False)
