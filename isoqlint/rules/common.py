"""Cross-cutting rules, run for every property on the part of the program its anchors name (properties.jsonl anchors.files).

U1 swapped arguments: a call passes two variables that carry the names of two of the callee's parameters, crossed.
"""
import json
import os

from ..engine import argswap
from ..engine.program import src

_VERIF = os.path.dirname(os.path.dirname(os.path.dirname(os.path.abspath(__file__))))


def anchor_files(pid):
    with open(os.path.join(_VERIF, "properties.jsonl")) as fh:
        for line in fh:
            if line.strip():
                p = json.loads(line)
                if p["id"] == pid:
                    return set(p["anchors"]["files"])
    return set()


def run(prog, ctx, pid):
    files = anchor_files(pid)
    ctx.rule("U1", "no call in or into the property's anchor modules passes two plain variables/attributes named like two of the "
                   "callee's parameters in crossed positions (callee resolved by name; all same-named candidates must agree)")
    n = 0
    for m, q, f in prog.all_functions():
        if m.rel in files:
            n += 1
    hits = 0
    for m, q, c, cq, i, j in argswap.swapped_calls(prog):
        callee_mods = {cm.rel for cm, _q, _f in argswap.callee_candidates(prog, c)}
        if m.rel not in files and not (callee_mods & files):
            continue
        hits += 1
        ctx.fail("U1", c, q, src(c)[:110], "arguments %d and %d of this call are the variables `%s` and `%s`, which are the names of "
                 "parameters %d and %d of %s: the two values are passed crossed" % (i + 1, j + 1, src(c.args[i]), src(c.args[j]), j + 1, i + 1, cq))
    if not hits:
        ctx.ok("U1", "anchor modules", "no crossed same-named arguments in calls in/into %d anchor-module functions" % n, nontrivial=False)
