"""Cross-cutting rules, run for every property on the part of the program its anchors name (properties.jsonl anchors.files).

U1 swapped arguments: a call passes two variables that carry the names of two of the callee's parameters, crossed.
U3 ignored argument: a function never reads one of its parameters although a call site passes an explicit value for it.
U4 option overwrite: isoquant.py assigns a declared command-line option only under a test that reads that same option.
U5 preset wiring: args.<option> = strategy.<field> copies the field of its own name.
U2 option/enum confusion: an option that is converted with Enum[args.x] (so it holds the member NAME, a str) is compared with an
   Enum member - the comparison is constantly False / True.
"""
import ast
import json
import os

from ..engine import argswap
from ..engine.program import src, dotted, walk_no_nested, call_name

_VERIF = os.path.dirname(os.path.dirname(os.path.dirname(os.path.abspath(__file__))))


def anchor_files(pid):
    with open(os.path.join(_VERIF, "properties.jsonl")) as fh:
        for line in fh:
            if line.strip():
                p = json.loads(line)
                if p["id"] == pid:
                    return set(p["anchors"]["files"])
    return set()


def run(prog, ctx, pid):
    files = anchor_files(pid)
    ctx.rule("U1", "no call in or into the property's anchor modules passes two plain variables/attributes named like two of the "
                   "callee's parameters in crossed positions (callee resolved by name; all same-named candidates must agree)")
    n = 0
    for m, q, f in prog.all_functions():
        if m.rel in files:
            n += 1
    hits = 0
    for m, q, c, cq, i, j in argswap.swapped_calls(prog):
        callee_mods = {cm.rel for cm, _q, _f in argswap.callee_candidates(prog, c)}
        if m.rel not in files and not (callee_mods & files):
            continue
        hits += 1
        ctx.fail("U1", c, q, src(c)[:110], "arguments %d and %d of this call are the variables `%s` and `%s`, which are the names of "
                 "parameters %d and %d of %s: the two values are passed crossed" % (i + 1, j + 1, src(c.args[i]), src(c.args[j]), j + 1, i + 1, cq))
    u2(prog, ctx, files)
    u3(prog, ctx, files)
    u6(prog, ctx, files)
    u7(prog, ctx, files, pid)
    if "isoquant.py" in files:
        u4(prog, ctx)
        u5(prog, ctx)
    if not hits:
        ctx.ok("U1", "anchor modules", "no crossed same-named arguments in calls in/into %d anchor-module functions" % n, nontrivial=False)


def _enum_classes(prog):
    out = set()
    for m, q, c in prog.all_classes():
        for b in c.bases:
            bn = dotted(b) or ""
            if bn.split(".")[-1] in ("Enum", "IntEnum", "Flag"):
                out.add(c.name)
    return out


def u2(prog, ctx, files):
    enums = _enum_classes(prog)
    # options known to hold a member name: E[args.x] somewhere
    name_opts = {}
    for m, q, f in prog.all_functions():
        for n in walk_no_nested(f):
            if isinstance(n, ast.Subscript) and isinstance(n.value, ast.Name) and n.value.id in enums:
                d = dotted(n.slice)
                if d and "." in d:
                    name_opts.setdefault(d.split(".")[-1], n.value.id)
    # an attribute that is itself rebound to an Enum value (args.x = E[args.x]) changes type on the way: not decidable by name
    for m, q, f in prog.all_functions():
        for st in walk_no_nested(f):
            if isinstance(st, ast.Assign):
                for t in st.targets:
                    if isinstance(t, ast.Attribute) and t.attr in name_opts and not (isinstance(st.value, ast.Constant) and isinstance(st.value.value, str)):
                        if any(isinstance(x, ast.Name) and x.id in enums for x in ast.walk(st.value)) or not isinstance(st.value, (ast.Constant, ast.JoinedStr)):
                            if any(isinstance(x, ast.Name) and x.id in enums for x in ast.walk(st.value)):
                                name_opts.pop(t.attr, None)
    ctx.rule("U2", "an option attribute that is converted by Enum[<obj>.<opt>] holds the member's name (a str); it is never compared "
                   "with == / != / in against members of an Enum (constantly False); scoped to options whose derived settings an "
                   "anchor module of the property reads")
    n = 0
    for m, q, f in prog.all_functions():
        for c in walk_no_nested(f):
            if not (isinstance(c, ast.Compare) and len(c.ops) == 1 and isinstance(c.ops[0], (ast.Eq, ast.NotEq, ast.In, ast.NotIn, ast.Is, ast.IsNot))):
                continue
            sides = [c.left, c.comparators[0]]
            for a, b in (sides, sides[::-1]):
                da = dotted(a)
                if not (da and "." in da and da.split(".")[-1] in name_opts):
                    continue
                members = [x for x in ast.walk(b) if isinstance(x, ast.Attribute) and isinstance(x.value, ast.Name) and x.value.id in enums
                           and not x.attr.startswith("__")]
                if not members:
                    continue
                # scope: what is decided under this comparison
                cur = c
                while cur is not None and not isinstance(cur, ast.stmt):
                    cur = getattr(cur, "_parent", None)
                decided = {t.attr for st in ast.walk(cur) if isinstance(st, ast.Assign) for t in st.targets if isinstance(t, ast.Attribute)} if cur else set()
                decided.add(da.split(".")[-1])
                used = False
                for m2, q2, f2 in prog.all_functions():
                    if m2.rel in files and any(isinstance(x, ast.Attribute) and x.attr in decided for x in walk_no_nested(f2)):
                        used = True
                        break
                if not used and m.rel not in files:
                    continue
                n += 1
                ctx.fail("U2", c, q, src(c)[:100], "%s holds the NAME of a %s member (it is converted with %s[%s] elsewhere), so comparing it "
                         "with %s is constantly %s: the branch it guards is dead and %s keep(s) a value that the rest of the program "
                         "does not expect" % (da, name_opts[da.split(".")[-1]], name_opts[da.split(".")[-1]], da, src(members[0]),
                                              "False" if isinstance(c.ops[0], (ast.Eq, ast.In, ast.Is)) else "True",
                                              ", ".join(sorted(decided - {da.split(".")[-1]})) or da))
    if not n:
        ctx.ok("U2", "isoquant.py", "%d name-valued options (%s...) are never compared with Enum members" % (len(name_opts), ", ".join(sorted(name_opts)[:4])),
               nontrivial=False)


# parameters that are not read by their function on today's tree, each confirmed by reading (interface conformance or dead parameter
# whose value cannot matter); a parameter that is not listed, is never read, and receives an explicit value at a call site is reported
UNREAD_OK = {
    ("src/alignment_processor.py", "AbstractAlignmentStorage.add_alignment", "bam_index"): "base-class part of add_alignment; subclasses store the index",
    ("src/assignment_io.py", "PrintAllFunctor.check", "assignment"): "functor interface: prints everything",
    ("src/dataset_processor.py", "ReadAssignmentAggregator.finalize_aggregators", "sample"): "kept for the caller's signature; nothing per sample to finalise",
    ("src/graph_based_model_construction.py", "GraphBasedModelConstructor.get_known_spliced_isoforms", "s"): "label used only in commented-out debug lines",
    ("src/graph_based_model_construction.py", "GraphBasedModelConstructor.select_reference_gene", "transcript_range"): "selection is by introns only",
    ("src/long_read_assigner.py", "LongReadAssigner.categorize_correct_unspliced_match", "combined_read_profile"): "sibling signature of the spliced variant",
    ("src/long_read_assigner.py", "LongReadAssigner.detect_inconsistensies", "read_id"): "used only in commented-out debug lines",
    ("src/long_read_counter.py", "ProfileFeatureCounter.convert_counts_to_tpm", "normalization"): "counter interface; exon/intron tables have no TPM",
    ("src/read_groups.py", "AlignmentTagReadGrouper.get_group_id", "filename"): "grouper interface",
    ("src/read_groups.py", "DefaultReadGrouper.get_group_id", "alignment"): "grouper interface",
    ("src/read_groups.py", "DefaultReadGrouper.get_group_id", "filename"): "grouper interface",
    ("src/read_groups.py", "FileNameGrouper.get_group_id", "alignment"): "grouper interface",
    ("src/read_groups.py", "ReadIdSplitReadGrouper.get_group_id", "filename"): "grouper interface",
    ("src/read_groups.py", "ReadTableGrouper.get_group_id", "filename"): "grouper interface",
    ("isoquant.py", "TestMode.__call__", "namespace"): "argparse.Action interface",
    ("isoquant.py", "TestMode.__call__", "values"): "argparse.Action interface",
    ("isoquant.py", "TestMode.__call__", "option_string"): "argparse.Action interface",
}


def u3(prog, ctx, files):
    ctx.rule("U3", "no function of the anchor modules ignores an argument: a parameter that is never read in a non-trivial body, is not in the "
                   "table of confirmed interface / dead parameters, and gets an explicit value at some call site is reported")
    calls_by_name = {}
    for m, q, f in prog.all_functions():
        for c in ast.walk(f):
            if isinstance(c, ast.Call):
                d = dotted(c.func)
                if d:
                    calls_by_name.setdefault(d.split(".")[-1], []).append((m, q, c))
    n = 0
    for m, q, f in prog.all_functions():
        if m.rel not in files:
            continue
        if all(isinstance(s, (ast.Pass, ast.Raise)) or (isinstance(s, ast.Expr) and isinstance(s.value, ast.Constant)) for s in f.body):
            continue
        read = {x.id for x in ast.walk(f) if isinstance(x, ast.Name) and isinstance(x.ctx, ast.Load)}
        for a in f.args.args + f.args.kwonlyargs:
            p = a.arg
            if p in ("self", "cls") or p.startswith("_") or p in read:
                continue
            n += 1
            if (m.rel, q, p) in UNREAD_OK:
                continue
            # an implementation of a polymorphic method keeps the parameters of its siblings: if another method of the same name reads
            # the parameter, this one ignoring it is interface conformance
            if "." in q and any(f2 is not f and f2.name == f.name and "." in q2 and p in {x.id for x in ast.walk(f2) if isinstance(x, ast.Name)
                                                                                           and isinstance(x.ctx, ast.Load)}
                                for _m2, q2, f2 in prog.all_functions()):
                continue
            setters = []
            for cm, cq, c in calls_by_name.get(f.name if f.name != "__init__" else q.split(".")[0], []):
                cands = argswap.callee_candidates(prog, c)
                if not any(cf is f for _m, _q, cf in cands) and f.name != "__init__":
                    continue
                try:
                    bound = argswap.bind_args(c, f, bound_method=True if f.name == "__init__" else None)
                except Exception:
                    continue
                if p in bound:
                    setters.append((cm, cq, c, bound[p]))
            if setters:
                cm, cq, c, v = setters[0]
                ctx.fail("U3", f, q, "def %s(... %s ...)" % (f.name, p),
                         "parameter `%s` of %s is never read, but %s (%s:%d) passes `%s` for it: the caller's request is silently ignored"
                         % (p, q, cq, cm.rel, c.lineno, src(v)[:40]))
    ctx.ok("U3", "anchor modules", "%d unread parameters in non-trivial functions of the anchor modules, all in the confirmed table or never set by a caller" % n,
           nontrivial=False)


# assignments to a command-line option that are not guarded by a test of the option itself, confirmed by reading
OPTION_WRITES_OK = {
    ("check_input_files", "no_junc_bed"): "no annotation -> there are no junctions to hand to the aligner; the flag only switches that off",
    ("run_pipeline", "index"): "the aligner index built by this run replaces an absent / given one for the mapping stage only",
}


def declared_options(prog):
    m = prog.module("isoquant.py")
    opts = set()
    for c in ast.walk(m.tree):
        if isinstance(c, ast.Call) and c.args:
            for a in c.args:
                if isinstance(a, ast.Constant) and isinstance(a.value, str) and a.value.startswith("--"):
                    opts.add(a.value[2:].replace("-", "_"))
            for k in c.keywords:
                if k.arg == "dest" and isinstance(k.value, ast.Constant):
                    opts.add(k.value.value)
    return opts


def u4(prog, ctx):
    from ..engine import flow
    ctx.rule("U4", "in isoquant.py every assignment to args.<declared command-line option> is controlled by a test that reads args.<that option> "
                   "(defaulting `is None`, normalising, consistency repair) or is in the table of confirmed exceptions: what the user chose is "
                   "never overwritten blindly")
    opts = declared_options(prog)
    if len(opts) < 40:
        from ..engine.program import AnalysisError
        raise AnalysisError("isoquant.py: only %d declared options found (parser construction was restructured)" % len(opts))
    m = prog.module("isoquant.py")
    n = 0
    for q, f in sorted(m.functions.items()):
        for st in walk_no_nested(f):
            if not isinstance(st, (ast.Assign, ast.AugAssign)):
                continue
            for t in (st.targets if isinstance(st, ast.Assign) else [st.target]):
                d = dotted(t)
                if not (d and d.startswith("args.") and d[5:] in opts):
                    continue
                n += 1
                opt = d[5:]
                if (q, opt) in OPTION_WRITES_OK:
                    continue
                reads = False
                for g in flow.guards_of(st, stop=f):
                    for x in ast.walk(g.test):
                        if (isinstance(x, ast.Attribute) and dotted(x) == d) or (isinstance(x, ast.Constant) and x.value == opt):
                            reads = True
                if not reads:
                    ctx.fail("U4", st, q, src(st)[:90], "the command-line option --%s is assigned here without any test of its current value: a value "
                             "given by the user is overwritten (the options are defaulted with `if args.%s is None`)" % (opt, opt))
    ctx.ok("U4", "isoquant.py", "%d assignments to declared options, all guarded by a test of the same option or in the confirmed table" % n,
           nontrivial=False)
    ctx.floor("U4", "assignments to declared options", n, 12)


# option <- preset field pairs whose names differ, confirmed by reading (isoquant.py)
WIRING_OK = {("report_novel_unspliced", "novel_monoexonic"), ("report_canonical_strategy", "report_canonical")}


def numeric_options(prog):
    """Run options whose value is a number - 0 included: declared with type=int / type=float, given a numeric default, or assigned a number
    (directly or as a numeric field of a preset record) in isoquant.py."""
    m = prog.module("isoquant.py")
    out = set()
    for c in ast.walk(m.tree):
        if isinstance(c, ast.Call) and c.args and isinstance(c.args[0], ast.Constant) and isinstance(c.args[0].value, str) \
                and c.args[0].value.startswith("--"):
            kw = {k.arg: k.value for k in c.keywords if k.arg}
            numeric = (isinstance(kw.get("type"), ast.Name) and kw["type"].id in ("int", "float")) or \
                (isinstance(kw.get("default"), ast.Constant) and type(kw["default"].value) in (int, float))
            if numeric:
                dest = kw["dest"].value if isinstance(kw.get("dest"), ast.Constant) else c.args[0].value[2:].replace("-", "_")
                out.add(dest)
    # numeric preset fields: namedtuple instances with numeric constants at the field's position
    fields_of = {}
    for st in ast.walk(m.tree):
        if isinstance(st, ast.Assign) and isinstance(st.value, ast.Call) and (dotted(st.value.func) or "").endswith("namedtuple") \
                and len(st.value.args) >= 2 and isinstance(st.value.args[1], (ast.Tuple, ast.List)) and isinstance(st.targets[0], ast.Name):
            fields_of[st.targets[0].id] = [e.value for e in st.value.args[1].elts if isinstance(e, ast.Constant)]
    num_fields = set()
    for c in ast.walk(m.tree):
        if isinstance(c, ast.Call) and isinstance(c.func, ast.Name) and c.func.id in fields_of:
            for i, a in enumerate(c.args):
                if isinstance(a, ast.Constant) and type(a.value) in (int, float) and i < len(fields_of[c.func.id]):
                    num_fields.add(fields_of[c.func.id][i])
            for k in c.keywords:
                if k.arg and isinstance(k.value, ast.Constant) and type(k.value.value) in (int, float):
                    num_fields.add(k.arg)
    for st in ast.walk(m.tree):
        if isinstance(st, ast.Assign) and len(st.targets) == 1 and (dotted(st.targets[0]) or "").startswith("args."):
            opt = dotted(st.targets[0])[5:]
            if isinstance(st.value, ast.Constant) and type(st.value.value) in (int, float):
                out.add(opt)
            elif isinstance(st.value, ast.Attribute) and st.value.attr in num_fields:
                out.add(opt)
    return out


def u6(prog, ctx, files):
    """0 is a legitimate value of a numeric run option (`--delta 0`, the `exact` preset): `<option> or <default>` replaces it silently."""
    ctx.rule("U6", "no numeric run option (declared type=int/float, numeric default, or set from a numeric preset field) is read through "
                   "`<option> or <fallback>` in value position: the value 0 would be replaced by the fallback")
    nums = numeric_options(prog)
    if len(nums) < 10:
        ctx.undecided("U6", prog.module("isoquant.py").tree, "isoquant.py", "only %d numeric options found" % len(nums))
        return
    n = 0
    for m, q, f in prog.all_functions():
        if m.rel not in files:
            continue
        for b in walk_no_nested(f):
            if not (isinstance(b, ast.BoolOp) and isinstance(b.op, ast.Or)):
                continue
            first = b.values[0]
            opt = None
            if isinstance(first, ast.Attribute) and first.attr in nums and (dotted(first.value) or "").split(".")[-1] in ("params", "args"):
                opt = first.attr
            elif isinstance(first, ast.Call) and call_name(first) == "getattr" and len(first.args) >= 2 and isinstance(first.args[1], ast.Constant) \
                    and first.args[1].value in nums:
                opt = first.args[1].value
            if opt is None:
                continue
            par = getattr(b, "_parent", None)
            in_test = isinstance(par, (ast.If, ast.While, ast.Assert, ast.IfExp)) and getattr(par, "test", None) is b \
                or isinstance(par, (ast.BoolOp, ast.UnaryOp, ast.comprehension))
            if in_test:
                continue
            n += 1
            ctx.fail("U6", b, q, src(b)[:80], "the numeric option %s is read as `%s`: when the user (or the `exact` preset) sets it to 0 the "
                     "fallback is used instead, and the run silently works with another tolerance than the one asked for" % (opt, src(b)[:60]))
    if not n:
        ctx.ok("U6", "anchor modules", "no numeric option (%d known) is read through `or <fallback>`" % len(nums), nontrivial=False)


def _sound_memo(prog, m, muts):
    """Every modification is `D[K] = V` where V depends on nothing but what K is made of (and constants): a memo of a pure function, which is
    the same whoever filled it."""
    from ..engine.dataflow import dependency_roots
    for _m, _q, f, node, kind in muts:
        par = getattr(node, "_parent", None)
        st = getattr(par, "_parent", None)
        if not (isinstance(par, ast.Subscript) and isinstance(st, ast.Assign) and st.targets[0] is par):
            return False
        key_roots = dependency_roots(f, [par.slice])
        for r in dependency_roots(f, [st.value]):
            base = r.split(".")[0]
            if r in key_roots or base in {k.split(".")[0] for k in key_roots if k.split(".")[0] not in ("self", "cls")}:
                continue
            if base[:1].isupper() or r.isupper() or base in _m.imports or base in _m.functions \
                    or base in ("len", "str", "int", "abs", "min", "max", "tuple", "sorted", "float", "bool"):
                continue
            return False
    return True


def u7(prog, ctx, files, pid):
    """Process-wide mutable state in the property's anchor modules: a class-level or module-level container that functions modify outlives
    the object / chromosome task / experiment that filled it, so results depend on what the same process handled before (the pipeline
    hands chromosomes and experiments to a process in an order that depends on --threads)."""
    ctx.rule("U7", "every class-level or module-level mutable container of the anchor modules that is modified at run time is (a) in the table "
                   "of confirmed harmless ones, (b) re-initialised at the start of each chromosome task, or (c) a memo whose stored value "
                   "depends on nothing but its key")
    if pid in ("C10", "C06"):
        return        # S1 / O3 decide this for the whole program
    from . import c10 as _c10
    from ..engine import carried
    n = 0
    for (cname, attr), (m, c, st, why) in sorted(carried.class_level_locations(prog).items()):
        if m.rel not in files:
            continue
        acc = carried.accesses_of_class_attr(prog, cname, attr)
        muts = [a for a in acc if a[4] in ("mutate", "write")]
        if not muts:
            continue
        n += 1
        if (cname, attr) in _c10.BENIGN_CLASS_STATE:
            ctx.ok("U7", "%s:%d" % (m.rel, st.lineno), "%s.%s: %s" % (cname, attr, _c10.BENIGN_CLASS_STATE[(cname, attr)]))
        elif [r for r in _c10.reset_sites(prog, cname, attr) if r[0] in ("construct_models_in_parallel", "collect_reads_in_parallel")]:
            ctx.ok("U7", "%s:%d" % (m.rel, st.lineno), "%s.%s is re-initialised at the start of every chromosome task" % (cname, attr))
        elif _sound_memo(prog, m, muts):
            ctx.ok("U7", "%s:%d" % (m.rel, st.lineno), "%s.%s is a memo whose values depend on their keys only" % (cname, attr))
        else:
            mm = muts[0]
            ctx.fail("U7", mm[3], mm[1], "%s.%s" % (cname, attr), "class-level %s.%s (%s) is modified here: it is shared by all objects of the "
                     "process and outlives the chromosome task / experiment that filled it, and what is stored depends on more than the key "
                     "it is stored under - a later object (another chromosome, region or experiment) gets values computed from "
                     "another one's data" % (cname, attr, why))
    for rel in sorted(files):
        m = prog.modules.get(rel)
        if m is None:
            continue
        for name, v in sorted(m.assigns.items()):
            mutable = isinstance(v, (ast.Dict, ast.List, ast.Set)) or \
                (isinstance(v, ast.Call) and (call_name(v) or "").split(".")[-1] in carried.MUTABLE_CTORS)
            if not mutable:
                continue
            hits = []
            for q, f in m.functions.items():
                if name in [a.arg for a in f.args.args] or any(isinstance(s_, ast.Assign) and any(dotted(t) == name for t in s_.targets)
                                                                for s_ in walk_no_nested(f)):
                    continue
                for node in walk_no_nested(f):
                    if isinstance(node, ast.Call) and isinstance(node.func, ast.Attribute) and node.func.attr in carried.MUTATING_METHODS \
                            and isinstance(node.func.value, ast.Name) and node.func.value.id == name:
                        hits.append((m, q, f, node.func.value, "mutate"))
                    if isinstance(node, ast.Subscript) and isinstance(node.ctx, ast.Store) and isinstance(node.value, ast.Name) \
                            and node.value.id == name:
                        hits.append((m, q, f, node.value, "mutate"))
            if not hits:
                continue
            n += 1
            if _sound_memo(prog, m, hits):
                ctx.ok("U7", rel, "module-level %s is a memo whose values depend on their keys only" % name)
            else:
                ctx.fail("U7", hits[0][3], hits[0][1], "%s (module %s)" % (name, rel), "module-level %s is modified at run time: it is shared by "
                         "everything the process handles (chromosome tasks, experiments), and what is stored depends on more than the key it "
                         "is stored under" % name)
    _c10.memoised_functions(prog, ctx, "U7", files=files)
    ctx.ok("U7", "anchor modules", "%d process-wide mutable locations modified at run time, all accounted for" % n, nontrivial=False)


def u5(prog, ctx):
    """Preset wiring by name: `args.<option> = strategy.<field>` copies the field of the same name (a prefix verb such as correct_ aside),
    and no field is wired to two options of one function."""
    ctx.rule("U5", "in isoquant.py every `args.<option> = <preset record>.<field>` has option == field, option == 'correct_' + field, or is one of "
                   "the two confirmed differently named pairs; no preset field feeds two options in one function")
    m = prog.module("isoquant.py")
    n = 0
    for q, f in sorted(m.functions.items()):
        used = {}
        for st in walk_no_nested(f):
            if not (isinstance(st, ast.Assign) and len(st.targets) == 1 and isinstance(st.value, ast.Attribute) and isinstance(st.value.value, ast.Name)):
                continue
            t = dotted(st.targets[0]) or ""
            if not t.startswith("args.") or st.value.value.id not in ("strategy", "preset"):
                continue
            n += 1
            opt, fld = t[5:], st.value.attr
            if not (opt == fld or opt == "correct_" + fld or (opt, fld) in WIRING_OK):
                ctx.fail("U5", st, q, src(st), "the option %s is set from the preset field %s (its siblings copy the field that carries their own name): the "
                         "run behaves as if another preset column had been chosen" % (opt, fld))
            if fld in used and used[fld] != opt:
                ctx.fail("U5", st, q, src(st), "preset field %s is wired to two options (%s and %s)" % (fld, used[fld], opt))
            used[fld] = opt
    ctx.ok("U5", "isoquant.py", "%d option <- preset-field assignments, all wired to the field of their own name" % n, nontrivial=False)
    ctx.floor("U5", "option <- preset field assignments", n, 12)
