"""C08 - multi-mapped reads resolve to one best locus (structural part).

M1 the priority chain of select_best_assignment follows the documented order, derived from the classifying predicates
M2 losers are marked suspended in the field the single loading gate tests, and the gate drops them on every path
M3 evidence loops of model construction skip multimappers before the first state write
M4 the two constructors of the compact record define the same fields from the same sources
"""
import ast
import re

from ..engine.program import AnalysisError, dotted, src, walk_no_nested, call_name
from ..engine import flow, wire

MR = "src/multimap_resolver.py"
DSP = "src/dataset_processor.py"
ISO = "src/isoform_assignment.py"
RANK = {"primary_unique_consistent": 0, "consistent": 1, "primary_inconsistent": 2, "inconsistent": 3, "noninformative": 4}


def m1(prog, ctx):
    f = prog.func(MR, "MultimapResolver.select_best_assignment")
    loops = [l for l in f.body if isinstance(l, ast.For)]
    if len(loops) != 1:
        raise AnalysisError("select_best_assignment: classifying loop not found")
    loop = loops[0]
    klass = {}
    for c in ast.walk(loop):
        if isinstance(c, ast.Call) and isinstance(c.func, ast.Attribute) and c.func.attr == "append" and isinstance(c.func.value, ast.Name):
            st = c
            while not isinstance(st, ast.stmt):
                st = st._parent
            pos, neg = [], []
            for t, p in flow.guard_facts(st, stop=f):
                (pos if p else neg).append(src(t))
            incons = any(x.endswith(".is_inconsistent()") for x in pos)
            cons = any(x.endswith(".is_consistent()") for x in pos)
            primary = any(x.endswith(".multimapper") for x in neg)
            not_amb = any("ReadAssignmentType.ambiguous" in x and "==" in x for x in neg) or \
                any("ReadAssignmentType.ambiguous" in x and "!=" in x for x in pos)
            if incons:
                k = "primary_inconsistent" if primary else "inconsistent"
            elif cons:
                k = "primary_unique_consistent" if (primary and not_amb) else ("consistent" if not primary else "?primary-consistent")
            else:
                k = "noninformative" if any(x.endswith(".is_inconsistent()") for x in neg) and any(x.endswith(".is_consistent()") for x in neg) else "?"
            klass[c.func.value.id] = (k, c)
    for name, (k, c) in sorted(klass.items()):
        if k.startswith("?"):
            ctx.fail("M1", c, f._qualname, src(c), "cannot derive the priority class of list %s from its guarding predicates (%s)" % (name, k))
        else:
            ctx.ok("M1", "%s:%d" % (MR, c.lineno), "list %s collects class %s" % (name, k))
    # the selection after the loop, path by path: whichever list a path resolves with, every list of higher priority is empty there
    tail = f.body[f.body.index(loop) + 1:]
    rank_of = {n: RANK.get(k, -1) for n, (k, _c) in klass.items()}
    selectable = set()
    problem = None
    npaths = 0
    for pth in flow.block_paths(tail, what="select_best_assignment"):
        if pth.exit != "return" or pth.exit_node is None:
            continue
        npaths += 1
        rv = pth.exit_node.value
        lists_arg = None
        if isinstance(rv, ast.Call) and len(rv.args) >= 2:
            a2 = rv.args[1]
            ops = a2.values if isinstance(a2, ast.BoolOp) and isinstance(a2.op, ast.Or) else [a2]
            if all(isinstance(o, ast.Name) and o.id in klass for o in ops):
                lists_arg = [o.id for o in ops]
        for sc in flow.path_scenarios(pth):
            empty = {src(t) for t, pol in sc if isinstance(t, ast.Name) and not pol}
            nonempty = {src(t) for t, pol in sc if isinstance(t, ast.Name) and pol}
            if empty & nonempty:
                continue
            if lists_arg is None:
                # a fallback that resolves with none of the lists is only right when all of them are empty
                if not set(klass) <= empty:
                    problem = problem or (pth, "falls back to %s although %s may be non-empty" % (src(rv)[:40], sorted(set(klass) - empty)))
                continue
            earlier = []
            for L in lists_arg:
                if L in empty:
                    earlier.append(L)
                    continue
                higher = [H for H in klass if rank_of[H] < rank_of[L] and H not in empty and H not in earlier]
                if higher:
                    problem = problem or (pth, "resolves with %s (%s) while %s of higher priority may be non-empty"
                                          % (L, klass[L][0], higher))
                selectable.add(L)
                earlier.append(L)
                if L in nonempty:
                    break
    if sorted(rank_of.values()) != sorted(RANK.values()):
        problem = problem or (None, "the lists do not collect the five classes one each: %s" % {n: k for n, (k, _c) in klass.items()})
    if problem or selectable != set(klass) or npaths < 3:
        pth, why = problem if problem else (None, "lists never selected: %s" % sorted(set(klass) - selectable))
        ctx.fail("M1", pth.exit_node if pth else f, f._qualname, "selection order", "the alignment kept for a multi-mapped read must come from the "
                 "first non-empty class in the order primary-unique-consistent, consistent, primary-inconsistent, inconsistent, noninformative "
                 "(%s)" % why, path=pth.describe() if pth else None)
    else:
        ctx.ok("M1", "%s:%d" % (MR, tail[0].lineno if tail else f.lineno), "on all %d return paths the resolving list is the first non-empty one in priority order: %s"
               % (npaths, " > ".join(k for k, _ in sorted(((klass[n][0], rank_of[n]) for n in klass), key=lambda x: x[1]))))
    ctx.floor("M1", "priority classes", len(klass), 5)


def m2(prog, ctx):
    # the gate
    g = prog.func_inlined(DSP, "ReadAssignmentLoader.get_next")
    loop = [l for l in g.body if isinstance(l, ast.While)]
    if len(loop) != 1:
        raise AnalysisError("ReadAssignmentLoader.get_next: record loop not found")
    loop = loop[0]
    gate_field = None
    n = 0
    # roles, not names: the record just loaded, and its resolved counterpart (the object whose field is tested for `suspended`)
    rv = [st_.targets[0].id for st_ in walk_no_nested(loop) if isinstance(st_, ast.Assign) and isinstance(st_.targets[0], ast.Name)
          and "get_object()" in src(st_.value)]
    if len(rv) != 1:
        raise AnalysisError("ReadAssignmentLoader.get_next: the loaded record variable was not identified")
    RV = rv[0]
    sm = [re.search(r"(\w+)\.(\w+) == ReadAssignmentType\.suspended", src(t_)) for i_ in ast.walk(loop) if isinstance(i_, ast.If) for t_ in flow.atoms(i_.test)]
    sm = [x for x in sm if x]
    XV = sm[0].group(1) if sm else "?"
    for p in flow.block_paths(loop.body, what="get_next"):
        n += 1
        appended = any(isinstance(st, ast.Expr) and isinstance(st.value, ast.Call) and isinstance(st.value.func, ast.Attribute)
                       and st.value.func.attr == "append" and [src(a) for a in st.value.args] == [RV] for st in p.stmts())
        conds = [(src(a_), ap_) for t, pol in p.conds() for a_, ap_ in flow.conjuncts(t, pol)]
        in_dict = any(t == "%s.read_id in self.multimapped_chr_dict" % RV and pol for t, pol in conds)
        susp = [(t, pol) for t, pol in conds if "ReadAssignmentType.suspended" in t]
        for t, pol in susp:
            m = re.search(r"%s\.(\w+) == ReadAssignmentType\.suspended" % re.escape(XV), t)
            if m:
                gate_field = m.group(1)
        if in_dict and appended:
            # must have passed: resolved found and not suspended
            found = any(t == XV and pol for t, pol in conds)
            not_susp = any(not pol for t, pol in susp)
            if not (found and not_susp):
                ctx.fail("M2", loop, g._qualname, "assignment_storage.append(read_assignment)",
                         "a multi-mapped read is forwarded to stage 2 on a path that did not test its resolved record for "
                         "'suspended'", path=p.describe())
            else:
                ctx.ok("M2", "%s:%d" % (DSP, loop.lineno), "multimapper forwarded only when resolved and not suspended")
    if gate_field is None:
        ctx.fail("M2", loop, g._qualname, "suspended test", "the loader no longer drops reads whose resolved record is suspended")
        gate_field = "assignment_type"
    # record matched on (assignment_id, chr_id)
    def _both_keys(test):
        t = src(test)
        R_ = re.escape(RV)
        m1 = re.search(r"(\w+)\.assignment_id == %s\.assignment_id|%s\.assignment_id == (\w+)\.assignment_id" % (R_, R_), t)
        m2_ = re.search(r"(\w+)\.chr_id == %s\.chr_id|%s\.chr_id == (\w+)\.chr_id" % (R_, R_), t)
        return bool(m1 and m2_ and (m1.group(1) or m1.group(2)) == (m2_.group(1) or m2_.group(2))) and \
            all(pol for _a, pol in flow.conjuncts(test, True)) and len(flow.conjuncts(test, True)) >= 2
    match = [c for c in ast.walk(loop) if isinstance(c, ast.If) and _both_keys(c.test)]
    if not match:
        ctx.fail("M2", loop, g._qualname, "record match", "resolved record is not matched on (assignment_id, chr_id)")
    else:
        ctx.ok("M2", "%s:%d" % (DSP, match[0].lineno), "resolved record matched on (assignment_id, chr_id)")
    # verdict fields copied back
    copied = {dotted(s.targets[0]).split(".")[-1] for s in ast.walk(loop) if isinstance(s, ast.Assign)
              and (dotted(s.targets[0]) or "").startswith(RV + ".") and (XV + ".") in src(s.value)}
    for fld in ("assignment_type", "gene_assignment_type", "multimapper"):
        if fld not in copied:
            ctx.fail("M2", loop, g._qualname, fld, "resolved %s is not copied onto the loaded assignment" % fld)
        else:
            ctx.ok("M2", "%s:%d" % (DSP, loop.lineno), "resolved %s re-applied" % fld)
    # the verdict of EVERY alignment of a resolved read reaches its chromosome's file: the loop that sorts the resolver's output by
    # chromosome files each record unconditionally (a loser that is not written is not found by the loader of a chromosome that holds
    # only losers of the read - it then keeps its original assignment)
    rm = prog.func_inlined(DSP, "DatasetProcessor.resolve_multimappers")
    res_names = {st_.targets[0].id for st_ in walk_no_nested(rm) if isinstance(st_, ast.Assign) and isinstance(st_.targets[0], ast.Name)
                 and isinstance(st_.value, ast.Call) and (call_name(st_.value) or "").endswith(".resolve")}
    filed = []

    def record_var(l):
        """the loop variable that ranges over the resolver's output: `for a in res` or `for a, x in zip(res, xs)`"""
        if isinstance(l.iter, ast.Name) and l.iter.id in res_names and isinstance(l.target, ast.Name):
            return l.target.id
        if isinstance(l.iter, ast.Call) and call_name(l.iter) in ("zip", "enumerate") and isinstance(l.target, ast.Tuple):
            for k_, a_ in enumerate(l.iter.args):
                if isinstance(a_, ast.Name) and a_.id in res_names:
                    pos_ = k_ + (1 if call_name(l.iter) == "enumerate" else 0)
                    if pos_ < len(l.target.elts) and isinstance(l.target.elts[pos_], ast.Name):
                        return l.target.elts[pos_].id
        return None
    for lp in [l for l in walk_no_nested(rm) if isinstance(l, ast.For) and record_var(l)]:
        rv_ = record_var(lp)
        for c in ast.walk(lp):
            if isinstance(c, ast.Call) and isinstance(c.func, ast.Attribute) and c.func.attr == "append" and [src(a) for a in c.args] == [rv_] \
                    and isinstance(c.func.value, ast.Subscript) and src(c.func.value.slice) == rv_ + ".chr_id":
                filed.append((lp, c))
    if len(filed) != 1:
        ctx.undecided("M2", rm, rm._qualname, "found %d loops filing the resolver's output per chromosome (helpers inlined), expected one" % len(filed))
    else:
        lp, c = filed[0]
        gs = [g for g in flow.guards_of(c, stop=lp)]
        # a test whose other outcome RAISES does not leave a record unwritten: the run stops there
        raising = [i_.test for i_ in ast.walk(lp) if isinstance(i_, ast.If) and i_.body and isinstance(i_.body[-1], ast.Raise)]
        gs = [g for g in gs if not (g.kind == "early-exit" and any(g.test is t_ for t_ in raising))]
        if gs:
            ctx.fail("M2", c, rm._qualname, src(c), "an alignment of a resolved read is written to its chromosome's verdict file only if %s: the "
                     "chromosome task that holds an unwritten (losing) alignment finds no verdict for it" % " and ".join(g.text() for g in gs))
        else:
            ctx.ok("M2", "%s:%d" % (DSP, c.lineno), "every alignment of a resolved read (kept or suspended) is written to its chromosome's verdict file")
        # ... and every chromosome it was filed under is written: the writing loop ranges over the keys of the filing table itself
        table = src(c.func.value.value)
        wcalls = [x for x in walk_no_nested(rm) if isinstance(x, ast.Call) and (call_name(x) or "") == "write_list" and x.args
                  and src(x.args[0]).startswith(table + "[")]
        wl = []
        for x in wcalls:
            encl = [l for l in flow.enclosing_loops(x) if isinstance(l, ast.For)]
            if encl and not any(encl[-1] is y for y in wl):
                wl.append(encl[-1])           # the loop the write stands in directly
        for l in wl:
            it = l.iter
            while isinstance(it, ast.Call) and (call_name(it) in ("sorted", "list") or (isinstance(it.func, ast.Attribute) and it.func.attr in ("keys", "items"))):
                it = it.args[0] if call_name(it) in ("sorted", "list") and it.args else it.func.value
            if src(it) == table:
                ctx.ok("M2", "%s:%d" % (DSP, l.lineno), "the verdicts are written for every chromosome of %s" % table)
            else:
                ctx.fail("M2", l, rm._qualname, "for %s in %s" % (src(l.target), src(l.iter)[:50]), "the verdicts of a resolved read are written for "
                         "the chromosomes in %s, not for every chromosome the read's alignments were filed under (%s): the loader re-applies "
                         "assignment_type, gene_assignment_type and multimapper from the verdict, so a chromosome that is left out keeps "
                         "stale values of those fields" % (src(l.iter)[:40], table))
    # who produces stage-2 assignment lists: NormalTmpFileAssignmentLoader only inside ReadAssignmentLoader
    users = []
    for m, q, f in prog.all_functions():
        for c in walk_no_nested(f):
            if isinstance(c, ast.Call) and call_name(c) == "NormalTmpFileAssignmentLoader":
                users.append(q)
    if users != ["ReadAssignmentLoader.__init__"]:
        ctx.fail("M2", g, "NormalTmpFileAssignmentLoader", str(users), "full assignments are loaded somewhere else than through "
                 "ReadAssignmentLoader (bypasses the suspended gate)")
    else:
        ctx.ok("M2", DSP, "NormalTmpFileAssignmentLoader constructed only by ReadAssignmentLoader")
    # losers get `suspended` in the gate field - filter_assignments
    fa = prog.func(MR, "MultimapResolver.filter_assignments")
    keep_if = [i for i in ast.walk(fa) if isinstance(i, ast.If) and " in assignments_to_keep" in src(i.test)]
    if len(keep_if) != 1 or not keep_if[0].orelse:
        raise AnalysisError("filter_assignments: keep/suspend branch not found")
    losers = {dotted(s.targets[0]).split(".")[-1] for s in keep_if[0].orelse if isinstance(s, ast.Assign)
              and src(s.value) == "ReadAssignmentType.suspended"}
    if gate_field not in losers:
        ctx.fail("M2", keep_if[0], fa._qualname, "else: %s" % sorted(losers), "losing alignments are not marked suspended in %s, the "
                 "field the loader tests" % gate_field)
    else:
        ctx.ok("M2", "%s:%d" % (MR, keep_if[0].lineno), "losers: %s = suspended (gate field %s)" % (sorted(losers), gate_field))
    if "gene_assignment_type" not in losers:
        ctx.fail("M2", keep_if[0], fa._qualname, "else: %s" % sorted(losers), "losers keep a live gene_assignment_type")
    # the loop covers every index of the list
    rng = [l for l in walk_no_nested(fa) if isinstance(l, ast.For) and keep_if[0] in l.body
           and flow.index_loop(l, "assignment_list") is not None and src(keep_if[0].test).startswith(flow.index_loop(l, "assignment_list") + " in ")]
    if not rng:
        ctx.fail("M2", fa, fa._qualname, "loop", "the suspend loop does not run over every alignment of the read")
    # ignore_multimapper strategy
    rs = prog.func(MR, "MultimapResolver.resolve")
    ig = [i for i in ast.walk(rs) if isinstance(i, ast.If) and "ignore_multimapper" in src(i.test)]
    if ig:
        marks = {dotted(s.targets[0]).split(".")[-1] for s in ast.walk(ig[0]) if isinstance(s, ast.Assign)
                 and src(s.value) == "ReadAssignmentType.suspended"}
        if gate_field not in marks:
            ctx.fail("M2", ig[0], rs._qualname, str(sorted(marks)), "ignore_multimapper does not suspend the gate field %s" % gate_field)
        else:
            ctx.ok("M2", "%s:%d" % (MR, ig[0].lineno), "ignore_multimapper suspends %s" % gate_field)
    # every list passed to filter_assignments comes through it for all resolution branches: all returns of select_* call it
    for q in ("MultimapResolver.select_best_inconsistent", "MultimapResolver.select_noninformative", "MultimapResolver.merge_assignments"):
        fn = prog.func(MR, q)
        rets = [r for r in walk_no_nested(fn) if isinstance(r, ast.Return)]
        bad = [r for r in rets if not (isinstance(r.value, ast.Call) and (call_name(r.value) or "").endswith("filter_assignments"))]
        if bad:
            ctx.fail("M2", bad[0], q, src(bad[0]), "a resolution path returns without passing through filter_assignments (losers stay live)")
        else:
            ctx.ok("M2", "%s:%d" % (MR, fn.lineno), "%s always ends in filter_assignments" % q.split(".")[-1])
    ctx.floor("M2", "loader paths", n, 4)


STATE_CALLS = {"add_edge", "add", "append", "update"}


def m3(prog, ctx):
    n = 0
    targets = []
    for rel in ("src/intron_graph.py", "src/graph_based_model_construction.py"):
        m = prog.module(rel)
        for q, f in sorted(m.functions.items()):
            cls = q.split(".")[0]
            if rel.endswith("graph_based_model_construction.py") and cls not in ("IntronPathStorage", "IntronPathProcessor"):
                continue
            for l in walk_no_nested(f):
                if isinstance(l, ast.For) and re.search(r"read_assignments?\b", src(l.iter)) and isinstance(l.target, ast.Name):
                    targets.append((m, q, f, l))
    for m, q, f, l in targets:
        var = l.target.id
        writes = []
        for node in ast.walk(l):
            st = None
            if isinstance(node, (ast.Assign, ast.AugAssign)):
                tg = node.targets[0] if isinstance(node, ast.Assign) else node.target
                if isinstance(tg, ast.Subscript) or (isinstance(tg, ast.Attribute) and src(tg).startswith("self.")):
                    st = node
            elif isinstance(node, ast.Expr) and isinstance(node.value, ast.Call) and isinstance(node.value.func, ast.Attribute) \
                    and node.value.func.attr in STATE_CALLS:
                recv = src(node.value.func.value)
                # writes to containers that outlive the iteration (self.*, or locals defined outside the loop)
                local_in_loop = any(isinstance(s, ast.Assign) and src(s.targets[0]) == recv.split("[")[0].split(".")[0]
                                    for s in ast.walk(l))
                if not local_in_loop:
                    st = node
            if st is not None:
                writes.append(st)
        if not writes:
            continue
        n += 1
        bad = None
        for w in writes:
            facts = flow.guard_facts(w, stop=f)
            if not any((src(t) == "%s.multimapper" % var and not p) for t, p in facts):
                bad = w
                break
        if bad is not None:
            ctx.fail("M3", bad, q, src(bad),
                     "graph / path state is written from a read assignment without first excluding multimappers "
                     "(`if %s.multimapper: continue`): a suppressed or ambiguous multi-mapped alignment becomes construction evidence"
                     % var)
        else:
            ctx.ok("M3", "%s:%d" % (m.rel, l.lineno), "%s: all %d state writes in the loop over %s are behind `not %s.multimapper`"
                   % (q, len(writes), src(l.iter), var))
    ctx.floor("M3", "evidence loops over read assignments", n, 4)
    ctx.assume("construct_assignment_based_isoforms / assign_reads_to_models count surviving multimappers for known isoforms by "
               "design (documented exception: they passed resolution); only graph evidence loops are checked")


def m4(prog, ctx, tag="M4"):
    init = prog.func_inlined(ISO, "BasicReadAssignment.__init__")
    des = prog.func_inlined(ISO, "BasicReadAssignment.deserialize")
    abr = prog.func_inlined(ISO, "BasicReadAssignment.deserialize_from_read_assignment")

    def attrs(f, obj):
        out = set()
        for n in walk_no_nested(f):
            if isinstance(n, (ast.Assign, ast.AugAssign)):
                for t0 in (n.targets if isinstance(n, ast.Assign) else [n.target]):
                    for t in (t0.elts if isinstance(t0, (ast.Tuple, ast.List)) else [t0]):
                        if isinstance(t, ast.Attribute) and isinstance(t.value, ast.Name) and t.value.id == obj:
                            out.add(t.attr)
        return out
    def built_obj(f):
        """the local a classmethod builds and returns: assigned from cls.__new__(cls) / cls(...)"""
        for st_ in walk_no_nested(f):
            if isinstance(st_, ast.Assign) and isinstance(st_.targets[0], ast.Name) and isinstance(st_.value, ast.Call) \
                    and (call_name(st_.value) or "") in ("cls.__new__", "cls", "BasicReadAssignment.__new__", "object.__new__"):
                return st_.targets[0].id
        raise AnalysisError("%s: the object under construction was not identified" % f._qualname)
    O_des, O_abr = built_obj(des), built_obj(abr)
    a_init, a_des, a_abr = attrs(init, "self"), attrs(des, O_des), attrs(abr, O_abr)
    for name, a, f in (("deserialize", a_des, des), ("deserialize_from_read_assignment", a_abr, abr)):
        if a != a_init:
            ctx.fail(tag, f, f._qualname, "fields %s" % sorted(a ^ a_init),
                     "the compact record built by %s lacks / adds fields %s compared with BasicReadAssignment.__init__ "
                     "(high-memory and default paths then resolve multimappers on different data)" % (name, sorted(a ^ a_init)))
        else:
            ctx.ok(tag, "%s:%d" % (ISO, f.lineno), "%s defines the same %d fields as __init__" % (name, len(a)))
    # derived fields computed identically: start/end from the *original* exons, genes/isoforms/penalty loops
    wc = wire.WireCtx(prog)
    wops = wire.writer_ops(wc, prog.func(ISO, "ReadAssignment.serialize"))
    rops = wire.reader_ops(wc, abr)
    # the temp `exons` must be the wire position of ReadAssignment.exons
    exon_pos = None
    # the local that start/end are taken from in the abridged reader
    ex_local = None
    for st in walk_no_nested(abr):
        if isinstance(st, ast.Assign) and src(st.targets[0]) == O_abr + ".start":
            mm = re.match(r"^(\w+)\[0\]\[0\]$", src(st.value))
            ex_local = mm.group(1) if mm else None
    for st in walk_no_nested(abr):
        if isinstance(st, ast.Assign) and ex_local and src(st.targets[0]) == ex_local:
            for i, (_o, _f, node) in enumerate(rops):
                if node is st.value:
                    exon_pos = i
    if exon_pos is None or exon_pos >= len(wops) or wops[exon_pos][1] != "exons":
        ctx.fail(tag, abr, abr._qualname, "exons", "start/end of the compact record are not taken from the serialised `exons` list "
                 "(position %s holds %s)" % (exon_pos, wops[exon_pos][1] if exon_pos is not None and exon_pos < len(wops) else None))
    else:
        ctx.ok(tag, "%s:%d" % (ISO, abr.lineno), "abridged reader takes start/end from wire position #%d = exons" % exon_pos)
    P_init = init.args.args[1].arg if len(init.args.args) > 1 else "read_assignment"
    want = {"start": ("%s.exons[0][0]" % P_init, "%s[0][0]" % ex_local), "end": ("%s.exons[-1][1]" % P_init, "%s[-1][1]" % ex_local)}
    for fld, (wi, wa) in want.items():
        vi = [src(s.value) for s in walk_no_nested(init) if isinstance(s, ast.Assign) and src(s.targets[0]) == "self." + fld
              and not isinstance(s.value, ast.Constant)]
        va = [src(s.value) for s in walk_no_nested(abr) if isinstance(s, ast.Assign) and src(s.targets[0]) == O_abr + "." + fld]
        if vi != [wi] or va != [wa]:
            ctx.fail(tag, abr, abr._qualname, "%s: %s / %s" % (fld, vi, va), "%s is derived differently by the two constructors" % fld)
        else:
            ctx.ok(tag, "%s:%d" % (ISO, abr.lineno), "%s derived from first/last original exon in both constructors" % fld)

    def summary_block(f, obj):
        """Alpha-normalised text of the code that derives penalty / genes / isoforms from the match list: local names by order of
        appearance, the record object as R, the iterated match list as MATCHES."""
        loops = [l for l in walk_no_nested(f) if isinstance(l, ast.For) and any(isinstance(x, ast.Attribute) and x.attr == "assigned_gene"
                                                                               for x in ast.walk(l))]
        if len(loops) != 1:
            return None
        lp = loops[0]
        blk = lp._parent.body if lp in getattr(lp._parent, "body", []) else getattr(lp._parent, "orelse", [])
        i = blk.index(lp)
        tail = [st for st in blk[i + 1:] if isinstance(st, ast.Assign)]
        stmts = [lp] + tail[:3]
        locals_ = {x.id for x in ast.walk(f) if isinstance(x, ast.Name) and isinstance(x.ctx, ast.Store)}
        matches = src(lp.iter)
        order = {}

        class N(ast.NodeTransformer):
            def visit_Name(self, n):
                if n.id == obj:
                    return ast.copy_location(ast.Name(id="R", ctx=n.ctx), n)
                if n.id in locals_:
                    order.setdefault(n.id, "v%d" % len(order))
                    return ast.copy_location(ast.Name(id=order[n.id], ctx=n.ctx), n)
                return n
        from ..engine.symexec import clone
        out = []
        for st in stmts:
            t = src(clone(st)).replace(matches, "MATCHES")
            out.append(src(N().visit(ast.parse(t).body[0])))
        # a tuple assignment `a, b, c = x, y, z` reads like three single ones
        text = "\n".join(out)
        return text
    li = summary_block(init, "self")
    la = summary_block(abr, O_abr)

    def same_shared_helper():
        """both constructors obtain the three fields from one and the same helper of the class (then they cannot differ)"""
        fo, fa_ = prog.func(ISO, "BasicReadAssignment.__init__"), prog.func(ISO, "BasicReadAssignment.deserialize_from_read_assignment")
        def helpers(f):
            return {c.func.attr for c in walk_no_nested(f) if isinstance(c, ast.Call) and isinstance(c.func, ast.Attribute)
                    and c.func.attr in prog.methods_of(prog.cls(ISO, "BasicReadAssignment"), inherited=False)
                    and any(isinstance(x, ast.Attribute) and x.attr == "assigned_gene"
                            for x in ast.walk(prog.methods_of(prog.cls(ISO, "BasicReadAssignment"), inherited=False)[c.func.attr]))}
        return bool(helpers(fo) & helpers(fa_))
    if same_shared_helper():
        ctx.ok(tag, "%s:%d" % (ISO, abr.lineno), "genes / isoforms / penalty come from one shared helper in both constructors")
    elif li is None or la is None or li != la:
        ctx.fail(tag, abr, abr._qualname, "gene/isoform/penalty loop", "genes / isoforms / penalty are accumulated differently by the two constructors")
    else:
        ctx.ok(tag, "%s:%d" % (ISO, abr.lineno), "genes / isoforms / penalty accumulated by identical code (up to renaming of locals)")


def m6(prog, ctx):
    """The resolver reads `not a.multimapper` as "this record is the primary alignment": at collection time the field must be exactly the
    secondary flag of the record's own alignment."""
    AP = "src/alignment_processor.py"
    cls = prog.cls(AP, "AlignmentCollector")
    n = 0
    seen_lines = set()
    for name, f in sorted(prog.methods_of(cls, inherited=False).items()):
        fi = prog.func_inlined(AP, f._qualname)
        for st in walk_no_nested(fi):
            if not (isinstance(st, ast.Assign) and any(isinstance(t, ast.Attribute) and t.attr == "multimapper" for t in st.targets)):
                continue
            if getattr(st, "lineno", None) in seen_lines:
                continue                         # the same statement reached again through an inlined caller
            seen_lines.add(getattr(st, "lineno", None))
            n += 1
            v = st.value
            if isinstance(v, ast.Name):
                defs = [a.value for a in walk_no_nested(fi) if isinstance(a, ast.Assign) and len(a.targets) == 1 and src(a.targets[0]) == v.id]
                if len(defs) == 1:
                    v = defs[0]
            ok = isinstance(v, ast.Attribute) and v.attr == "is_secondary" and isinstance(v.value, ast.Name)
            if ok:
                # the alignment is the one of the enclosing loop (the record being built)
                loops = [l for l in flow.enclosing_loops(st) if isinstance(l, ast.For)]
                ok = any(v.value.id in {x.id for x in ast.walk(l.target) if isinstance(x, ast.Name)} for l in loops)
            if ok:
                ctx.ok("M6", "%s:%d" % (AP, st.lineno), "%s: multimapper = %s (secondary flag of the loop's own alignment)" % (f._qualname, src(v)))
            else:
                ctx.fail("M6", st, f._qualname, src(st)[:90], "ReadAssignment.multimapper is set to %s instead of the secondary flag of the record's own "
                         "alignment: the resolver treats `not multimapper` as \"primary alignment\", so a primary record that is flagged loses its "
                         "precedence and ties with its secondary alignments" % src(st.value)[:60])
    ctx.floor("M6", "collection sites setting ReadAssignment.multimapper", n, 2)


def m7(prog, ctx):
    """Every record of a read that has more than one record is handed to the resolver: only `None` placeholders and reads with a single
    record are left out."""
    f = prog.func_inlined(DSP, "DatasetProcessor.prepare_multimapper_dict")
    appends = [c for c in walk_no_nested(f) if isinstance(c, ast.Call) and isinstance(c.func, ast.Attribute) and c.func.attr == "append"
               and isinstance(c.func.value, ast.Subscript) and src(c.func.value.slice).endswith(".read_id") and len(c.args) == 1]
    if len(appends) != 1:
        ctx.undecided("M7", f, f._qualname, "found %d statements filing a record under its read id, expected one" % len(appends))
        return
    ap = appends[0]
    rec = src(ap.args[0])
    st = ap
    while not isinstance(st, ast.stmt):
        st = st._parent
    bad = None
    for t, pol in flow.guard_facts(st, stop=f):
        tt = src(t)
        ok = False
        if isinstance(t, ast.Compare) and len(t.ops) == 1 and isinstance(t.comparators[0], ast.Constant) and t.comparators[0].value is None \
                and src(t.left) == rec:
            ok = True                                            # placeholder record
        elif "has_next" in tt or tt.startswith("loader") or isinstance(t, ast.Call) and "has_next" in tt:
            ok = True
        elif re.search(r"== 1\b", tt) and "count" in tt.lower() and rec + ".read_id" in tt:
            ok = True                                            # the read has one record only
        elif isinstance(t, ast.Compare) and isinstance(t.ops[0], (ast.In, ast.NotIn)) and rec + ".read_id" in tt and "count" in tt.lower():
            ok = True
        elif isinstance(t, ast.BoolOp) and all(("count" in src(v).lower() and rec + ".read_id" in src(v)) for v in t.values):
            ok = True
        if not ok:
            bad = bad or (t, pol)
    if bad:
        ctx.fail("M7", ap, f._qualname, src(ap), "a record is handed to the multimapper resolver only if %s%s: a losing alignment that is left out "
                 "never gets its 'suspended' verdict, so the read is reported for the winning locus and for this alignment as well"
                 % ("" if bad[1] else "not ", src(bad[0])[:70]))
    else:
        ctx.ok("M7", "%s:%d" % (DSP, ap.lineno), "every record of a read with several records reaches the resolver (skipped: None, single-record reads)")


def m8(prog, ctx, tag="M8"):
    """A read is a multimapper when it has more than one RECORD: collect_reads counts the records of a read by iterating what each chromosome
    task returns, so that container keeps one element per saved record - a list that is only appended to - in both memory modes and on
    the normal and the --resume path.  A set (or a dict keyed by read id) would make two records of one read on one chromosome count once."""
    from ..engine.setorder import Census
    f = prog.func(DSP, "collect_reads_in_parallel")
    census = Census(prog)
    rets = [r for r in walk_no_nested(f) if isinstance(r, ast.Return) and isinstance(r.value, ast.Tuple) and len(r.value.elts) == 3]
    if not rets:
        ctx.undecided(tag, f, f.name, "no return of a (groups, statistics, records) triple found")
        return
    n = 0
    for r in rets:
        e = r.value.elts[2]
        n += 1
        if census.is_set_expr(e, f) or census.is_dictset_expr(e, f):
            ctx.fail(tag, r, f.name, "records container %s is a set" % src(e), "the per-chromosome container of processed records (%s) is a set: "
                     "a read with two records on this chromosome (secondary alignment, alignment bridging two sub-regions) is counted once, "
                     "treated as uniquely placed and never reaches the multimapper resolver - every record of it is kept" % src(e))
            continue
        if not isinstance(e, ast.Name):
            ctx.undecided(tag, r, f.name, "third element of the result (%s) is not a plain local" % src(e)[:40])
            continue
        defs = [st.value for st in ast.walk(f) if isinstance(st, ast.Assign) and any(src(t) == e.id for t in st.targets)]
        bad = [d for d in defs if not (isinstance(d, ast.List) and not d.elts)]
        muts = [c for c in ast.walk(f) if isinstance(c, ast.Call) and isinstance(c.func, ast.Attribute) and src(c.func.value) == e.id]
        badm = [c for c in muts if c.func.attr != "append"]
        if bad or badm:
            x = (bad or badm)[0]
            ctx.fail(tag, x if hasattr(x, "lineno") else r, f.name, "records container: %s" % src(x)[:70],
                     "the per-chromosome container of processed records (%s) is not a list that is only appended to (%s): the number of "
                     "records per read, which decides whether a read goes to the multimapper resolver, is no longer preserved"
                     % (e.id, src(x)[:50]))
        elif not muts:
            ctx.undecided(tag, r, f.name, "no append into %s found (filled in a helper?)" % e.id)
        else:
            ctx.ok(tag, "%s:%d" % (DSP, r.lineno), "%s is a list, filled by %d append sites only" % (e.id, len(muts)))
    ctx.floor(tag, "returns of collect_reads_in_parallel", n, 2)


def m9(prog, ctx):
    """MultimapResolver.resolve hands a list of two or more records back UNCHANGED only after it has suspended every one of them (strategy
    ignore_multimapper); every other way out goes through a strategy routine.  An extra early `return assignment_list` lets all
    records of a multi-record read through: each is then reported and counted."""
    f = prog.func(MR, "MultimapResolver.resolve")
    params = [a.arg for a in f.args.args if a.arg != "self"]
    if not params:
        ctx.undecided("M9", f, f._qualname, "resolve() takes no list parameter")
        return
    lst = params[0]
    n = 0
    seen = set()
    for pth in flow.paths(f):
        if pth.exit != "return" or pth.exit_node is None or pth.exit_node.value is None:
            continue
        if src(pth.exit_node.value) != lst:
            continue
        n += 1
        trivial = any(pol and re.search(r"len\(%s\)\s*(<=\s*1|<\s*2|==\s*[01])|%s is None|^not %s$" % (lst, lst, lst), src(t))
                      for c, p_ in pth.conds() for t, pol in ((c, p_),) if p_)
        suspended = any(isinstance(s_, ast.For) and src(s_.iter) == lst and any(
            isinstance(a, ast.Assign) and src(a.value).endswith(".suspended") for a in ast.walk(s_)) for s_ in pth.stmts())
        if trivial or suspended:
            ctx.ok("M9", "%s:%d" % (MR, pth.exit_node.lineno), "input list returned %s" % ("for 0/1 records" if trivial else "after suspending every record"))
        elif pth.exit_node.lineno not in seen:
            seen.add(pth.exit_node.lineno)
            ctx.fail("M9", pth.exit_node, f._qualname, "unresolved return under: %s" % "; ".join(
                ("" if p_ else "not ") + src(c)[:50] for c, p_ in pth.conds())[:120],
                "resolve() returns the list of a read's records unchanged on the path [%s]: neither is there at most one record nor "
                "were the records suspended or passed to a strategy routine - all of them stay in the output" % pth.describe()[:140])
    ctx.floor("M9", "paths of resolve() that return the input list", n, 2)


def run(prog, ctx):
    ctx.rule("M9", "every path of MultimapResolver.resolve that returns its input list itself is taken for at most one record (None / len <= 1) or "
                   "after a loop that suspends every record; all other exits are results of strategy routines")
    m9(prog, ctx)
    ctx.rule("M8", "the third element returned by collect_reads_in_parallel (one entry per saved record; collect_reads counts a read's records "
                   "by iterating it) is a local list that is only appended to - never a set / dict")
    m8(prog, ctx)
    ctx.rule("M1", "each index list of select_best_assignment gets its priority class from the predicates guarding its append; the "
                   "sequence of `if L: return` is strictly increasing in primary-unique-consistent < consistent < primary-"
                   "inconsistent < inconsistent < noninformative and passes its own list")
    ctx.rule("M2", "the loader's gate field is derived from ReadAssignmentLoader.get_next (path enumeration: a multimapper is "
                   "forwarded only if resolved and not suspended, matched on assignment_id+chr_id); every resolution branch marks "
                   "losers suspended in that field; only the loader constructs the full-record reader")
    ctx.rule("M3", "in every loop over read assignments in intron_graph / IntronPathStorage that writes outliving state, each write "
                   "is dominated by `not <read>.multimapper`")
    ctx.rule("M4", "BasicReadAssignment.__init__, deserialize and deserialize_from_read_assignment assign the same attribute set; "
                   "start/end come from the original exons (wire position checked); genes/isoforms/penalty loops are identical")
    ctx.rule("M7", "guard vocabulary of prepare_multimapper_dict: the statement that files a record under its read id is controlled only by "
                   "`record is None`, loader iteration and `the read has exactly one record` tests")
    m7(prog, ctx)
    ctx.rule("M6", "in AlignmentCollector (helpers inlined) every assignment to <record>.multimapper is <alignment>.is_secondary with "
                   "<alignment> bound by an enclosing loop of the record")
    m6(prog, ctx)
    m1(prog, ctx)
    m2(prog, ctx)
    m3(prog, ctx)
    m4(prog, ctx)
    ctx.rule("M5", "the compact records the resolver works on cross the process boundary pickled (--high_memory, threads > 1): "
                   "__setstate__ restores every state position into the field __getstate__ took it from (genes / isoforms decide "
                   "which ties are flagged ambiguous); same analysis as C15/Z1 pickle state")
    from . import c15
    n5 = c15.z1_pickle_state(prog, ctx, tag="M5")
    ctx.floor("M5", "pickle state positions", n5, 10)
    ctx.assume("order-independence of tie-breaking and 'counted once' across loci are runtime histories and not decided")
