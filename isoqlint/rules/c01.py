"""C01 - reads following an isoform get consistent assignments (structural part).

E1 every emitted event is classified in exactly one of consistent / minor / major
E2 every emitted event is priced in event_subtype_cost
E3 documented structural changes are major (never consistent / minor), documented artifacts are minor
E4 the decision tree returns a ReadAssignment on every path (None only where re-dispatched)
"""
import ast
import re

from ..engine.program import AnalysisError, dotted, src, walk_no_nested, enclosing_function, call_name
from ..engine.enumtables import EventTables, member_uses, ISO
from ..engine import flow

EMITTERS = ["src/junction_comparator.py", "src/long_read_assigner.py", "src/polya_verification.py"]
LRA = "src/long_read_assigner.py"

# docs/formats.md taxonomy ("assignment_events"): which documented category each event family belongs to.
# regex on member name -> class the documentation promises.
DOC_TAXONOMY = [
    (r"^(none|mono_exon_match|fsm|ism_(left|right|internal)|mono_exonic|terminal_site_match_(left|right)(_precise)?|"
     r"correct_polya_site_(left|right))$", "consistent",
     "docs/formats.md 'consistent events' (+ correct_polya_site: matches reference end)"),
    (r"^(intron_shift|exon_misalignment|fake_terminal_exon_(left|right)|terminal_exon_misalignment_(left|right)|"
     r"exon_elongation_(left|right)|fake_micro_intron_retention)$", "minor",
     "docs/formats.md 'alignment artifacts'"),
    (r"^(intron_retention|unspliced_intron_retention|incomplete_intron_retention_(left|right))$", "major",
     "docs/formats.md 'intron retentions'"),
    (r"^(major_exon_elongation_(left|right)|extra_intron_flanking_(left|right)|extra_intron_(known|novel)|"
     r"alt_(left|right)_site_(known|novel)|intron_migration|intron_alternation_(known|novel)|"
     r"mutually_exclusive_exons_(known|novel)|exon_skipping_(known|novel)|exon_merge_(known|novel)|"
     r"exon_gain_(known|novel)|exon_detach_(known|novel)|terminal_exon_shift_(known|novel)|"
     r"alternative_structure_(known|novel))$", "major", "docs/formats.md 'significant inconsistencies'"),
    (r"^(alternative_polya_site_(left|right)|internal_polya_(left|right)|alternative_tss_(left|right))$", "major",
     "docs/formats.md 'alternative transcription start / end'"),
    (r".*_(known|novel)$", "major", "naming rule of docs/formats.md: _known/_novel suffix marks significant inconsistencies"),
]

# events attached to a match after classify_assignment ran (never seen by it)
ATTACHED_LATER = {"antisense": "added by alignment_processor after assignment", "aligned_polya_tail": "added after assignment"}


def classes(t):
    return {"consistent": t.pred("is_consistent"), "minor": t.pred("is_minor_error"),
            "major": t.pred("is_major_inconsistency")}


def emitted(prog, t):
    out = {}
    for rel in EMITTERS:
        for node, mem, role in member_uses(prog, t, rel):
            if role == "value":
                out.setdefault(mem, []).append(node)
    # values of the alternative_sites table are emitted through alternative_sites[...]
    alt = prog.module(ISO).assigns.get("alternative_sites")
    if isinstance(alt, ast.Dict):
        used = any("alternative_sites" in src(n) for rel in EMITTERS
                   for n in ast.walk(prog.module(rel).tree) if isinstance(n, ast.Subscript))
        if used:
            for v in alt.values:
                mem = t.member_of(v)
                if mem:
                    out.setdefault(mem, []).append(v)
    return out


def e1_e2_e3(prog, ctx, t):
    cls = classes(t)
    em = emitted(prog, t)
    for mem in sorted(em):
        node = em[mem][0]
        fn = enclosing_function(node)
        fq = getattr(fn, "_qualname", "<module>")
        if mem in ATTACHED_LATER and all(n._module.rel not in EMITTERS for n in em[mem]):
            continue
        inn = [c for c in ("consistent", "minor", "major") if mem in cls[c]]
        if len(inn) == 0:
            ctx.fail("E1", node, fq, "MatchEventSubtype." + mem,
                     "event %s can be emitted here but is in none of is_consistent / is_minor_error / all_major_events: "
                     "classify_assignment falls to 'Unexpected event' and reports noninformative" % mem)
        elif len(inn) > 1 and not (set(inn) == {"minor", "major"}):
            ctx.fail("E1", node, fq, "MatchEventSubtype." + mem,
                     "event %s is classified as %s at once; the verdict then depends on the order of tests in classify_assignment"
                     % (mem, " and ".join(inn)))
        elif len(inn) > 1:
            ctx.fail("E1", node, fq, "MatchEventSubtype." + mem, "event %s is both minor and major" % mem)
        else:
            ctx.ok("E1", "%s:%d" % (node._module.rel, node.lineno), "%s emitted, classified %s" % (mem, inn[0]))
        if mem not in t.cost:
            ctx.fail("E2", node, fq, "MatchEventSubtype." + mem,
                     "event %s can be emitted but has no entry in event_subtype_cost (KeyError in select_best_among_inconsistent)" % mem)
        else:
            ctx.ok("E2", "%s:%d" % (node._module.rel, node.lineno), "%s priced %s" % (mem, t.cost[mem]))
        # E3: documented class
        want = None
        for rx, c, why in DOC_TAXONOMY:
            if re.match(rx, mem):
                want, reason = c, why
                break
        if want is None:
            ctx.fail("E3", node, fq, "MatchEventSubtype." + mem,
                     "emitted event %s matches no documented event family (docs/formats.md taxonomy table of the checker)" % mem)
        elif inn and want not in inn:
            ctx.fail("E3", node, fq, "MatchEventSubtype." + mem,
                     "event %s is documented as %s (%s) but the code classifies it as %s" % (mem, want, reason, "/".join(inn)))
        elif inn:
            ctx.ok("E3", "%s:%d" % (node._module.rel, node.lineno), "%s: documented %s == coded" % (mem, want))
    # derived sets: partition facts used by classify_assignment
    nic, nnic = t.named_set("nic_event_types"), t.named_set("nnic_event_types")
    major = t.named_set("all_major_events")
    if major != nic | nnic:
        ctx.fail("E1", prog.module(ISO).assigns["all_major_events"], "<module>", "all_major_events",
                 "all_major_events is not nic_event_types U nnic_event_types")
    else:
        ctx.ok("E1", ISO, "all_major_events == nic U nnic (%d members)" % len(major))
    if nic & nnic:
        ctx.fail("E1", prog.module(ISO).assigns["nic_event_types"], "<module>", "nic_event_types & nnic_event_types",
                 "events %s are both nic and nnic" % sorted(nic & nnic))
    else:
        ctx.ok("E1", ISO, "nic and nnic event types disjoint")
    intronic = t.named_set("intronic_major_events")
    nonintr = t.named_set("nonintronic_events")
    if intronic != major - nonintr:
        ctx.fail("E1", prog.module(ISO).assigns["intronic_major_events"], "<module>", "intronic_major_events",
                 "intronic_major_events is not all_major_events minus nonintronic_events")
    else:
        ctx.ok("E1", ISO, "intronic_major_events == major - nonintronic (%d members)" % len(intronic))
    if cls["consistent"] & cls["major"] or cls["consistent"] & cls["minor"]:
        bad = sorted((cls["consistent"] & cls["major"]) | (cls["consistent"] & cls["minor"]))
        ctx.fail("E1", prog.cls(ISO, "MatchEventSubtype"), "MatchEventSubtype.is_consistent", "is_consistent",
                 "events %s are consistent and also minor/major" % bad)
    else:
        ctx.ok("E1", ISO, "consistent set disjoint from minor and major sets")
    # the decision order of classify_assignment, read off its paths: all-consistent, then any-major, then any-minor, else unexpected
    f = prog.func(LRA, "LongReadAssigner.classify_assignment")
    from ..engine import symexec
    PRED = [("all", "is_consistent", "consistent"), ("any", "is_major_inconsistency", "major"), ("any", "is_minor_error", "minor")]
    WANT = {"consistent": {"unique", "ambiguous"}, "major": {"inconsistent", "inconsistent_non_intronic", "inconsistent_ambiguous"},
            "minor": {"unique_minor_difference", "ambiguous"}, None: {"noninformative"}}

    def pred_of(test):
        t = test
        if isinstance(t, ast.Call) and dotted(t.func) in ("all", "any") and t.args:
            for q, pn, tag in PRED:
                if dotted(t.func) == q and ("MatchEventSubtype.%s(" % pn) in src(t.args[0]):
                    return tag
        return None
    bad_order = None
    n_paths = 0
    for p in flow.paths(f):
        if p.exit != "return" or p.exit_node is None or getattr(p.exit_node, "value", None) is None:
            continue
        seq = [(pred_of(t), pol) for t, pol in p.conds() if pred_of(t)]
        n_paths += 1
        tags = [x[0] for x in seq]
        # prefix of consistent, major, minor; all but the last answered False
        if tags != ["consistent", "major", "minor"][:len(tags)] or any(pol for _t, pol in seq[:-1]):
            bad_order = bad_order or (p, "tests %s" % seq)
            continue
        decided = seq[-1][0] if seq and seq[-1][1] else None
        if seq and not seq[-1][1] and len(seq) < 3:
            bad_order = bad_order or (p, "returns after only %s answered False" % tags)
            continue
        env = symexec.run_path(p)
        val = symexec.subst(p.exit_node.value, env)
        got = {x.attr for x in ast.walk(val) if isinstance(x, ast.Attribute) and dotted(x.value) == "ReadAssignmentType"}
        if not got or not got <= WANT[decided]:
            bad_order = bad_order or (p, "verdict %s when the deciding test is %s" % (sorted(got), decided))
    if bad_order or n_paths < 4:
        p, why = bad_order if bad_order else (None, "only %d returning paths" % n_paths)
        ctx.fail("E1", p.exit_node if p else f, f._qualname, "decision order", "classify_assignment must decide all-consistent, then any-major, "
                 "then any-minor, then 'unexpected', with the verdicts of each class (%s)" % why, path=p.describe() if p else None)
    else:
        ctx.ok("E1", "%s:%d" % (LRA, f.lineno), "classify_assignment (%d paths): all(consistent) -> any(major) -> any(minor) -> unexpected, "
               "each with its own verdicts" % n_paths)
    return em


# ---------------------------------------------------------------------------
# E4
# ---------------------------------------------------------------------------

TREE = ["assign_to_isoform", "match_consistent", "match_consistent_spliced", "match_consistent_unspliced",
        "match_inconsistent"]
MAY_RETURN_NONE = {"match_consistent", "match_consistent_spliced", "match_consistent_unspliced"}


def _kinds_of_expr(e, env, summaries):
    if isinstance(e, ast.Constant) and e.value is None:
        return {"None"}
    if e is None:
        return {"None"}
    if isinstance(e, ast.Call):
        d = dotted(e.func)
        if d == "ReadAssignment":
            return {"RA"}
        if d and d.startswith("self.") and d[5:] in summaries:
            return set(summaries[d[5:]])
        return {"unknown:" + (d or src(e.func))}
    if isinstance(e, ast.Name):
        return set(env.get(e.id, {"unknown:" + e.id}))
    if isinstance(e, ast.IfExp):
        return _kinds_of_expr(e.body, env, summaries) | _kinds_of_expr(e.orelse, env, summaries)
    return {"unknown:" + src(e)}


def _is_none_test(test):
    """(name, is_none_polarity) for  `x is None` / `x is not None` / `not x` / `x`."""
    if isinstance(test, ast.Compare) and len(test.ops) == 1 and isinstance(test.left, ast.Name) \
            and isinstance(test.comparators[0], ast.Constant) and test.comparators[0].value is None:
        if isinstance(test.ops[0], ast.Is):
            return test.left.id, True
        if isinstance(test.ops[0], ast.IsNot):
            return test.left.id, False
    return None


def summarise(func, summaries):
    out = set()
    bad_paths = []
    for p in flow.paths(func):
        env = {}
        feasible = True
        for ev in p.events:
            if ev[0] == "stmt":
                st = ev[1]
                if isinstance(st, ast.Assign) and len(st.targets) == 1 and isinstance(st.targets[0], ast.Name):
                    env[st.targets[0].id] = _kinds_of_expr(st.value, env, summaries)
            elif ev[0] == "cond":
                nt = _is_none_test(ev[1])
                if nt:
                    name, isnone = nt
                    truth = isnone == ev[2]
                    cur = env.get(name)
                    if cur is not None:
                        if truth:
                            if "None" not in cur and not any(k.startswith("unknown") for k in cur):
                                feasible = False
                                break
                            env[name] = {"None"}
                        else:
                            cur = set(cur) - {"None"}
                            if not cur:
                                feasible = False
                                break
                            env[name] = cur
        if not feasible:
            continue
        if p.exit == "return":
            val = p.exit_node.value if isinstance(p.exit_node, ast.Return) else None
            k = _kinds_of_expr(val, env, summaries)
            out |= k
            if k - {"RA"}:
                bad_paths.append((p, k))
    return out, bad_paths


def e4(prog, ctx):
    # every method of the class is summarised (helpers extracted from the dispatcher included); obligations are on the TREE entries
    allm = prog.methods_of(prog.cls(LRA, "LongReadAssigner"), inherited=False)
    missing = [n for n in TREE if n not in allm]
    if missing:
        raise AnalysisError("LongReadAssigner: dispatcher functions %s not found" % missing)
    funcs = dict(allm)
    summaries = {n: {"RA"} for n in funcs}
    bad = {}
    for _ in range(6):
        changed = False
        for n, f in funcs.items():
            k, bp = summarise(f, summaries)
            bad[n] = bp
            if k != summaries[n]:
                summaries[n] = k
                changed = True
        if not changed:
            break
    npaths = 0
    for n, f in funcs.items():
        if n not in TREE:
            continue
        allowed = {"RA", "None"} if n in MAY_RETURN_NONE else {"RA"}
        viol = [(p, k) for p, k in bad[n] if k - allowed]
        npaths += len(flow.paths(f))
        if viol:
            p, k = viol[0]
            ctx.fail("E4", p.exit_node if p.exit_node is not None else f, f._qualname,
                     src(p.exit_node) if p.exit_node is not None else "fall off end",
                     "%s can return %s on some path; every read must end with a ReadAssignment%s"
                     % (n, sorted(k - allowed), "" if n not in MAY_RETURN_NONE else " or the re-dispatched None"),
                     path=p.describe())
        else:
            ctx.ok("E4", "%s:%d" % (LRA, f.lineno), "%s returns only %s on all %d paths"
                   % (n, sorted(summaries[n]), len(flow.paths(f))))
    ctx.extra["e4_paths"] = npaths
    return npaths


TOLERANCE_MODULES = ["src/junction_comparator.py", "src/long_read_assigner.py", "src/polya_verification.py"]


def _like_terms(a, b):
    """Both operands apply the same function / take the same component of two different objects."""
    if isinstance(a, ast.Call) and isinstance(b, ast.Call) and dotted(a.func) and dotted(a.func) == dotted(b.func) \
            and len(a.args) == len(b.args) >= 1 and src(a) != src(b):
        return True
    if isinstance(a, ast.Subscript) and isinstance(b, ast.Subscript) and src(a.slice) == src(b.slice) and src(a.value) != src(b.value) \
            and isinstance(a.slice, ast.Constant):
        return True
    return False


def e5(prog, ctx):
    """Symmetric tolerance tests: a difference of two like quantities compared with a tolerance must be an absolute difference."""
    n_abs = 0
    for rel in TOLERANCE_MODULES:
        m = prog.module(rel)
        for node in ast.walk(m.tree):
            if not (isinstance(node, ast.Compare) and len(node.ops) == 1 and isinstance(node.ops[0], (ast.Lt, ast.LtE))):
                continue
            rhs = src(node.comparators[0])
            if "self.params." not in rhs:
                continue
            l = node.left
            if isinstance(l, ast.Call) and dotted(l.func) == "abs" and l.args and isinstance(l.args[0], ast.BinOp) \
                    and isinstance(l.args[0].op, ast.Sub) and _like_terms(l.args[0].left, l.args[0].right):
                n_abs += 1
                ctx.ok("E5", "%s:%d" % (rel, node.lineno), "tolerance test on an absolute difference: %s" % src(node)[:80])
            elif isinstance(l, ast.BinOp) and isinstance(l.op, ast.Sub) and _like_terms(l.left, l.right):
                fn = enclosing_function(node)
                ctx.fail("E5", node, getattr(fn, "_qualname", "<module>"), src(node)[:110],
                         "the difference of two like quantities (%s vs %s) is compared with the tolerance %s without abs(): the test "
                         "passes for ANY difference of the other sign, so a structural change far beyond the tolerance is accepted "
                         "as an alignment artefact on one side only" % (src(l.left)[:40], src(l.right)[:40], rhs))
    ctx.floor("E5", "abs()-wrapped symmetric tolerance tests", n_abs, 3)


# ---------------------------------------------------------------------------
# E6: tolerance roles
# ---------------------------------------------------------------------------

TOL_MODULES = ("src/long_read_assigner.py", "src/junction_comparator.py", "src/polya_verification.py", "src/alignment_info.py",
               "src/long_read_profiles.py")
NOT_TOLERANCES = re.compile(r"^(correct_|count_exons$|resolve_ambiguous$|needs_|cage|no_|report_|data_type|debug)")


def _use_signature(node):
    """How a params.<tolerance> value is consumed: 'callee#argpos' / 'callee#kw', 'cmp', 'flag', or the statement kind."""
    ch, par = node, getattr(node, "_parent", None)
    while isinstance(par, (ast.BinOp, ast.UnaryOp)) or (isinstance(par, ast.Call) and dotted(par.func) in ("abs", "int", "float", "round", "min", "max")):
        ch, par = par, getattr(par, "_parent", None)
    if isinstance(par, ast.Call):
        callee = (dotted(par.func) or "?").split(".")[-1]
        for i, a in enumerate(par.args):
            if a is ch:
                return "%s#%d" % (callee, i)
        for k in par.keywords:
            if k.value is ch:
                return "%s#%s" % (callee, k.arg)
        return "%s#?" % callee
    if isinstance(par, ast.keyword):
        c = getattr(par, "_parent", None)
        return "%s#%s" % ((dotted(c.func) or "?").split(".")[-1] if isinstance(c, ast.Call) else "?", par.arg)
    if isinstance(par, ast.Compare):
        return "cmp"
    if isinstance(par, (ast.If, ast.BoolOp, ast.IfExp, ast.While)) or (isinstance(par, ast.UnaryOp) and isinstance(par.op, ast.Not)):
        return "flag"
    if isinstance(par, ast.Assign):
        return "assign"
    return type(par).__name__.lower()


def tolerance_uses(prog):
    uses = {}
    for m, q, f in prog.all_functions():
        if m.rel not in TOL_MODULES:
            continue
        aliases = {}
        for st in walk_no_nested(f):
            if isinstance(st, ast.Assign) and len(st.targets) == 1 and isinstance(st.targets[0], ast.Name) and isinstance(st.value, ast.Attribute) \
                    and src(st.value.value) in ("self.params", "params"):
                aliases[st.targets[0].id] = st.value.attr
        for n in walk_no_nested(f):
            attr = None
            if isinstance(n, ast.Attribute) and src(n.value) in ("self.params", "params") and isinstance(n.ctx, ast.Load):
                attr = n.attr
                if isinstance(getattr(n, "_parent", None), ast.Assign) and n._parent.value is n and isinstance(n._parent.targets[0], ast.Name):
                    continue        # plain alias: its uses are followed instead
            elif isinstance(n, ast.Name) and isinstance(n.ctx, ast.Load) and n.id in aliases:
                attr = aliases[n.id]
            if attr is None or NOT_TOLERANCES.match(attr):
                continue
            uses.setdefault(attr, {}).setdefault(_use_signature(n), []).append((m, q, n))
    return uses


# confirmed by reading on the pinned tree: which comparator / role each tolerance feeds
TOL_ROLES = {
    "apa_delta": {"cmp"},                                   # distance of a polyA/T site to the isoform end
    "delta": {"NonOverlappingFeaturesProfileConstructor#delta", "OverlappingFeaturesProfileConstructor#delta", "cmp", "contains_approx#2",
              "equal_ranges#2", "partial#delta"},           # splice-site / exon-border equality slack
    "max_fake_terminal_exon_len": {"cmp"},
    "max_intron_abs_diff": {"cmp"},
    "max_intron_rel_diff": {"cmp"},
    "max_intron_shift": {"cmp"},
    "max_missed_exon_len": {"cmp"},
    "max_suspicious_intron_abs_len": {"cmp"},
    "max_suspicious_intron_rel_len": {"cmp"},
    "micro_intron_length": {"cmp"},
    "min_abs_exon_overlap": {"assign", "contains_approx#2"},   # containment slack of the isoform pre-filter; overlap cut-off
    "min_rel_exon_overlap": {"assign"},
    "minimal_exon_overlap": {"contains_well_inside#2", "partial#delta"},
    "minimal_intron_absence_overlap": {"partial#delta"},
    "minor_exon_extension": {"cmp", "overlaps_at_least#2", "tuple"},
}


def _assigned_to_local(node):
    st = node
    while st is not None and not isinstance(st, ast.stmt):
        st = getattr(st, "_parent", None)
    return isinstance(st, ast.Assign) and len(st.targets) == 1 and isinstance(st.targets[0], ast.Name)


def _helper_roles(prog, sig):
    """roles the i-th parameter of a small project helper plays inside it (one level), or None if the callee is not such a helper"""
    name, _sep, pos = sig.partition("#")
    if name in {r.split("#")[0] for roles in TOL_ROLES.values() for r in roles if "#" in r}:
        return None           # a comparator that has confirmed roles of its own is a role, not a pass-through
    cands = [f for _m, q, f in prog.all_functions() if q.split(".")[-1] == name]
    if len(cands) != 1 or len(cands[0].body) > 4:
        return None
    f = cands[0]
    params = [a.arg for a in f.args.args if a.arg not in ("self", "cls")]
    pname = params[int(pos)] if pos.isdigit() and int(pos) < len(params) else (pos if pos in params else None)
    if pname is None:
        return None
    roles = {_use_signature(n) for n in walk_no_nested(f) if isinstance(n, ast.Name) and n.id == pname and isinstance(n.ctx, ast.Load)}
    return roles or None


def _stored_unread(node):
    """the value is assigned to self.<x>, and <x> is not read anywhere in the module: it is not consumed"""
    st = node
    while st is not None and not isinstance(st, ast.stmt):
        st = getattr(st, "_parent", None)
    if not (isinstance(st, ast.Assign) and len(st.targets) == 1 and isinstance(st.targets[0], ast.Attribute)
            and isinstance(st.targets[0].value, ast.Name) and st.targets[0].value.id == "self"):
        return False
    x = st.targets[0].attr
    fn = enclosing_function(node)
    scope = getattr(fn, "_class", None) or getattr(node, "_module", None) and node._module.tree
    if scope is None:
        return False
    # (the attribute belongs to objects of the enclosing class: it is consumed if a method of that class reads self.<x>; a class that
    # is subclassed or whose objects are read from outside is beyond this test and stays reported)
    subclassed = any(isinstance(c_, ast.ClassDef) and any((dotted(b_) or "").split(".")[-1] == getattr(scope, "name", "?") for b_ in c_.bases)
                     for c_ in ast.walk(node._module.tree))
    if subclassed:
        return False
    return not any(isinstance(a, ast.Attribute) and a.attr == x and isinstance(a.ctx, ast.Load) and isinstance(a.value, ast.Name)
                   and a.value.id == "self" for a in ast.walk(scope))


def e6(prog, ctx):
    uses = tolerance_uses(prog)
    n = 0
    for attr in sorted(uses):
        for sig in sorted(uses[attr]):
            m, q, node = uses[attr][sig][0]
            n += 1
            if attr not in TOL_ROLES:
                ctx.fail("E6", node, q, "params.%s as %s" % (attr, sig), "params.%s is consumed by the assignment code but has no confirmed role: "
                         "a new tolerance must be triaged (which documented tolerance is it?)" % attr)
            elif "#" in sig and _helper_roles(prog, sig) is not None and _helper_roles(prog, sig) <= TOL_ROLES[attr]:
                ctx.ok("E6", "%s:%d" % (m.rel, node.lineno), "params.%s passed to %s, which uses it as %s" % (attr, sig, sorted(_helper_roles(prog, sig))))
            elif sig == "assign" and _stored_unread(node):
                ctx.ok("E6", "%s:%d" % (m.rel, node.lineno), "params.%s is copied into an attribute that nothing reads" % attr, nontrivial=False)
            elif sig not in TOL_ROLES[attr]:
                ctx.fail("E6", node, q, "params.%s as %s" % (attr, sig),
                         "tolerance params.%s is used here as `%s`; its confirmed roles are %s. A tolerance moved to another comparison changes "
                         "which reads count as 'within the documented tolerances' (e.g. a 300-bp extension bound used where a 10-bp "
                         "containment slack belongs lets reads with extra terminal exons pass as consistent)" % (attr, sig, sorted(TOL_ROLES[attr])))
            else:
                ctx.ok("E6", "%s:%d" % (m.rel, node.lineno), "params.%s used as %s (%d sites)" % (attr, sig, len(uses[attr][sig])))
    ctx.floor("E6", "tolerance use signatures", n, 20)


PRESET_ORDER = ["exact", "precise", "default", "loose"]       # docs/cmd.md: increasing tolerance


def e8(prog, ctx):
    """The matching presets form a chain of increasing tolerance, and their delta is the documented one."""
    import os
    import re as _re
    f = prog.func("isoquant.py", "set_matching_options")
    fields = None
    table = None
    for st in walk_no_nested(f):
        if isinstance(st, ast.Assign) and isinstance(st.value, ast.Call) and (call_name(st.value) or "").endswith("namedtuple") \
                and len(st.value.args) == 2 and isinstance(st.value.args[1], (ast.Tuple, ast.List)):
            fields = [e.value for e in st.value.args[1].elts if isinstance(e, ast.Constant)]
            ctor = st.targets[0].id if isinstance(st.targets[0], ast.Name) else None
        if isinstance(st, ast.Assign) and isinstance(st.value, ast.Dict) and all(isinstance(k, ast.Constant) for k in st.value.keys) \
                and {k.value for k in st.value.keys} >= set(PRESET_ORDER):
            table = st
    if not fields or table is None:
        raise AnalysisError("set_matching_options: preset namedtuple / table not found")
    rows = {}
    for k, v in zip(table.value.keys, table.value.values):
        if not isinstance(v, ast.Call):
            raise AnalysisError("set_matching_options: preset %s is not a constructor call" % k.value)
        row = {}
        for name, a in zip(fields, v.args):
            row[name] = a
        for kw in v.keywords:
            row[kw.arg] = kw.value
        if set(row) != set(fields):
            ctx.fail("E8", v, f._qualname, "preset %s" % k.value, "preset %s does not give every field exactly once (%s)" % (k.value, sorted(set(fields) ^ set(row))))
        rows[k.value] = {n: (x.value if isinstance(x, ast.Constant) else None) for n, x in row.items()}
    n = 0
    for name in fields:
        vals = [rows[p].get(name) for p in PRESET_ORDER]
        if not all(isinstance(x, (int, float)) and not isinstance(x, bool) for x in vals):
            continue
        n += 1
        bad = [(PRESET_ORDER[i], vals[i], PRESET_ORDER[i + 1], vals[i + 1]) for i in range(len(vals) - 1) if vals[i] > vals[i + 1]]
        if bad:
            a, x, b, y = bad[0]
            ctx.fail("E8", table, f._qualname, "%s: %s" % (name, dict(zip(PRESET_ORDER, vals))),
                     "tolerance %s is %s under the stricter preset '%s' but %s under '%s': the presets are documented as a chain of increasing "
                     "tolerance (exact < precise < default < loose), so a read accepted as consistent under the stricter preset would be "
                     "rejected under the looser one" % (name, x, a, y, b))
        else:
            ctx.ok("E8", "isoquant.py:%d" % table.lineno, "%s is non-decreasing along exact < precise < default < loose: %s" % (name, vals))
    # documented delta per preset
    doc = os.path.join(prog.root, "docs", "cmd.md")
    if os.path.exists(doc):
        text = open(doc, encoding="utf-8").read()
        for pname in PRESET_ORDER:
            m = _re.search(r"`%s`\s*-\s*delta\s*=\s*(\d+)" % pname, text)
            if not m:
                continue
            n += 1
            if rows[pname].get("delta") != int(m.group(1)):
                ctx.fail("E8", table, f._qualname, "delta of preset %s" % pname, "docs/cmd.md documents delta = %s for --matching_strategy %s, the "
                         "table says %s" % (m.group(1), pname, rows[pname].get("delta")))
            else:
                ctx.ok("E8", "isoquant.py:%d" % table.lineno, "delta of preset %s equals the documented %s" % (pname, m.group(1)))
    ctx.floor("E8", "numeric preset fields + documented deltas", n, 8)


def e9(prog, ctx):
    """The polyA/polyT evidence of a read is what the finder found in the read's own alignment - for every alignment: the assigner treats
    'no polyA found' and 'polyA found' differently (fake terminal exons are trimmed, ends are verified), so a read whose tail search was
    skipped is assigned as another read.  AlignmentInfo.polya_info is stored only from the finder's result on the alignment, and every
    path through add_polya_info passes that store."""
    AI = "src/alignment_info.py"
    cls = prog.cls(AI, "AlignmentInfo")
    meths = prog.methods_of(cls, inherited=False)
    n = 0
    finder_stores = []
    for name, f in sorted(meths.items()):
        params = {a.arg for a in f.args.args}
        for st in walk_no_nested(f):
            if not (isinstance(st, ast.Assign) and any(src(t) == "self.polya_info" for t in st.targets)):
                continue
            n += 1
            v = st.value
            if name == "__init__" and isinstance(v, ast.Constant) and v.value is None:
                ctx.ok("E9", "%s:%d" % (AI, st.lineno), "polya_info starts as None")
            elif isinstance(v, ast.Call) and isinstance(v.func, ast.Attribute) and isinstance(v.func.value, ast.Name) and v.func.value.id in params \
                    and any(src(a) == "self.alignment" for a in v.args):
                finder_stores.append(st)
                ctx.ok("E9", "%s:%d" % (AI, st.lineno), "polya_info = %s(self.alignment)" % src(v.func))
            else:
                ctx.fail("E9", st, "AlignmentInfo." + name, src(st)[:80], "the polyA/polyT evidence of a read is set to %s without searching the "
                         "read's alignment: aligned tails and fake terminal exons of such reads are no longer recognised, and the read is "
                         "assigned as if it had no tail" % src(v)[:50])
    f = meths.get("add_polya_info")
    if f is None or not finder_stores:
        ctx.undecided("E9", cls, "AlignmentInfo", "add_polya_info / the store of the finder's result not found")
    else:
        for pth in flow.paths(f):
            if pth.exit not in ("return", "fall"):
                continue
            n += 1
            if any(s_ is st for s_ in pth.stmts() for st in finder_stores):
                ctx.ok("E9", "%s:%d" % (AI, f.lineno), "path [%s] runs the tail search" % pth.describe()[:60])
            else:
                ctx.fail("E9", pth.exit_node or f, "AlignmentInfo.add_polya_info", "path without tail search: %s" % pth.describe()[:80],
                         "add_polya_info returns on the path [%s] without running the polyA/polyT search on the alignment" % pth.describe()[:120])
    ctx.floor("E9", "stores of polya_info / paths of add_polya_info", n, 3)


def run(prog, ctx):
    ctx.rule("E9", "AlignmentInfo.polya_info is assigned only None (constructor) or the result of a finder call on self.alignment, and every "
                   "normal path of add_polya_info passes through that assignment")
    e9(prog, ctx)
    ctx.rule("E8", "preset table of set_matching_options: every numeric tolerance is non-decreasing along the documented chain "
                   "exact < precise < default < loose, every preset gives every field once, and delta equals the value docs/cmd.md documents")
    e8(prog, ctx)
    ctx.rule("E6", "who-may-use table for tolerances: every consumption of a params.<tolerance> attribute in the assigner, comparator, "
                   "profile and polyA modules (local aliases followed) has a use signature - callee#argument, comparison, assignment - "
                   "that is in the table confirmed by reading; a tolerance appearing in a new role needs triage")
    e6(prog, ctx)
    ctx.rule("E7", "the polyA (+ strand) and polyT (- strand) twins of src/polya_verification.py are exact mirror images under the typed "
                   "coordinate reflection of C11/X1: a read following an isoform is verified identically on both strands")
    from . import x1_pairs
    n7 = x1_pairs.run_function_pairs(prog, ctx, "E7", {"src/polya_verification.py", "src/polya_finder.py"})
    from . import c11 as _c11
    _c11.x6(prog, ctx, tag="E7", canonical=False)          # twin event tables hoisted into constants are compared as well
    ctx.floor("E7", "polyA / polyT function pairs", n7, 5)
    ctx.rule("E5", "in the comparators, every `f(a) - f(b) <(=) tolerance(params)` with like terms on both sides is wrapped in abs() "
                   "(one-sided comparison rule)")
    ctx.rule("E1", "every MatchEventSubtype member in value position in the comparators (emitted set) lies in exactly one of "
                   "is_consistent / is_minor_error / all_major_events; derived sets are consistent; classify_assignment tests "
                   "all-consistent, any-major, any-minor in that order")
    ctx.rule("E2", "every emitted member is a key of event_subtype_cost")
    ctx.rule("E3", "each emitted member is classified as docs/formats.md documents its family: consistent events consistent, "
                   "alignment artifacts minor, intron retentions / significant inconsistencies / alternative ends major")
    ctx.rule("E4", "abstract path enumeration of assign_to_isoform, match_consistent*, match_inconsistent: every path returns "
                   "a ReadAssignment(...) (None only from match_consistent*, re-dispatched by the caller)")
    t = EventTables(prog)
    em = e1_e2_e3(prog, ctx, t)
    e4(prog, ctx)
    e5(prog, ctx)
    ctx.floor("E1", "emitted event members", len(em), 50)
    ctx.floor("E2", "priced events", len(t.cost), 55)
    ctx.extra["exhaustive"] = True
    ctx.extra["emitted_members"] = sorted(em)
    ctx.extra["never_emitted"] = sorted(set(t.members) - set(em))
    ctx.assume("events are only created through MatchEventSubtype.<member> attribute expressions (no MatchEventSubtype[...] / (value) lookups in the emitters)")
    ctx.assume("profile construction, junction arithmetic and polyA distances are runtime-valued and not decided")
    # lookups by name/value would bypass the emitted-set computation: check there are none
    for rel in EMITTERS:
        for n in ast.walk(prog.module(rel).tree):
            if isinstance(n, (ast.Subscript, ast.Call)) and dotted(getattr(n, "value", None) or getattr(n, "func", None)) == "MatchEventSubtype":
                raise AnalysisError("%s:%d dynamic MatchEventSubtype lookup defeats the emitted-set analysis" % (rel, n.lineno))
