"""C09 - grouped tables partition the ungrouped ones (structural part).

P1 every get_group_id implementation returns, on every path, a non-None group that it registered
P2 name->index and index->name group tables are built from the same ordered sequence
P3 the group used for counting is a member of the universe the counters were built from
P4 rendering flags control only writes to their own file (rows and totals do not depend on --counts_format)
P5 <v>.read_group is read only while v is the current read of its loop
"""
import ast
import re

from ..engine.program import AnalysisError, dotted, src, walk_no_nested, call_name, enclosing_stmt
from ..engine import flow, symexec, staticeval
from ..engine.argswap import bind_args

RG = "src/read_groups.py"
LRC = "src/long_read_counter.py"


def p1(prog, ctx):
    subs = prog.subclasses_of("AbstractReadGrouper")
    n = 0
    # the factory must only hand out these classes
    fac = prog.func(RG, "create_read_grouper")
    returned = set()
    for r in walk_no_nested(fac):
        if isinstance(r, ast.Return) and isinstance(r.value, ast.Call):
            returned.add(call_name(r.value))
    known = {c.name for _m, c in subs}
    for name in sorted(returned - known):
        ctx.fail("P1", fac, fac._qualname, name, "create_read_grouper returns %s which is not a subclass of AbstractReadGrouper "
                 "(its get_group_id is not checked)" % name)
    for m, c in sorted(subs, key=lambda mc: mc[1].lineno):
        meths = prog.methods_of(c, inherited=False)
        f = meths.get("get_group_id")
        template = False
        if f is None:
            # template method: the base class's get_group_id calls a hook that this class implements
            base_f = prog.methods_of(c, inherited=True).get("get_group_id")
            hooks = {x.func.attr for x in ast.walk(base_f) if isinstance(x, ast.Call) and isinstance(x.func, ast.Attribute)
                     and dotted(x.func.value) == "self"} if base_f is not None else set()
            if base_f is None or not (hooks & set(meths)):
                continue
            f, template = base_f, True
        n += 1
        # groups registered by the constructor
        init = prog.methods_of(c, inherited=True).get("__init__")
        init_groups = set()
        if "__init__" in meths:
            for st in walk_no_nested(meths["__init__"]):
                if isinstance(st, ast.Assign) and dotted(st.targets[0]) == "self.read_groups" and isinstance(st.value, ast.Set):
                    init_groups |= {src(e) for e in st.value.elts}
        from ..engine import inline
        f = inline.inlined(prog, f, owner=c if template else None)     # helpers / hooks of this class are analysed in place
        for p in flow.paths(f):
            if p.exit == "raise":
                continue
            added = set()
            env = {}
            for ev in p.events:
                if ev[0] != "stmt":
                    continue
                st = ev[1]
                if isinstance(st, ast.Assign) and isinstance(st.targets[0], ast.Name):
                    env[st.targets[0].id] = symexec.subst(st.value, env)
                for call in [x for x in walk_no_nested(st) if isinstance(x, ast.Call)]:
                    if src(call.func) == "self.read_groups.add" and call.args:
                        added.add(src(symexec.subst(call.args[0], env)))
            rv = p.exit_node.value if isinstance(p.exit_node, ast.Return) else None
            where = p.exit_node if p.exit_node is not None else f
            fq = "%s.get_group_id" % c.name
            if rv is None or (isinstance(rv, ast.Constant) and rv.value is None):
                ctx.fail("P1", where, fq, src(where) if p.exit_node is not None else "fall off end",
                         "%s returns None on this path: the read gets no group and AssignedFeatureCounter.add_read_info "
                         "raises KeyError on group_numeric_ids[None] instead of counting it under the default group NA" % fq,
                         path=p.describe())
                continue
            rt = src(symexec.subst(rv, env))
            # normalise the class constant spelled through another class
            norm = lambda t: t.replace("AlignmentTagReadGrouper.default_group_id", "self.default_group_id") \
                .replace("AbstractReadGrouper.default_group_id", "self.default_group_id")
            if norm(rt) in {norm(a) for a in added} or norm(rt) in {norm(g) for g in init_groups}:
                ctx.ok("P1", "%s:%d" % (m.rel, where.lineno), "%s returns registered group %s" % (fq, rt))
            else:
                ctx.fail("P1", where, fq, src(where),
                         "%s returns %s without adding it to self.read_groups on this path: the group is missing from the "
                         "universe the grouped counters are built from" % (fq, rt), path=p.describe())
    ctx.floor("P1", "get_group_id implementations", n, 5)


def p2(prog, ctx):
    n = 0
    for m, q, c in prog.all_classes():
        meths = prog.methods_of(c, inherited=False)
        init = meths.get("__init__")
        if init is None:
            continue
        # index tables:  for i, k in enumerate(X): self.D[k] = i
        tables = []
        for loop in [x for x in walk_no_nested(init) if isinstance(x, ast.For)]:
            it = loop.iter
            if not (isinstance(it, ast.Call) and dotted(it.func) == "enumerate" and it.args):
                continue
            if not (isinstance(loop.target, ast.Tuple) and len(loop.target.elts) == 2):
                continue
            i_name, k_name = (src(e) for e in loop.target.elts)
            for st in walk_no_nested(loop):
                if isinstance(st, ast.Assign) and isinstance(st.targets[0], ast.Subscript) \
                        and src(st.targets[0].slice) == k_name and src(st.value) == i_name \
                        and (dotted(st.targets[0].value) or "").startswith("self."):
                    tables.append((dotted(st.targets[0].value), it.args[0], loop))
        # ... or the same as a comprehension:  self.D = {k: i for i, k in enumerate(X)}  (starts empty and is injective by construction)
        for st in walk_no_nested(init):
            if isinstance(st, ast.Assign) and isinstance(st.value, ast.DictComp) and len(st.value.generators) == 1 \
                    and (dotted(st.targets[0]) or "").startswith("self."):
                g = st.value.generators[0]
                if isinstance(g.iter, ast.Call) and dotted(g.iter.func) == "enumerate" and g.iter.args and isinstance(g.target, ast.Tuple) \
                        and len(g.target.elts) == 2 and not g.ifs and src(st.value.key) == src(g.target.elts[1]) \
                        and src(st.value.value) == src(g.target.elts[0]):
                    tables.append((dotted(st.targets[0]), g.iter.args[0], st))
        if not tables:
            continue
        # ordered lists of this class that are indexed by a non-constant
        lists = {}
        for st in walk_no_nested(init):
            if isinstance(st, ast.Assign) and (dotted(st.targets[0]) or "").startswith("self."):
                v = st.value
                if isinstance(v, ast.Call) and dotted(v.func) in ("sorted", "list") or isinstance(v, (ast.List, ast.ListComp)):
                    lists.setdefault(dotted(st.targets[0]), []).append(v)
        indexed = set()
        for node in ast.walk(c):
            if isinstance(node, ast.Subscript) and dotted(node.value) in lists and not isinstance(node.slice, (ast.Constant, ast.Slice)):
                indexed.add(dotted(node.value))
        # the two tables are each other's inverse only as long as neither changes after construction
        frozen = set(indexed) | {D for D, _X, _l in tables if indexed}
        for mname, mf in sorted(meths.items()):
            if mname == "__init__":
                continue
            for node in walk_no_nested(mf):
                hit = None
                if isinstance(node, ast.Call) and isinstance(node.func, ast.Attribute) and dotted(node.func.value) in frozen \
                        and node.func.attr in ("append", "remove", "insert", "pop", "sort", "reverse", "extend", "clear", "update", "setdefault", "popitem"):
                    hit = node
                elif isinstance(node, (ast.Assign, ast.AugAssign, ast.Delete)):
                    tg = node.targets if isinstance(node, (ast.Assign, ast.Delete)) else [node.target]
                    if any(dotted(t) in frozen or (isinstance(t, ast.Subscript) and dotted(t.value) in frozen) for t in tg):
                        hit = node
                if hit is not None:
                    n += 1
                    ctx.fail("P2", hit, "%s.%s" % (c.name, mname), src(hit)[:80], "%s changes a group table after the counter was constructed: the "
                             "name->number table and the number->name list are inverse to each other only as built in __init__, so counts "
                             "stored under a number are printed under another group's name afterwards" % src(hit)[:50])
        for D, X, loop in tables:
            n += 1
            if not indexed:
                ctx.ok("P2", "%s:%d" % (m.rel, loop.lineno), "%s.%s index table has no companion list" % (c.name, D), nontrivial=False)
                continue
            for L in sorted(indexed):
                defs = [v for v in lists[L] if not isinstance(v, ast.List)]   # the literal [default] branch is the 1-group case
                same = src(X) == L or any(src(X) == src(v) for v in defs)
                if same:
                    ctx.ok("P2", "%s:%d" % (m.rel, loop.lineno), "%s: %s numbered from %s, the sequence %s is built from" % (c.name, D, src(X), L))
                else:
                    ctx.fail("P2", loop, "%s.__init__" % c.name, "table %s numbered by enumerate(%s)" % (D, src(X)),
                             "%s numbers the groups by iterating %s but %s (indexed with those numbers in this class) is %s: "
                             "the two orders differ whenever %s is an unordered set, so counts are printed under other groups' names"
                             % (D, src(X), L, " / ".join(src(v) for v in defs), src(X)))
    # the group table must be injective by construction: filled only by literals and plain enumeration, starting empty
    init = prog.func(LRC, "AssignedFeatureCounter.__init__")
    for node in walk_no_nested(init):
        if isinstance(node, ast.Call) and isinstance(node.func, ast.Attribute) and src(node.func.value) == "self.group_numeric_ids" \
                and node.func.attr in ("setdefault", "update"):
            ctx.fail("P2", node, init._qualname, src(node), "group_numeric_ids is filled with %s(): an entry that already exists keeps "
                     "its old number, so two groups can share one numeric id and their counts are merged" % node.func.attr)
            n += 1
    for loop in [x for x in walk_no_nested(init) if isinstance(x, ast.For) and "enumerate(" in src(x.iter)
                 and "self.group_numeric_ids[" in src(x)]:
        # nearest preceding plain assignment of the dict in an enclosing block must be the empty literal
        reach = []
        cur = loop
        while cur is not None and cur is not init and not reach:
            par = cur._parent
            for fld in ("body", "orelse", "finalbody"):
                blk = getattr(par, fld, None)
                if isinstance(blk, list) and any(x is cur for x in blk):
                    idx = [i for i, x in enumerate(blk) if x is cur][0]
                    for prev in blk[:idx]:
                        if isinstance(prev, ast.Assign) and dotted(prev.targets[0]) == "self.group_numeric_ids":
                            reach.append(prev)
            cur = par
        if not reach or not (isinstance(reach[-1].value, ast.Dict) and not reach[-1].value.keys):
            ctx.fail("P2", loop, init._qualname, "group_numeric_ids before enumerate",
                     "the numbered group table does not start empty in this branch (%s): a pre-seeded entry shares its number "
                     "with the first enumerated group" % (src(reach[-1]) if reach else "no initialisation"))
        else:
            ctx.ok("P2", "%s:%d" % (LRC, loop.lineno), "group table starts empty and is filled by plain enumeration")
    if n == 0:
        if any(isinstance(x, ast.Attribute) and x.attr == "group_numeric_ids" and isinstance(x.ctx, ast.Store) for x in walk_no_nested(init)):
            ctx.fail("P2", init, init._qualname, "group_numeric_ids", "the name->number table of the grouped counter is no longer built by "
                     "plain enumeration of the ordered group list")
        else:
            ctx.undecided("P2", init, init._qualname, "the grouped counter has no name->number table any more (groups are represented in "
                          "another way)")
        n = 1
    ctx.floor("P2", "enumerate-built index tables", n, 1)


def p3(prog, ctx):
    """The numeric id is taken from group_numeric_ids by the read's own group; default when groups are ignored."""
    # path-wise: whatever group a count is added under is group_numeric_ids[K] with K = the default group when groups are ignored
    # and the read's own group otherwise (helpers of the class are inlined, local aliases substituted)
    n_inc = 0
    mappings = {}
    for fname, own in (("add_read_info", r"^\w+\.read_group$"), ("add_read_info_raw", r"^group_id$")):
        f = prog.func_inlined(LRC, "AssignedFeatureCounter." + fname)
        bad = None
        seen = set()
        for pth in flow.paths(f):
            env = {}
            ignore = None          # truth of self.ignore_read_groups on this path, if tested
            for ev in pth.events:
                if ev[0] == "cond":
                    for atom, pol in flow.conjuncts(ev[1], ev[2]):
                        if src(atom) == "self.ignore_read_groups":
                            ignore = pol
                if ev[0] != "stmt":
                    continue
                st = ev[1]
                if isinstance(st, ast.Assign) and len(st.targets) == 1 and isinstance(st.targets[0], ast.Name):
                    env[st.targets[0].id] = symexec.subst(st.value, env)
                for c in ([x for x in ast.walk(st) if isinstance(x, ast.Call)] if not isinstance(st, (ast.If, ast.For, ast.While, ast.With, ast.Try)) else []):
                    if not (isinstance(c.func, ast.Attribute) and c.func.attr == "inc" and "feature_counter" in src(c.func) and c.args):
                        continue
                    g = symexec.subst(c.args[0], env)
                    ok = False
                    why = src(g)
                    # the name -> cell-key mapping applied to the group (table look-up, a method of a group registry, or none): it has
                    # to be the same one at every increment; what is decided here is WHICH group is mapped
                    if isinstance(g, ast.Subscript) and src(g.value).startswith("self."):
                        mapping, k = src(g.value) + "[]", g.slice
                    elif isinstance(g, ast.Call) and isinstance(g.func, ast.Attribute) and src(g.func).startswith("self.") and len(g.args) == 1 \
                            and not g.keywords:
                        mapping, k = src(g.func) + "()", g.args[0]
                    else:
                        mapping, k = "identity", g
                    mappings.setdefault(mapping, c)
                    if True:
                        alts = []

                        def leaves(e, cond):
                            if isinstance(e, ast.IfExp):
                                leaves(e.body, cond + [(src(e.test), True)])
                                leaves(e.orelse, cond + [(src(e.test), False)])
                            else:
                                alts.append((e, cond))
                        leaves(k, [])
                        ok = True
                        for e, cond in alts:
                            ign = ignore
                            for t, pol in cond:
                                if t == "self.ignore_read_groups":
                                    ign = pol
                            te = src(e)
                            if ign is True and te.endswith("default_group_id"):
                                continue
                            if ign is False and re.match(own, te):
                                continue
                            if ign is None and re.match(own, te) and False:
                                continue
                            ok = False
                            why = "%s when ignore_read_groups is %s" % (te, ign)
                    key = (c.lineno, ok)
                    if key not in seen:
                        seen.add(key)
                        n_inc += 1
                    if not ok and bad is None:
                        bad = (c, why, pth)
        if bad:
            ctx.fail("P3", bad[0], f._qualname, src(bad[0])[:90], "a count is added under %s: the group must be group_numeric_ids[default group] "
                     "when groups are ignored and group_numeric_ids[the read's own group] otherwise" % bad[1], path=bad[2].describe()[:200])
        else:
            ctx.ok("P3", "%s:%d" % (LRC, f.lineno), "%s: every increment uses group_numeric_ids[default if ignore_read_groups else the read's group]" % fname)
    if len(mappings) > 1:
        c = list(mappings.values())[1]
        ctx.fail("P3", c, "AssignedFeatureCounter", "group mappings %s" % sorted(mappings), "counts are added under differently mapped groups "
                 "(%s): cells filled through one mapping are not the cells the other one (and the renderings) address" % ", ".join(sorted(mappings)))
    ctx.floor("P3", "increment sites checked path-wise", n_inc, 4)
    # matrix and linear renderings read the same table with the same name list
    def writers(d):
        def _arg_text(c):
            a = c.args[0] if c.args else None
            if isinstance(a, ast.Name):
                ds = [st for st in walk_no_nested(d) if isinstance(st, ast.Assign) and len(st.targets) == 1 and isinstance(st.targets[0], ast.Name)
                      and st.targets[0].id == a.id]
                if len(ds) == 1:
                    return src(ds[0].value)
            return src(a) if a is not None else ""
        lin = [c for c in walk_no_nested(d) if isinstance(c, ast.Call) and re.search(r"(^|\.)linear_output_file\w*\.write$", src(c.func))
               and "%.2f" in _arg_text(c)]
        from ..engine.dataflow import single_def_env
        denv = single_def_env(d)
        # matrix: some <counter>.get(self.group_numeric_ids[<name>]) whose counter is this feature's cell table
        gets = [c for c in walk_no_nested(d) if isinstance(c, ast.Call) and isinstance(c.func, ast.Attribute) and c.func.attr == "get"
                and c.args and re.match(r"^self\.group_numeric_ids\[\w+\]$", src(c.args[0]))]
        return lin, gets, denv, _arg_text
    d = prog.func(LRC, "AssignedFeatureCounter.dump_grouped")
    lin, gets, denv, _arg_text = writers(d)
    if len(lin) != 1 or not gets:
        # the two renderings may live in helpers of their own
        d = prog.func_inlined(LRC, "AssignedFeatureCounter.dump_grouped")
        lin, gets, denv, _arg_text = writers(d)
    if len(lin) != 1 or not gets:
        ctx.undecided("P3", d, d._qualname, "linear / matrix writers of dump_grouped not found in the shape the rule understands")
        return
    recv = src(symexec.subst(gets[0].func.value, denv))
    loop_vars = {x.id for l in walk_no_nested(d) if isinstance(l, ast.For) for x in ast.walk(l.target) if isinstance(x, ast.Name)}
    mrecv = re.match(r"^self\.feature_counter\[(\w+)\]$", recv)
    if not re.search(r"self\.ordered_groups\[\w+\]", _arg_text(lin[0])) or not mrecv or mrecv.group(1) not in loop_vars:
        ctx.fail("P3", lin[0], d._qualname, src(lin[0]), "linear rendering does not name groups through ordered_groups[numeric id], or the matrix "
                 "cells are not read from this feature's table through group_numeric_ids[name] (receiver %s)" % recv)
    else:
        ctx.ok("P3", "%s:%d" % (LRC, lin[0].lineno), "linear: ordered_groups[numeric id]; matrix: counter.get(group_numeric_ids[name]) over the same table")


def p4(prog, ctx):
    """A rendering flag controls nothing but writes to its own file: which rows/triples exist must not depend on --counts_format."""
    n = 0
    for m, q, f in prog.all_functions():
        if m.rel != LRC:
            continue
        def flagged_blocks(fn):
            return [i for i in walk_no_nested(fn) if isinstance(i, ast.If)
                    and any(re.match(r"^self\.output_grouped_\w+$", src(a)) for a in flow.atoms(i.test))]
        flagged = flagged_blocks(f)
        if any(isinstance(sub, ast.Expr) and isinstance(sub.value, ast.Call) and (call_name(sub.value) or "").startswith("self.")
               and (call_name(sub.value) or "").count(".") == 1 and (call_name(sub.value) or "").split(".")[1] in
               {qq.rsplit(".", 1)[-1] for _m, qq, _f in prog.all_functions() if _m.rel == m.rel}
               for i in flagged for st in i.body + i.orelse for sub in ast.walk(st)):
            # a rendering delegated to a helper method: look at what the helper does
            f = prog.func_inlined(m.rel, q)
            flagged = flagged_blocks(f)
        for i in flagged:
            flag = [src(a) for a in flow.atoms(i.test) if re.match(r"^self\.output_grouped_\w+$", src(a))][0]
            for st in i.body + i.orelse:
                for sub in ast.walk(st):
                    if not isinstance(sub, ast.stmt):
                        continue
                    n += 1
                    if isinstance(sub, ast.Expr) and isinstance(sub.value, ast.Call) and isinstance(sub.value.func, ast.Attribute) \
                            and sub.value.func.attr in ("write", "close", "flush"):
                        continue
                    if isinstance(sub, (ast.If, ast.For, ast.Pass)):
                        continue
                    if isinstance(sub, (ast.Continue, ast.Break)) and any(_within(l, i) for l in flow.enclosing_loops(sub)[-1:]):
                        continue          # leaves / continues a loop that lies inside the flag's own block
                    def block_local(names):
                        """assigned inside this flag block and never read outside it"""
                        stored_in = {x.id for x in ast.walk(i) if isinstance(x, ast.Name) and isinstance(x.ctx, ast.Store)}
                        outside = [x for x in walk_no_nested(f) if isinstance(x, ast.Name) and x.id in names and not _within(x, i)]
                        # a constant initialisation outside the block (x = None / 0 / []) does not make the name live outside it;
                        # nor does a use inside another block controlled by the same flag
                        outside = [x for x in outside if not (
                            isinstance(x.ctx, ast.Store) and isinstance(getattr(x, "_parent", None), ast.Assign)
                            and isinstance(x._parent.value, (ast.Constant, ast.List, ast.Dict)) and not getattr(x._parent.value, "elts", None)
                            and not getattr(x._parent.value, "keys", None))]
                        outside = [x for x in outside if not any(_within(x, j) and flag in [src(a) for a in flow.atoms(j.test)] for j in flagged)]
                        return names <= stored_in and not outside
                    if isinstance(sub, (ast.Assign, ast.AugAssign)):
                        tg = sub.targets if isinstance(sub, ast.Assign) else [sub.target]
                        if all(isinstance(t, ast.Name) for t in tg) and block_local({t.id for t in tg}):
                            continue
                    if isinstance(sub, ast.Expr) and isinstance(sub.value, ast.Call) and isinstance(sub.value.func, ast.Attribute) \
                            and isinstance(sub.value.func.value, ast.Name) and block_local({sub.value.func.value.id}):
                        continue          # building a block-local list / string buffer that is then written
                    ctx.fail("P4", sub, q, "if %s: %s" % (flag, src(sub)[:80]),
                             "%s is executed only when the rendering flag %s is set, but it is not a write to that rendering's file: "
                             "what is counted / which rows are emitted would depend on --counts_format, so the matrix and linear tables "
                             "(and the grouped vs ungrouped totals) can disagree" % (src(sub)[:60], flag))
        if flagged:
            ctx.ok("P4", "%s:%d" % (LRC, f.lineno), "%s: %d blocks controlled by a rendering flag contain only writes to their own file"
                   % (q, len(flagged)))
    ctx.floor("P4", "statements under a rendering flag", n, 3)


def _within(node, anc):
    cur = node
    while cur is not None:
        if cur is anc:
            return True
        cur = getattr(cur, "_parent", None)
    return False


def p5(prog, ctx):
    """`v.read_group` / `v.read_id` is read only while v is bound to the read in hand: not a loop variable after its loop."""
    n = 0
    for m, q, f in prog.all_functions():
        params = {a.arg for a in f.args.args + f.args.kwonlyargs}
        for node in walk_no_nested(f):
            if not (isinstance(node, ast.Attribute) and node.attr == "read_group" and isinstance(node.ctx, ast.Load)
                    and isinstance(node.value, ast.Name)):
                continue
            v = node.value.id
            if v in ("self", "args") or v in params:
                continue
            n += 1
            loops = [l for l in walk_no_nested(f) if isinstance(l, (ast.For, ast.comprehension))
                     and any(isinstance(t, ast.Name) and t.id == v for t in ast.walk(l.target))]
            if not loops:
                continue
            enclosing = False
            for l in loops:
                if isinstance(l, ast.For) and _within(node, l) and not any(_within(node, o) for o in l.orelse):
                    enclosing = True
                if isinstance(l, ast.comprehension) and _within(node, l._parent):
                    enclosing = True
            assigned = [st for st in walk_no_nested(f) if isinstance(st, ast.Assign) and any(isinstance(t, ast.Name) and t.id == v for t in st.targets)
                        and st.lineno < node.lineno]
            if enclosing or assigned:
                ctx.ok("P5", "%s:%d" % (m.rel, node.lineno), "%s: %s.read_group read while %s is the loop's current read" % (q, v, v), nontrivial=False)
                continue
            ctx.fail("P5", node, q, src(enclosing_stmt(node))[:100],
                     "%s.read_group is read after the loop over `%s` has ended: it is the group of whichever read the loop saw last, not of "
                     "the read being counted - the read is counted under a foreign group" % (v, v))
    ctx.floor("P5", "reads of <var>.read_group", n, 3)


def p6(prog, ctx):
    """The per-chromosome split of the read-group table: 'already written' is remembered per output file, not globally."""
    f = prog.func(RG, "split_read_group_table")
    n = 0
    for w in walk_no_nested(f):
        if not (isinstance(w, ast.Call) and isinstance(w.func, ast.Attribute) and w.func.attr == "write"
                and isinstance(w.func.value, ast.Subscript)):
            continue
        n += 1
        part_key = src(w.func.value.slice)
        st = enclosing_stmt(w)
        blk = st._parent.body if st in getattr(st._parent, "body", []) else getattr(st._parent, "orelse", [])
        # sets that record what was written, updated next to the write
        marks = [x.value for x in blk if isinstance(x, ast.Expr) and isinstance(x.value, ast.Call) and isinstance(x.value.func, ast.Attribute)
                 and x.value.func.attr == "add"]
        bad = None
        for atom, pol in flow.guard_facts(w, f):
            if isinstance(atom, ast.Compare) and len(atom.ops) == 1 and isinstance(atom.ops[0], (ast.In, ast.NotIn)):
                seen = atom.comparators[0]
                is_not_in = isinstance(atom.ops[0], ast.NotIn) == pol
                if not is_not_in:
                    continue
                if any(src(mk.func.value) == src(seen) for mk in marks):
                    # this is the 'not yet written' filter
                    if not (isinstance(seen, ast.Subscript) and src(seen.slice) == part_key):
                        bad = (atom, seen)
        if bad:
            ctx.fail("P6", bad[0], f._qualname, src(bad[0]), "a row is written to the file of partition `%s` only if the read is not in %s, which "
                     "is not kept per partition: a read with alignments on two chromosomes is written to the first chromosome's file only, "
                     "and is counted under NA on the other one" % (part_key, src(bad[1])))
        else:
            ctx.ok("P6", "%s:%d" % (RG, w.lineno), "rows for partition %s are de-duplicated per partition" % part_key)
    ctx.floor("P6", "partitioned writes in split_read_group_table", n, 1)


AP = "src/alignment_processor.py"


def p7(prog, ctx):
    """File provenance of a read: the number that travels with an alignment from BAMOnlineMerger to get_group_id(alignment, bam_pairs[n][1])
    is the position of the alignment's own BAM in bam_pairs."""
    cls = prog.cls(AP, "BAMOnlineMerger")
    mk = prog.func(AP, "make_alignment_tuple")
    rets = [r for r in walk_no_nested(mk) if isinstance(r, ast.Return)]
    if len(rets) != 1 or not isinstance(rets[0].value, ast.Tuple):
        raise AnalysisError("make_alignment_tuple no longer returns one tuple")
    params = [a.arg for a in mk.args.args]
    slots = [src(e) for e in rets[0].value.elts]
    if len(params) != 2 or params[0] not in slots or params[1] not in slots:
        raise AnalysisError("make_alignment_tuple: the index / alignment parameters are not elements of the returned tuple")
    idx_slot, aln_slot = slots.index(params[0]), slots.index(params[1])
    meths = prog.methods_of(cls, inherited=False)

    def aligned_with_inputs(expr, where):
        """expr is a sequence whose i-th element belongs to the i-th entry of self.bam_pairs"""
        t = src(expr)
        if t == "self.bam_pairs":
            return True
        if isinstance(expr, ast.Attribute) and isinstance(expr.value, ast.Name) and expr.value.id == "self":
            defs = [a for f in meths.values() for a in walk_no_nested(f)
                    if isinstance(a, ast.Assign) and any(src(x) == t for x in a.targets)]
            muts = [c for f in meths.values() for c in walk_no_nested(f) if isinstance(c, ast.Call) and isinstance(c.func, ast.Attribute)
                    and src(c.func.value) == t and c.func.attr in ("append", "insert", "pop", "remove", "extend", "sort", "reverse", "clear")]
            if not defs or muts:
                return False
            for a in defs:
                v = a.value
                if not (isinstance(v, ast.ListComp) and len(v.generators) == 1 and not v.generators[0].ifs
                        and src(v.generators[0].iter) == "self.bam_pairs"):
                    return False
            return True
        return False

    n = 0
    for name, f in sorted(meths.items()):
        for c in walk_no_nested(f):
            if not (isinstance(c, ast.Call) and (call_name(c) or "").split(".")[-1] == "make_alignment_tuple" and len(c.args) == 2):
                continue
            n += 1
            idx, val = c.args
            ok, why = False, "the index %s is neither the position of the iterator in a sequence aligned with self.bam_pairs nor the index " \
                             "slot of the queue element just taken" % src(idx)
            if isinstance(idx, ast.Name):
                # (1) enumerate index of an enclosing loop over an aligned sequence, value = next(<the loop's element>)
                for loop in flow.enclosing_loops(c):
                    if isinstance(loop, ast.For) and isinstance(loop.iter, ast.Call) and call_name(loop.iter) == "enumerate" \
                            and isinstance(loop.target, ast.Tuple) and len(loop.target.elts) == 2 and src(loop.target.elts[0]) == idx.id:
                        seq = loop.iter.args[0]
                        elem = src(loop.target.elts[1])
                        if not aligned_with_inputs(seq, c):
                            why = "%s enumerates %s, which is not element-for-element the list of input files (self.bam_pairs)" % (idx.id, src(seq))
                        elif src(val) not in ("next(%s)" % elem, "next(%s[%s])" % (src(seq), idx.id)):
                            why = "the alignment %s does not come from iterator number %s" % (src(val), idx.id)
                        else:
                            ok = True
                # (2) index slot of the element taken from the queue, value = next(self.alignment_iterators[idx])
                if not ok:
                    defs = [a for a in walk_no_nested(f) if isinstance(a, ast.Assign) and len(a.targets) == 1 and src(a.targets[0]) == idx.id]
                    if len(defs) == 1 and isinstance(defs[0].value, ast.Subscript) and isinstance(defs[0].value.slice, ast.Constant):
                        if defs[0].value.slice.value != idx_slot:
                            why = "%s reads slot %s of the queue element; make_alignment_tuple puts the file index into slot %d" % (
                                src(defs[0]), defs[0].value.slice.value, idx_slot)
                        else:
                            m = re.fullmatch(r"next\((self\.\w+)\[%s\]\)" % re.escape(idx.id), src(val))
                            if not m:
                                why = "the next alignment %s is not taken from iterator number %s" % (src(val), idx.id)
                            elif not aligned_with_inputs(ast.parse(m.group(1), mode="eval").body, c):
                                why = "%s is not element-for-element the list of input files (self.bam_pairs)" % m.group(1)
                            else:
                                ok = True
            if ok:
                ctx.ok("P7", "%s:%d" % (AP, c.lineno), "%s: %s carries the position of its BAM in bam_pairs" % (f._qualname, src(c)[:70]))
            else:
                ctx.fail("P7", c, f._qualname, src(c)[:90], "%s: the file name handed to get_group_id is bam_pairs[index][1], so reads are "
                         "labelled with another input file" % why)
    # what get() yields: (index slot, alignment slot) of the element taken
    g = meths.get("get")
    if g is None:
        raise AnalysisError("BAMOnlineMerger.get not found")
    for y in walk_no_nested(g):
        if isinstance(y, ast.Yield) and isinstance(y.value, ast.Tuple) and len(y.value.elts) == 2:
            n += 1
            env = {a.targets[0].id: a.value for a in walk_no_nested(g) if isinstance(a, ast.Assign) and len(a.targets) == 1
                   and isinstance(a.targets[0], ast.Name)}
            parts = []
            for e in y.value.elts:
                e = env.get(e.id, e) if isinstance(e, ast.Name) else e
                parts.append(e.slice.value if isinstance(e, ast.Subscript) and isinstance(e.slice, ast.Constant) else None)
            if parts != [idx_slot, aln_slot]:
                ctx.fail("P7", y, g._qualname, src(y), "get() yields slots %s of the queue element, make_alignment_tuple stores (file index, alignment) "
                         "in slots (%d, %d)" % (parts, idx_slot, aln_slot))
            else:
                ctx.ok("P7", "%s:%d" % (AP, y.lineno), "get() yields (file index, alignment) from slots (%d, %d)" % (idx_slot, aln_slot))
    # consumers: get_group_id(alignment, <...>.bam_pairs[i][1]) with (i, alignment) the loop's own pair
    for m, q, f in prog.all_functions():
        for c in walk_no_nested(f):
            if not (isinstance(c, ast.Call) and (call_name(c) or "").endswith(".get_group_id") and len(c.args) == 2):
                continue
            if m.rel != AP:
                continue
            n += 1
            a, fn = c.args
            mm = re.fullmatch(r"(?:self\.)?(?:\w+\.)*bam_pairs\[(\w+)\]\[1\]", src(fn))
            if not mm:
                ctx.fail("P7", c, q, src(c)[:90], "the file name given to get_group_id is not bam_pairs[<index>][1]")
                continue
            pair_ok = False
            for loop in flow.enclosing_loops(c):
                if isinstance(loop, ast.For) and isinstance(loop.target, ast.Tuple) and len(loop.target.elts) == 2 \
                        and [src(e) for e in loop.target.elts] == [mm.group(1), src(a)]:
                    pair_ok = True
            if pair_ok:
                ctx.ok("P7", "%s:%d" % (AP, c.lineno), "%s: get_group_id(%s, bam_pairs[%s][1]) uses the loop's own (index, alignment) pair" % (q, src(a), mm.group(1)))
            else:
                ctx.fail("P7", c, q, src(c)[:90], "the index %s and the alignment %s are not the (index, alignment) pair of one enclosing loop: the read "
                         "is labelled with the file of another alignment" % (mm.group(1), src(a)))
    ctx.floor("P7", "index hand-over sites (make_alignment_tuple calls, get() yield, get_group_id calls)", n, 5)


# docs/cmd.md `file:FILE:READ_COL:GROUP_COL:DELIM`: the role each documented field plays in the table loader.  The read column is the
# one the map is keyed by (it is looked up by the alignment's query name), the group column the one stored as the value.
DOC_ROLE = {"FILE": "file", "READ_COL": "key", "GROUP_COL": "value", "DELIM": "delim"}
DOC_DEFAULT = {"tab": "\t"}


def _doc_file_syntax(prog):
    import os
    doc = os.path.join(prog.root, "docs", "cmd.md")
    if not os.path.exists(doc):
        return None
    text = open(doc).read()
    m = re.search(r"`file:([A-Z_]+(?::[A-Z_]+)+)`", text)
    if not m:
        return None
    fields = m.group(1).split(":")
    defaults = {}
    for f in fields:
        d = re.search(r"`%s`\s+is\s+[^`]*?\((\w+) if not set\)" % re.escape(f), text)
        if d:
            tok = d.group(1)
            defaults[f] = DOC_DEFAULT.get(tok, int(tok) if tok.isdigit() else tok)
    return fields, defaults


def _loader_roles(prog, ctx):
    """parameter name of load_table -> role (file / key / value / delim), read off its body"""
    f = prog.func(RG, "load_table")
    params = [a.arg for a in f.args.args]
    env = {}
    for st in walk_no_nested(f):
        if isinstance(st, ast.Assign) and len(st.targets) == 1 and isinstance(st.targets[0], ast.Name):
            env.setdefault(st.targets[0].id, []).append(st.value)
    roles = {}
    rets = [r.value.id for r in walk_no_nested(f) if isinstance(r, ast.Return) and isinstance(r.value, ast.Name)]
    split_of = None
    for st in walk_no_nested(f):
        if isinstance(st, ast.Assign) and len(st.targets) == 1 and isinstance(st.targets[0], ast.Subscript) \
                and isinstance(st.targets[0].value, ast.Name) and st.targets[0].value.id in rets:
            for role, e in (("key", st.targets[0].slice), ("value", st.value)):
                defs = env.get(e.id, []) if isinstance(e, ast.Name) else [e]
                if len(defs) != 1 or not isinstance(defs[0], ast.Subscript) or not isinstance(defs[0].slice, ast.Name) \
                        or defs[0].slice.id not in params or not isinstance(defs[0].value, ast.Name):
                    return None
                roles[defs[0].slice.id] = role
                split_of = defs[0].value.id
    if split_of is None:
        return None
    sd = env.get(split_of, [])
    if len(sd) != 1 or not (isinstance(sd[0], ast.Call) and isinstance(sd[0].func, ast.Attribute) and sd[0].func.attr == "split"
                            and len(sd[0].args) == 1 and isinstance(sd[0].args[0], ast.Name) and sd[0].args[0].id in params):
        return None
    roles[sd[0].args[0].id] = "delim"
    for c in walk_no_nested(f):
        if isinstance(c, ast.Call) and (dotted(c.func) or "").split(".")[-1] == "open" and c.args and isinstance(c.args[0], ast.Name) \
                and c.args[0].id in params:
            roles[c.args[0].id] = "file"
    return roles if sorted(roles.values()) == ["delim", "file", "key", "value"] else None


def p9(prog, ctx):
    """`--read_group file:FILE:READ_COL:GROUP_COL:DELIM`: the parser hands every documented field to the loader parameter that plays the
    documented role, with the documented default when the field is left out."""
    q = "get_file_grouping_properties"
    parser = prog.func(RG, q)
    doc = _doc_file_syntax(prog)
    if doc is None:
        ctx.undecided("P9", parser, q, "the `file:FILE:...` syntax line of docs/cmd.md was not found")
        return
    fields, defaults = doc
    if any(f not in DOC_ROLE for f in fields):
        ctx.undecided("P9", parser, q, "documented fields %s are not the ones the role table knows" % fields)
        return
    roles = _loader_roles(prog, ctx)
    if roles is None:
        ctx.undecided("P9", prog.func(RG, "load_table"), "load_table", "key / value / delimiter / file parameters of the loader not recognised")
        return
    # tuple position -> loader parameter, through prepare_read_groups and split_read_group_table
    prep = prog.func(RG, "prepare_read_groups")
    split = prog.func(RG, "split_read_group_table")
    loader = prog.func(RG, "load_table")
    unpack = [st for st in walk_no_nested(prep) if isinstance(st, ast.Assign) and isinstance(st.value, ast.Call)
              and call_name(st.value) == q and isinstance(st.targets[0], ast.Tuple)
              and all(isinstance(e, ast.Name) for e in st.targets[0].elts)]
    calls = [c for c in walk_no_nested(prep) if isinstance(c, ast.Call) and call_name(c) == "split_read_group_table"]
    inner = [c for c in walk_no_nested(split) if isinstance(c, ast.Call) and call_name(c) == "load_table"]
    if len(unpack) != 1 or len(calls) != 1 or len(inner) != 1:
        ctx.undecided("P9", prep, "prepare_read_groups", "the parser result is not unpacked once and handed to split_read_group_table -> load_table")
        return
    names = [e.id for e in unpack[0].targets[0].elts]
    b1 = {pn: a.id for pn, a in bind_args(calls[0], split).items() if isinstance(a, ast.Name)}
    b2 = {pn: a.id for pn, a in bind_args(inner[0], loader).items() if isinstance(a, ast.Name)}
    pos_role = {}
    for lp, role in roles.items():
        sp = b2.get(lp)
        outer = next((a for pn, a in b1.items() if pn == sp), None)
        if outer not in names or names.count(outer) != 1:
            ctx.undecided("P9", calls[0], "prepare_read_groups", "loader parameter %s is not fed by one element of the parser's result" % lp)
            return
        pos_role[role] = names.index(outer)
    n = 0
    sample = ["file", "T", "7", "9", ";"]
    for k in range(2, len(fields) + 2):
        given = sample[:k]
        try:
            got = staticeval.call_function(parser, [list(given)], funcs=staticeval.module_helpers(prog))
        except staticeval.NoEval as e:
            ctx.undecided("P9", parser, q, "parser not evaluable on %r (%s)" % (":".join(given), e))
            return
        if not isinstance(got, (tuple, list)) or len(got) != len(names):
            ctx.undecided("P9", parser, q, "parser result on %r is not a %d-tuple" % (":".join(given), len(names)))
            return
        for i, fld in enumerate(fields):
            n += 1
            raw = given[i + 1] if i + 1 < k else None
            want = defaults.get(fld) if raw is None else (int(raw) if DOC_ROLE[fld] in ("key", "value") else raw)
            if raw is None and fld not in defaults:
                continue
            have = got[pos_role[DOC_ROLE[fld]]]
            if have == want and type(have) is type(want):
                ctx.ok("P9", "%s:%d" % (RG, parser.lineno), "%s of %s -> loader %s = %r" % (fld, ":".join(given), DOC_ROLE[fld], have))
            else:
                ctx.fail("P9", parser, q, "%s of %s" % (fld, ":".join(["file"] + fields[:k - 1])),
                         "for --read_group %s the loader's %s parameter receives %r; docs/cmd.md (`file:%s`) assigns it %r%s: reads are "
                         "looked up in / labelled from the wrong column" % (":".join(given), DOC_ROLE[fld], have, ":".join(fields), want,
                                                                            " (the documented default)" if raw is None else ""))
    ctx.floor("P9", "documented field x option arity cases", n, 12)


def p10(prog, ctx):
    """Every chromosome task gets a grouper of its own: the table grouper reads the chromosome's own split table, and every grouper
    collects the groups seen by its task.  create_read_grouper returns, on every path, an object constructed in that very call."""
    f = prog.func_inlined(RG, "create_read_grouper")
    classes = {c.name for _m, _q, c in prog.all_classes()}
    module_level = {t.id for st in prog.module(RG).tree.body if isinstance(st, (ast.Assign, ast.AnnAssign))
                    for t in (st.targets if isinstance(st, ast.Assign) else [st.target]) if isinstance(t, ast.Name)}
    n = 0
    seen = set()
    for pth in flow.paths(f):
        if pth.exit != "return" or pth.exit_node is None or pth.exit_node.value is None:
            continue
        e = pth.exit_node.value
        env = {}
        for st in pth.stmts():
            if isinstance(st, ast.Assign) and len(st.targets) == 1 and isinstance(st.targets[0], ast.Name):
                env[st.targets[0].id] = st.value
        hops = 0
        while isinstance(e, ast.Name) and e.id in env and hops < 5:
            e = env[e.id]
            hops += 1
        key = (pth.exit_node.lineno, src(e))
        if key in seen:
            continue
        seen.add(key)
        n += 1
        if isinstance(e, ast.Call) and (call_name(e) or "").split(".")[-1] in classes:
            ctx.ok("P10", "%s:%d" % (RG, pth.exit_node.lineno), "returns a fresh %s(...)" % call_name(e))
            continue
        roots = {x.id for x in ast.walk(e) if isinstance(x, ast.Name)}
        if isinstance(e, (ast.Subscript, ast.Attribute, ast.Name)) and roots & module_level \
                or (isinstance(e, ast.Call) and isinstance(e.func, ast.Attribute) and e.func.attr in ("get", "setdefault", "pop") and roots & module_level):
            ctx.fail("P10", pth.exit_node, "create_read_grouper", "grouper from %s" % src(e)[:60],
                     "the grouper handed to a chromosome task is taken from the module-level %s instead of being constructed for this call: "
                     "a task gets the grouper (table, labels, observed groups) made for another chromosome or experiment, and its reads "
                     "are looked up in the wrong table / reported under NA" % sorted(roots & module_level))
        else:
            ctx.undecided("P10", pth.exit_node, "create_read_grouper", "returned value %s is neither a constructor call nor taken from "
                          "module-level state" % src(e)[:60])
    ctx.floor("P10", "distinct returns of create_read_grouper", n, 5)


def p11(prog, ctx):
    """The file-name grouper finds a read's label by looking the BAM file name up in its label table.  Table keys and look-up keys are the
    same strings only if both are the file name as it stands in sample.file_list - or both went through the same normalisation."""
    cls = prog.cls(RG, "FileNameGrouper")
    init = prog.func_inlined(RG, "FileNameGrouper.__init__")
    look = prog.func_inlined(RG, "FileNameGrouper.get_group_id")

    def normalisers(e):
        return sorted({(call_name(c) or "?").split(".")[-1] for c in ast.walk(e) if isinstance(c, ast.Call)
                       and (call_name(c) or "").split(".")[-1] not in ("str",)})
    tables = {dotted(st.targets[0]) for st in walk_no_nested(init) if isinstance(st, ast.Assign) and len(st.targets) == 1
              and (dotted(st.targets[0]) or "").startswith("self.") and "name" in (dotted(st.targets[0]) or "")}
    if len(tables) != 1:
        ctx.undecided("P11", init, "FileNameGrouper.__init__", "label table attribute not identified (%s)" % sorted(tables))
        return
    table = tables.pop()
    # names the table object goes by while it is filled (a local that is assigned to the attribute at the end)
    aliases = {table}
    for st in walk_no_nested(init):
        if isinstance(st, ast.Assign) and len(st.targets) == 1 and dotted(st.targets[0]) == table and isinstance(st.value, ast.Name):
            aliases.add(st.value.id)
    fill = []
    for st in ast.walk(init):
        if isinstance(st, ast.Assign) and isinstance(st.targets[0], ast.Subscript) and (dotted(st.targets[0].value) or src(st.targets[0].value)) in aliases:
            fill.append((st, normalisers(st.targets[0].slice)))
    lookups = []
    for x in ast.walk(look):
        if isinstance(x, ast.Compare) and isinstance(x.ops[0], (ast.In, ast.NotIn)) and dotted(x.comparators[0]) == table:
            lookups.append((x, normalisers(x.left)))
        if isinstance(x, ast.Subscript) and isinstance(x.ctx, ast.Load) and dotted(x.value) == table:
            lookups.append((x, normalisers(x.slice)))
    if not lookups:
        ctx.undecided("P11", look, "FileNameGrouper.get_group_id", "no look-up in %s found" % table)
        return
    n = 0
    want = {tuple(nz) for _x, nz in lookups}
    if len(want) > 1:
        ctx.fail("P11", lookups[0][0], "FileNameGrouper.get_group_id", "look-up keys %s" % sorted(want), "the label table is looked up with "
                 "differently normalised keys in one function")
    for st, nz in fill:
        n += 1
        if tuple(nz) not in want:
            ctx.fail("P11", st, "FileNameGrouper.__init__", "key %s vs look-up %s" % (nz or "as given", sorted(want)[0] or "as given"),
                     "the label table is keyed by %s while get_group_id looks the file name up %s: for a spelling the normalisation changes "
                     "(./x.bam, dir//x.bam) the label is not found and the reads are grouped under the raw file name"
                     % ("%s(file name)" % "/".join(nz) if nz else "the file name as given",
                        "through %s" % "/".join(sorted(want)[0]) if sorted(want)[0] else "as given"))
        else:
            ctx.ok("P11", "%s:%d" % (RG, st.lineno), "label table keyed by the file name %s, as in the look-up" % ("/".join(nz) or "as given"))
    n += len(lookups)
    ctx.floor("P11", "fills of / look-ups in the label table", n, 3)


def run(prog, ctx):
    ctx.rule("P11", "FileNameGrouper: the keys stored into the label table and the keys it is looked up with carry the same normalisation "
                    "calls (none on the pinned tree: the file name as it stands in sample.file_list)")
    p11(prog, ctx)
    ctx.rule("P10", "every path of create_read_grouper returns the result of a grouper class's constructor called on that path (through "
                    "locals), never an object kept in module-level state")
    p10(prog, ctx)
    ctx.rule("P9", "the parser of `--read_group file:FILE:READ_COL:GROUP_COL:DELIM` (decision table over the documented arities) hands each "
                   "field, or its documented default, to the load_table parameter that plays the documented role (key column = read ids, "
                   "stored column = group ids, split delimiter, opened file)")
    p9(prog, ctx)
    ctx.rule("P7", "file provenance: every make_alignment_tuple(i, a) in BAMOnlineMerger takes a from iterator number i of a sequence built "
                   "element-for-element from self.bam_pairs (or re-uses the index slot of the queue element it replaces); get() yields the "
                   "(index, alignment) slots; get_group_id(alignment, bam_pairs[i][1]) uses the (i, alignment) pair of its own loop")
    p7(prog, ctx)
    ctx.rule("P8", "the read groups a chromosome contributes to the group universe are written to its *_groups file by the collection stage "
                   "and, when --resume reuses the chromosome, the returned set depends on what is read from that file (rule R9 of C07, "
                   "restricted to the group element)")
    from . import c07 as _c07
    _c07.r9(prog, ctx, tag="P8", positions=(0,))
    ctx.rule("P6", "in split_read_group_table the 'already written' set consulted before a write to files[k] is indexed by the same k")
    p6(prog, ctx)
    ctx.rule("P4", "statements controlled by a rendering flag (self.output_grouped_*) are writes to a file or assignments to names used "
                   "only inside that block - row selection and totals are independent of --counts_format")
    ctx.rule("P5", "every read of <v>.read_group with v a for-loop variable lies inside that loop (no stale loop variable)")
    p4(prog, ctx)
    p5(prog, ctx)
    ctx.rule("P1", "path enumeration of every get_group_id sibling (subclasses of AbstractReadGrouper handed out by "
                   "create_read_grouper): each non-raising path returns a non-None value that was added to self.read_groups on "
                   "that path or is the constructor's constant group")
    ctx.rule("P2", "a dict filled by 'for i, k in enumerate(X): D[k] = i' whose numbers index a list L of the same class requires "
                   "X to be L itself or the expression L is defined by")
    ctx.rule("P3", "the counted group is default when groups are ignored, else the read's own group; all increments use it; "
                   "linear and matrix renderings read the same table through the inverse tables")
    p1(prog, ctx)
    p2(prog, ctx)
    p3(prog, ctx)
    ctx.assume("per-feature sums and matrix/linear triple equality are value-level and not decided")
