"""C18 - strand / canonical flags are pure functions of the reference (structural part).

K1 memo-key soundness: the value stored by a lookup-or-compute memo depends only on its key,
   the memo's owner (construction-time constants) and run constants
K2 sibling agreement on case normalisation of splice-site dinucleotides
"""
import ast

from ..engine.program import AnalysisError, dotted, src, walk_no_nested, enclosing_function, call_name
from ..engine import flow

RUN_CONSTANTS = ("self.params", "params", "self.args", "args")   # frozen alias: the argparse namespace, fixed per run


from ..engine.dataflow import _names_loaded, local_defs, reaching_defs, dependency_roots  # noqa: E402


def find_memos(prog):
    """(module, qualname, func, D-text, K-node, store-stmt, guard-if) for `if K not in D: ... D[K] = V`."""
    out = []
    for m, q, f in prog.all_functions():
        for node in walk_no_nested(f):
            if not isinstance(node, ast.If):
                continue
            t = node.test
            neg = False
            if isinstance(t, ast.UnaryOp) and isinstance(t.op, ast.Not):
                t = t.operand
                neg = True
            if not (isinstance(t, ast.Compare) and len(t.ops) == 1):
                continue
            if isinstance(t.ops[0], ast.NotIn) and not neg or isinstance(t.ops[0], ast.In) and neg:
                K, D = t.left, t.comparators[0]
            else:
                continue
            for st in ast.walk(ast.Module(body=node.body, type_ignores=[])):
                if isinstance(st, ast.Assign) and isinstance(st.targets[0], ast.Subscript) \
                        and src(st.targets[0].value) == src(D) and src(st.targets[0].slice) == src(K):
                    out.append((m, q, f, D, K, st, node))
    return out


def classify_memo(prog, f, D, K, store, guard_if):
    """'lookup' (pure value cached in an object attribute), 'allocation' (fresh number / history-dependent
    by design), 'accumulator' (first-seen registration that is updated later) or 'local' (dict local to one call)."""
    v = store.value
    if dotted(D) is None or "." not in dotted(D):
        return "local"
    want = "%s[%s]" % (src(D), src(K))
    # accumulator / first-seen registration
    if isinstance(v, (ast.List, ast.Dict, ast.Set, ast.Constant, ast.ListComp)) or \
            (isinstance(v, ast.Call) and call_name(v) in ("set", "list", "dict", "defaultdict", "open", "IncrementalDict")):
        return "accumulator"
    for st in ast.walk(ast.Module(body=guard_if.orelse, type_ignores=[])):
        if isinstance(st, (ast.Assign, ast.AugAssign)):
            for t in (st.targets if isinstance(st, ast.Assign) else [st.target]):
                if src(t) == want:
                    return "accumulator"
    for n in walk_no_nested(f):
        if isinstance(n, ast.AugAssign) and src(n.target) == want:
            return "accumulator"
    # allocation: the value's cone contains a counter (x.increment(), an attribute/variable advanced with +=) or the memo itself
    inter = set()
    cone = dependency_roots(f, [v], visited=inter)
    cone_txt = [src(v)] + [x[1:] for x in inter if x.startswith("=")]
    if any(".increment()" in t for t in cone_txt):
        return "allocation"
    cls = getattr(f, "_class", None)
    aug = set()
    for scope in ([cls] if cls is not None else [f]):
        for n in ast.walk(scope):
            if isinstance(n, ast.AugAssign) and dotted(n.target):
                aug.add(".".join(dotted(n.target).split(".")[:2]))
    if cone & aug:
        return "allocation"
    if any(src(D) in t for t in cone_txt):
        return "allocation"       # value derived from earlier entries of the same table (index building)
    return "lookup"


def owner_constant_check(prog, ctx, owner_attr_names, memo_attr, where):
    """Every store to one of these attribute names (any receiver) is in a constructor or next to a memo reset."""
    for rel in sorted(prog.modules):
        for _q, f in sorted(prog.modules[rel].functions.items()):
            stores = []
            resets = False
            is_ctor = f.name == "__init__" or any("__new__" in src(n) for n in walk_no_nested(f) if isinstance(n, ast.Call))
            for n in walk_no_nested(f):
                targets = n.targets if isinstance(n, ast.Assign) else ([n.target] if isinstance(n, ast.AugAssign) else [])
                for t in targets:
                    for x in ast.walk(t):
                        if isinstance(x, ast.Attribute) and isinstance(x.ctx, ast.Store):
                            if x.attr in owner_attr_names:
                                stores.append((x, n))
                            if x.attr == memo_attr:
                                resets = True
            for x, st in stores:
                if is_ctor or resets:
                    ctx.ok("K1", "%s:%d" % (rel, st.lineno), "%s.%s set in %s (%s)" % (
                        where, x.attr, f._qualname, "constructor" if is_ctor else "also resets " + memo_attr))
                else:
                    ctx.fail("K1", st, f._qualname, src(st),
                             "%s is an input of the values memoised in %s but is reassigned here without clearing the memo"
                             % (x.attr, memo_attr))


def k1(prog, ctx):
    memos = find_memos(prog)
    n_lookup = 0
    census = {}
    for m, q, f, D, K, store, gif in memos:
        kind = classify_memo(prog, f, D, K, store, gif)
        census.setdefault(kind, []).append("%s:%s %s" % (m.rel, q, src(D)))
        if kind != "lookup":
            continue
        n_lookup += 1
        owner = dotted(D).split(".")[0] if dotted(D) else None
        memo_attr = dotted(D).split(".")[-1] if dotted(D) else src(D)
        # all stores D[K] = V under this guard
        stores = [st for st in ast.walk(ast.Module(body=gif.body, type_ignores=[]))
                  if isinstance(st, ast.Assign) and isinstance(st.targets[0], ast.Subscript)
                  and src(st.targets[0].value) == src(D) and src(st.targets[0].slice) == src(K)]
        key_roots = dependency_roots(f, [K])
        # the key may be a projection (obj.id, obj[0]) of a local object: whatever that object is computed from is covered by the key as well
        kb = K
        while isinstance(kb, (ast.Attribute, ast.Subscript)):
            kb = kb.value
        if isinstance(kb, ast.Name) and kb is not K:
            key_roots = set(key_roots) | dependency_roots(f, [kb], at=store)
        dep = set()
        for st in stores:
            dep |= dependency_roots(f, [st.value])
            if len(stores) < 2:
                continue           # one store: the guards decide WHETHER the value is remembered, not WHAT is remembered
            for g in flow.guards_of(st, stop=f):
                if g.test is gif.test:
                    continue
                dep |= dependency_roots(f, [g.test])
        allowed_attrs = set()
        bad = []
        for r in sorted(dep):
            base = r.split(".")[0]
            if r in key_roots or base in {k.split(".")[0] for k in key_roots if k.split(".")[0] not in ("self", owner)}:
                continue      # same variable as the key is derived from (the key may be a projection of it, e.g. obj.id)
            if r.startswith(RUN_CONSTANTS) or base in ("params", "args"):
                continue
            if base == owner or (owner == "self" and r.startswith("self.")):
                if "." in r:
                    allowed_attrs.add(r.split(".")[1])
                continue
            if base[:1].isupper() or r.isupper():
                continue     # module constants / classes
            if base in m.imports or base in m.functions or base in ("len", "str", "int", "abs", "min", "max", "tuple", "sorted"):
                continue
            bad.append(r)
        allowed_attrs.discard(memo_attr)
        if bad:
            ctx.fail("K1", store, q, "%s[%s] = %s" % (src(D), src(K), src(store.value)),
                     "memo %s is keyed by %s only, but the stored value also depends on %s: a later lookup with a different %s "
                     "gets the value computed for the first one" % (src(D), src(K), ", ".join(bad), "/".join(bad)))
        else:
            ctx.ok("K1", "%s:%d" % (m.rel, store.lineno), "memo %s keyed by %s covers all inputs %s" % (src(D), src(K), sorted(dep)))
        if allowed_attrs:
            owner_constant_check(prog, ctx, allowed_attrs, memo_attr, src(D))
    ctx.extra["memo_census"] = census
    # the anchored memos must be among the analysed ones
    analysed = " ".join(census.get("lookup", []))
    for need in ("canonical_sites", "strand_dict", "scores"):
        if need not in analysed:
            raise AnalysisError("memo %s is no longer recognised as a lookup-or-compute memo (census: %s)" % (need, census))
    ctx.floor("K1", "lookup-or-compute memos", n_lookup, 3)
    # whole-dict memo: GeneInfo.get_gene_regions returns the cached dict if non-empty
    f = prog.func("src/gene_info.py", "GeneInfo.get_gene_regions")
    dep = set()
    for n in walk_no_nested(f):
        if isinstance(n, ast.Assign) and isinstance(n.targets[0], ast.Subscript) and "gene_regions" in src(n.targets[0]):
            dep |= dependency_roots(f, [n.value, n.targets[0].slice])
    loopvars = {}
    for n in walk_no_nested(f):
        if isinstance(n, ast.For) and isinstance(n.target, ast.Name):
            loopvars[n.target.id] = _names_loaded(n.iter)
    extra = set()
    for d in dep:
        base = d.split(".")[0]
        if d.startswith("self") or (base in loopvars and all(x.startswith("self") for x in loopvars[base])):
            continue
        extra.add(d)
    if extra:
        ctx.fail("K1", f, f._qualname, "self.gene_regions", "gene_regions cache depends on %s besides the object itself" % sorted(extra))
    else:
        ctx.ok("K1", "src/gene_info.py:%d" % f.lineno, "gene_regions cache depends only on self.gene_db_list")
        owner_constant_check(prog, ctx, {"gene_db_list"}, "gene_regions", "self.gene_regions")


def k2(prog, ctx, tag="K2"):
    sites = []
    for rel in sorted(prog.modules):
        for node in ast.walk(prog.modules[rel].tree):
            if isinstance(node, ast.Compare) and isinstance(node.ops[0], (ast.In, ast.NotIn)) \
                    and dotted(node.comparators[0]) in ("CANONICAL_FWD_SITES", "CANONICAL_REV_SITES"):
                sites.append(node)
    by_func = {}
    for c in sites:
        f = enclosing_function(c)
        by_func.setdefault(f, []).append(c)
    from ..engine.argswap import bind_args

    def upper_in(x):
        return any(isinstance(n, ast.Call) and isinstance(n.func, ast.Attribute) and n.func.attr == "upper" for n in ast.walk(x))

    def helper_normalises(call):
        """the operands come from a helper of the project: does THIS call get upper-cased dinucleotides back?"""
        cands = [g for _m, gq, g in prog.all_functions() if gq.split(".")[-1] == (call_name(call) or "").split(".")[-1]]
        if len(cands) != 1:
            return None
        h = cands[0]
        bound = bind_args(call, h)
        params = [a.arg for a in h.args.args]
        defaults = dict(zip(params[len(params) - len(h.args.defaults):], h.args.defaults))
        verdict = None
        for pth in flow.paths(h):
            if pth.exit != "return" or pth.exit_node is None or pth.exit_node.value is None:
                continue
            feasible = True
            for t, pol in pth.conds():
                if isinstance(t, ast.Name) and t.id in params:
                    v = bound.get(t.id, defaults.get(t.id))
                    if isinstance(v, ast.Constant) and bool(v.value) != pol:
                        feasible = False
                    elif not isinstance(v, ast.Constant):
                        return None
            if not feasible:
                continue
            hdefs = local_defs(h)
            rv = pth.exit_node.value
            elts_ = rv.elts if isinstance(rv, ast.Tuple) else [rv]
            ok_ = all(upper_in(e_) or (isinstance(e_, ast.Name) and e_.id in hdefs and all(upper_in(v_) for _k, v_, _s in hdefs[e_.id])) for e_ in elts_)
            verdict = ok_ if verdict is None else (verdict and ok_)
        return verdict
    verdicts = {}
    for f, cs in by_func.items():
        defs = local_defs(f)
        normalised = True
        for c in cs:
            elts = c.left.elts if isinstance(c.left, ast.Tuple) else [c.left]
            for e in elts:
                exprs = [e]
                if isinstance(e, ast.Name) and e.id in defs:
                    exprs = [v for _k, v, _s in defs[e.id]]
                for x in exprs:
                    if upper_in(x):
                        continue
                    hv = helper_normalises(x) if isinstance(x, ast.Call) and prog.try_func(f._module.rel, (call_name(x) or "").split(".")[-1]) is not None else None
                    if hv is not True:
                        normalised = False
        verdicts[f] = normalised
    # is the function used by the pipeline?
    def used(f):
        name = f.name
        for rel in sorted(prog.modules):
            for n in ast.walk(prog.modules[rel].tree):
                if isinstance(n, ast.Call):
                    d = dotted(n.func)
                    if d and d.split(".")[-1] == name and enclosing_function(n) is not f:
                        # method vs function with the same name: module-level functions are called bare or imported
                        if getattr(f, "_class", None) is None and "." in d and not d.startswith(("common.", "src.")):
                            continue
                        return True
        return False
    ref = [f for f, v in verdicts.items() if v]
    if not ref:
        ctx.undecided(tag, sites[0] if sites else prog.module("src/common.py").tree, "splice-site comparisons",
                      "no splice-site comparison upper-cases its operands: the reference implementation get_intron_strand changed")
        return
    n = 0
    for f, v in sorted(verdicts.items(), key=lambda kv: kv[0].lineno):
        rel = f._module.rel
        if v:
            ctx.ok(tag, "%s:%d" % (rel, f.lineno), "%s upper-cases the dinucleotides before comparing with CANONICAL_*_SITES" % f._qualname)
            n += 1
        elif used(f):
            ctx.fail(tag, by_func[f][0], f._qualname, src(by_func[f][0]),
                     "%s compares reference dinucleotides with CANONICAL_*_SITES without upper-casing, while %s upper-cases "
                     "them: a soft-masked (lower-case) gt..ag intron is canonical for one and not for the other"
                     % (f._qualname, ref[0]._qualname))
            n += 1
        else:
            ctx.note(tag + ": %s:%s does not normalise case but is not called from the pipeline closure (reported, not armed)"
                     % (rel, f._qualname))
    ctx.floor(tag, "armed splice-site comparison functions", n, 2)


def k3(prog, ctx, tag="K3"):
    """CANONICAL_REV_SITES must be exactly the reverse complement of CANONICAL_FWD_SITES."""
    m = prog.module("src/common.py")
    fwd, rev = m.assigns.get("CANONICAL_FWD_SITES"), m.assigns.get("CANONICAL_REV_SITES")
    if not isinstance(fwd, ast.Set) or not isinstance(rev, ast.Set):
        raise AnalysisError("CANONICAL_FWD_SITES / CANONICAL_REV_SITES set literals not found in src/common.py")
    try:
        F = {ast.literal_eval(e) for e in fwd.elts}
        R = {ast.literal_eval(e) for e in rev.elts}
    except Exception:
        raise AnalysisError("canonical site tables are not literal")
    comp = {"A": "T", "C": "G", "G": "C", "T": "A"}
    rc = lambda s_: "".join(comp[c] for c in reversed(s_))
    want = {(rc(r), rc(l)) for l, r in F}
    for pair in sorted(want - R):
        ctx.fail(tag, rev, "<module>", "CANONICAL_REV_SITES lacks %s" % (pair,),
                 "the minus-strand table lacks %s, the reverse complement of forward pair %s: such introns get no strand and "
                 "Canonical=False" % (pair, (rc(pair[1]), rc(pair[0]))))
    for pair in sorted(R - want):
        ctx.fail(tag, rev, "<module>", "CANONICAL_REV_SITES has %s" % (pair,),
                 "minus-strand pair %s is not the reverse complement of any forward canonical pair" % (pair,))
    if want == R:
        ctx.ok(tag, "src/common.py:%d" % rev.lineno, "REV table == reverse complement of FWD table: %s" % sorted(R))
    if any(x != x.upper() for p_ in F | R for x in p_):
        ctx.fail(tag, fwd, "<module>", "canonical tables", "canonical tables contain lower-case entries but comparisons upper-case the reference")
    ctx.extra["exhaustive"] = True


def k4(prog, ctx):
    """The reference window that check_sites_are_canonical indexes must cover every read handed to stage 2."""
    AIO = "src/assignment_io.py"
    # who indexes the window relative to all_read_region_start
    users = []
    for m, q, f in prog.all_functions():
        for n in walk_no_nested(f):
            if isinstance(n, ast.Subscript) and isinstance(n.value, ast.Attribute) and n.value.attr == "reference_region" \
                    and isinstance(n.slice, ast.Slice):
                users.append((m, q, n))
    if not users:
        raise AnalysisError("no user of gene_info.reference_region found")
    f = prog.func(AIO, "NormalTmpFileAssignmentLoader.get_object")
    # branch that deserialises a read assignment
    des = [s for s in walk_no_nested(f) if isinstance(s, ast.Assign) and "ReadAssignment.deserialize(" in src(s.value)]
    if len(des) != 1:
        raise AnalysisError("NormalTmpFileAssignmentLoader.get_object: read deserialisation not found")
    var = src(des[0].targets[0])
    blk = des[0]._parent.body
    after = [s for s in blk if s.lineno > des[0].lineno]
    from ..engine.dataflow import local_defs
    defs = local_defs(f)
    calls = [c for s in after for c in ast.walk(s) if isinstance(c, ast.Call) and isinstance(c.func, ast.Attribute)
             and c.func.attr == "set_reference_sequence"]
    ok = False
    why = "no call to set_reference_sequence after a read is loaded"
    for c in calls:
        if len(c.args) < 3:
            continue
        def resolve(e):
            if isinstance(e, ast.Name) and e.id in defs and len(defs[e.id]) == 1:
                return defs[e.id][0][1]
            return e
        a, b = resolve(c.args[0]), resolve(c.args[1])
        ta, tb = src(a), src(b)
        ok_a = ta.startswith("min(") and "all_read_region_start" in ta and "%s.exons[0][0]" % var in ta
        ok_b = tb.startswith("max(") and "all_read_region_end" in tb and "%s.exons[-1][1]" % var in tb
        if ok_a and ok_b and "chr_record" in src(c.args[2]):
            ok = True
        else:
            why = "window set to (%s, %s)" % (ta, tb)
    if not ok:
        ctx.fail("K4", des[0], f._qualname, src(des[0]),
                 "a read assignment is handed to the second stage without the gene's reference window being widened to the read's "
                 "own span (%s); %d sites index reference_region relative to all_read_region_start, so introns outside the gene get "
                 "wrong dinucleotides and a wrong Canonical flag" % (why, len(users)))
    else:
        ctx.ok("K4", "%s:%d" % (AIO, des[0].lineno), "loader widens the reference window to min/max with each loaded read's span "
               "(%d indexing sites depend on it)" % len(users))
    # set_reference_sequence must clear the memo and slice [start-1 : end]
    srs = prog.func("src/gene_info.py", "GeneInfo.set_reference_sequence")
    t = src(srs)
    if "self.canonical_sites = {}" not in t or "chr_record[self.all_read_region_start - 1:self.all_read_region_end]" not in t:
        ctx.fail("K4", srs, srs._qualname, "set_reference_sequence", "window setter no longer slices [start-1:end] and clears the canonical memo")
    else:
        ctx.ok("K4", "src/gene_info.py:%d" % srs.lineno, "window setter slices [start-1:end] and clears the canonical memo")
    # indexing sites use offsets relative to the same window start
    for m, q, n in users:
        fn = enclosing_function(n)
        offs = [d for d in walk_no_nested(fn) if isinstance(d, ast.Assign) and "all_read_region_start" in src(d.value)]
        if not offs and "all_read_region_start" not in src(fn):
            ctx.fail("K4", n, q, src(n)[:80], "reference_region is indexed without an offset relative to all_read_region_start")
        else:
            ctx.ok("K4", "%s:%d" % (m.rel, n.lineno), "%s indexes the window relative to all_read_region_start" % q)


def k4_sites(prog, ctx):
    """Every place that sets a reference window sets it to the scope the genes were fetched for (or restores / widens it)."""
    n = 0
    for m, q, f in prog.all_functions():
        if q == "GeneInfo.set_reference_sequence":
            continue
        for c in walk_no_nested(f):
            if not isinstance(c, ast.Call):
                continue
            cn = call_name(c) or ""
            if cn.endswith(".set_reference_sequence") and len(c.args) >= 2:
                a, b = c.args[0], c.args[1]
                recv = src(c.func.value)
            elif cn.endswith("GeneInfo.from_region") and len(c.args) >= 3 and (len(c.args) >= 5 or any(k.arg == "chr_record" for k in c.keywords)):
                a, b = c.args[1], c.args[2]
                recv = None
            else:
                continue
            n += 1
            ta, tb = src(a), src(b)
            # scope of the gene fetch in the same function
            fetch = [x for x in walk_no_nested(f) if isinstance(x, ast.Call) and isinstance(x.func, ast.Attribute) and x.func.attr == "region"
                     and any(k.arg == "featuretype" for k in x.keywords)]
            kinds = []
            for x in fetch:
                kw = {k.arg: src(k.value) for k in x.keywords}
                if kw.get("start") == "1" and "end" not in kw:
                    kinds.append(("1", "len(chr_record)"))
                elif "start" in kw and "end" in kw:
                    kinds.append((kw["start"], kw["end"]))
            defs = {}
            for st in walk_no_nested(f):
                if isinstance(st, ast.Assign) and len(st.targets) == 1 and isinstance(st.targets[0], ast.Name):
                    defs.setdefault(st.targets[0].id, []).append(st.value)
            ra = src(defs[ta][0]) if ta in defs and len(defs[ta]) == 1 else ta
            rb = src(defs[tb][0]) if tb in defs and len(defs[tb]) == 1 else tb
            if kinds and ((ta, tb) in kinds or (ra, rb) in kinds):
                ctx.ok("K4", "%s:%d" % (m.rel, c.lineno), "%s: window (%s, %s) = the scope the genes were fetched for" % (q, ta, tb))
            elif recv and ta == recv + ".all_read_region_start" and tb == recv + ".all_read_region_end":
                ctx.ok("K4", "%s:%d" % (m.rel, c.lineno), "%s: restores the stored window of the same object" % q)
            elif ra.startswith("min(") and "all_read_region_start" in ra and rb.startswith("max(") and "all_read_region_end" in rb:
                ctx.ok("K4", "%s:%d" % (m.rel, c.lineno), "%s: widens the current window (min/max)" % q)
            else:
                ctx.fail("K4", c, q, src(c)[:100], "the reference window is set to (%s, %s), which is neither the scope the genes of this "
                         "function are fetched for %s, nor the stored window, nor a min/max widening of it: features checked against this "
                         "gene_info outside (%s, %s) read wrong dinucleotides (or none) and get a wrong Canonical flag / strand"
                         % (ta, tb, kinds or "(no fetch here)", ta, tb))
    ctx.floor("K4", "reference-window setting sites", n, 5)


def run(prog, ctx):
    ctx.rule("K4", "the stage-2 loader widens gene_info's reference window (set_reference_sequence(min(start, read start), max(end, "
                   "read end), chr_record)) for every loaded read before handing it on; all users index relative to that window; every "
                   "site that sets a window sets it to the scope its genes were fetched for, restores the stored one, or widens it")
    k4(prog, ctx)
    k4_sites(prog, ctx)
    ctx.rule("K3", "CANONICAL_REV_SITES equals the reverse complement of CANONICAL_FWD_SITES, entry by entry (literal tables evaluated)")
    k3(prog, ctx)
    ctx.rule("K1", "for every lookup-or-compute memo (if k not in D: D[k] = v; ... D[k] read back), the data- and control-"
                   "dependence cone of v inside the function is covered by the key, the memo's owner object (whose consulted "
                   "attributes are only assigned in constructors or together with a memo reset) and run constants")
    ctx.rule("K2", "all functions comparing reference dinucleotides with CANONICAL_FWD/REV_SITES normalise case the same way "
                   "as get_intron_strand (upper-case); contradiction between sibling implementations")
    k1(prog, ctx)
    k2(prog, ctx)
    ctx.assume("agreement of model strand with evidence is graph-dependent and not decided")
    ctx.assume("params/args attributes are constant during a run (frozen alias args = params = self.params)")
