"""C16 - alignment records become exon blocks per SAM semantics (structural part).

Q1 the CIGAR op -> (consumes query, consumes reference) table realised by the walkers equals the SAM table,
   in every branch an op can take; only N and S close a block; a block is recorded only if it has a match
Q2 the parallel block lists are trimmed identically and the read span is recomputed after trimming
"""
import ast

from ..engine.program import AnalysisError, dotted, src, walk_no_nested, call_name
from ..engine import flow, symexec

COMMON = "src/common.py"

# SAM specification, section 1.4.6: op -> (consumes query, consumes reference)
SAM = {"match": (1, 1), "insertion": (1, 0), "deletion": (0, 1), "skipped": (0, 1), "soft_clipping": (1, 0),
       "hard_clipping": (0, 0), "padding": (0, 0), "seq_match": (1, 1), "seq_mismatch": (1, 1)}
SAM_CODE = {"match": 0, "insertion": 1, "deletion": 2, "skipped": 3, "soft_clipping": 4, "hard_clipping": 5,
            "padding": 6, "seq_match": 7, "seq_mismatch": 8}


def cigar_enum(prog):
    c = prog.cls(COMMON, "CigarEvent")
    members = {}
    helpers = {}
    for st in c.body:
        if isinstance(st, ast.Assign) and isinstance(st.targets[0], ast.Name) and isinstance(st.value, ast.Constant):
            members[st.targets[0].id] = st.value.value
        elif isinstance(st, ast.FunctionDef):
            ret = [s for s in st.body if isinstance(s, ast.Return)]
            v = ret[0].value if ret else None
            hops = 0
            while v is not None and hops < 4:
                hops += 1
                if isinstance(v, ast.Name) and v.id in prog.module(COMMON).assigns:
                    v = prog.module(COMMON).assigns[v.id]         # a set built once at module level
                elif isinstance(v, ast.Call) and call_name(v) in ("frozenset", "set", "tuple", "list") and len(v.args) == 1:
                    v = v.args[0]
                else:
                    break
            if isinstance(v, (ast.Set, ast.List, ast.Tuple)):
                helpers[st.name] = {dotted(e).split(".")[-1] for e in v.elts if dotted(e)}
    return members, helpers


class Walker:
    """Evaluates the branch structure of a CIGAR loop body for one op and one block state."""

    def __init__(self, members, helpers, event_var, state_var, qcur, rcur, names=None):
        self.members = members
        self.helpers = helpers
        self.unknown_tests = []
        self.names = names or {}          # plain names standing for op sets / op codes: locals of the walker, module constants
        self.by_code = {v: k for k, v in members.items()}
        self.event_var = event_var
        self.state_var = state_var
        self.qcur = qcur
        self.rcur = rcur

    def opset(self, node, depth=0):
        if depth > 4:
            return None
        if isinstance(node, ast.Name) and node.id in self.names:
            return self.opset(self.names[node.id], depth + 1)
        if isinstance(node, ast.Call) and call_name(node) in ("set", "frozenset", "tuple", "list") and len(node.args) == 1:
            return self.opset(node.args[0], depth + 1)
        if isinstance(node, (ast.Set, ast.List, ast.Tuple)):
            out = set()
            for e in node.elts:
                hops = 0
                while isinstance(e, ast.Name) and e.id in self.names and hops < 4:
                    e = self.names[e.id]
                    hops += 1
                d = dotted(e)
                if d and d.endswith(".value"):
                    d = d[:-len(".value")]
                if isinstance(e, ast.Constant) and isinstance(e.value, int):
                    out.add(self.by_code.get(e.value, "code%d" % e.value))
                elif d and d.split(".")[-1] in self.members:
                    out.add(d.split(".")[-1])
                else:
                    return None
            return out
        if isinstance(node, ast.Call) and dotted(node.func) and dotted(node.func).split(".")[-1] in self.helpers:
            return set(self.helpers[dotted(node.func).split(".")[-1]])
        return None

    def ev(self, test, op, state):
        """True / False / None (unknown)."""
        if isinstance(test, ast.BoolOp):
            vals = [self.ev(v, op, state) for v in test.values]
            if isinstance(test.op, ast.And):
                if any(v is False for v in vals):
                    return False
                return True if all(v is True for v in vals) else None
            if any(v is True for v in vals):
                return True
            return False if all(v is False for v in vals) else None
        if isinstance(test, ast.UnaryOp) and isinstance(test.op, ast.Not):
            v = self.ev(test.operand, op, state)
            return None if v is None else not v
        if isinstance(test, ast.Constant):
            return bool(test.value)
        if isinstance(test, ast.Name) and test.id == self.state_var:
            return state == "open"
        if isinstance(test, ast.Compare) and len(test.ops) == 1:
            l, r, o = test.left, test.comparators[0], test.ops[0]
            if isinstance(l, ast.Name) and l.id == self.state_var and isinstance(r, ast.Constant) and r.value is None:
                if isinstance(o, ast.Is):
                    return state == "closed"
                if isinstance(o, ast.IsNot):
                    return state == "open"
            if isinstance(l, ast.Name) and l.id == self.event_var:
                if isinstance(o, (ast.Eq, ast.NotEq)):
                    s = self.opset(ast.Tuple(elts=[r], ctx=ast.Load()))
                    if s is not None:
                        v = op in s
                        return v if isinstance(o, ast.Eq) else not v
                if isinstance(o, (ast.In, ast.NotIn)):
                    s = self.opset(r)
                    if s is not None:
                        v = op in s
                        return v if isinstance(o, ast.In) else not v
        return None

    def run(self, stmts, op, state):
        """All outcomes: list of dicts {q:[amount exprs], r:[...], closes, opens, records:[(node, guarded)], breaks}."""
        outs = [dict(q=[], r=[], closes=False, opens=False, records=[], breaks=False, has_match_guard=[])]
        for st in stmts:
            new = []
            for o in outs:
                if o["breaks"]:
                    new.append(o)
                    continue
                new.extend(self.step(st, op, state, o))
            outs = new
        return outs

    def step(self, st, op, state, o):
        def clone(o):
            return dict(q=list(o["q"]), r=list(o["r"]), closes=o["closes"], opens=o["opens"], records=list(o["records"]),
                        breaks=o["breaks"], has_match_guard=list(o["has_match_guard"]))
        if isinstance(st, ast.If):
            v = self.ev(st.test, op, state)
            if v is None and any(isinstance(x, ast.Name) and x.id == self.event_var for x in ast.walk(st.test)):
                self.unknown_tests.append(st.test)      # a test of the op that could not be evaluated: the outcome is not a verdict
            res = []
            if v is not False:
                o2 = clone(o)
                if "has_match" in src(st.test):
                    o2["has_match_guard"].append(st)
                for x in self.run_from(st.body, op, state, o2):
                    res.append(x)
            if v is not True:
                for x in self.run_from(st.orelse, op, state, clone(o)):
                    res.append(x)
            return res
        o = clone(o)
        if isinstance(st, ast.AugAssign) and isinstance(st.op, ast.Add) and isinstance(st.target, ast.Name):
            if st.target.id == self.qcur:
                o["q"].append(src(st.value))
            elif st.target.id == self.rcur:
                o["r"].append(src(st.value))
        elif isinstance(st, ast.Assign) and isinstance(st.targets[0], ast.Name) and st.targets[0].id == self.state_var:
            if isinstance(st.value, ast.Constant) and st.value.value is None:
                o["closes"] = True
            else:
                o["opens"] = True
        elif isinstance(st, ast.Expr) and isinstance(st.value, ast.Call) and isinstance(st.value.func, ast.Attribute) \
                and st.value.func.attr == "append":
            o["records"].append((st, bool(o["has_match_guard"])))
        elif isinstance(st, ast.Break):
            o["breaks"] = True
        return [o]

    def run_from(self, stmts, op, state, o):
        outs = [o]
        for st in stmts:
            new = []
            for x in outs:
                if x["breaks"]:
                    new.append(x)
                else:
                    new.extend(self.step(st, op, state, x))
            outs = new
        return outs


def _walker_names(prog, f):
    """single-definition locals of the walker (outside its loop) and module-level constants of its module"""
    names = {}
    m = getattr(f, "_module", None)
    if m is not None:
        names.update({k: v for k, v in m.assigns.items()})
    defs = {}
    for st in walk_no_nested(f):
        if isinstance(st, ast.Assign) and len(st.targets) == 1 and isinstance(st.targets[0], ast.Name):
            defs.setdefault(st.targets[0].id, []).append(st.value)
    names.update({k: v[0] for k, v in defs.items() if len(v) == 1})
    return names


def q1_read_blocks(prog, ctx, members, helpers):
    f = prog.func(COMMON, "get_read_blocks")
    loops = [s for s in f.body if isinstance(s, ast.While)]
    if len(loops) != 1:
        raise AnalysisError("get_read_blocks: expected one while loop over the CIGAR")
    loop = loops[0]
    names = {n.id for n in ast.walk(loop) if isinstance(n, ast.Name)}
    for need in ("cigar_event", "current_ref_block_start", "read_pos", "ref_pos", "event_len"):
        if need not in names:
            raise AnalysisError("get_read_blocks: variable %s not found (walker was restructured)" % need)
    w = Walker(members, helpers, "cigar_event", "current_ref_block_start", "read_pos", "ref_pos", names=_walker_names(prog, f))
    n = 0
    closers = set()
    openers = set()
    always_closes = {}
    for op in sorted(members):
        for state in ("closed", "open"):
            outs = w.run(loop.body, op, state)
            for o in outs:
                n += 1
                dq = len(o["q"])
                dr = len(o["r"])
                amounts = set(o["q"]) | set(o["r"])
                want = SAM[op]
                where = "%s:%d" % (COMMON, loop.lineno)
                if w.unknown_tests:
                    ctx.undecided("Q1", loop, "get_read_blocks", "a test of the CIGAR op could not be evaluated: %s" % src(w.unknown_tests[0])[:60])
                    return n
                if (min(dq, 1), min(dr, 1)) != want or dq > 1 or dr > 1 or (amounts and amounts != {"event_len"}):
                    ctx.fail("Q1", loop, "get_read_blocks", "op %s, block %s: read_pos += %s, ref_pos += %s" % (op, state, o["q"], o["r"]),
                             "CIGAR op %s (block %s) advances query %d time(s) and reference %d time(s) by %s; SAM says "
                             "query=%d reference=%d by the op length" % (op, state, dq, dr, sorted(amounts), want[0], want[1]))
                else:
                    ctx.ok("Q1", where, "get_read_blocks: %s/%s consumes (query=%d, ref=%d)" % (op, state, want[0], want[1]))
                if state == "open":
                    always_closes[op] = always_closes.get(op, True) and o["closes"]
                if state == "open" and o["closes"]:
                    closers.add(op)
                    # the record must be guarded by has_match and happen before the cursor of this op moves
                    if not o["records"]:
                        pass
                    for rec, guarded in o["records"]:
                        if not guarded:
                            ctx.fail("Q1", rec, "get_read_blocks", src(rec), "a block is recorded without testing has_match")
                if state == "closed" and o["opens"]:
                    openers.add(op)
                if state == "closed" and o["closes"] and False:
                    pass
    want_closers = {"skipped", "soft_clipping"}
    for op in sorted(want_closers):
        if not always_closes.get(op, False):
            ctx.fail("Q1", loop, "get_read_blocks", "op %s does not always close the open block" % op,
                     "an open exon block survives a %s op on some path: the following aligned bases are merged into the same exon" % op)
    if closers != want_closers:
        ctx.fail("Q1", loop, "get_read_blocks", "block-closing ops %s" % sorted(closers),
                 "exon blocks are closed by %s; per SAM only N (skipped) and S (soft clip) end an exon block here" % sorted(closers))
    else:
        ctx.ok("Q1", "%s:%d" % (COMMON, loop.lineno), "only N and S close a block")
    want_openers = {"match", "seq_match", "seq_mismatch", "insertion", "deletion"}
    if openers != want_openers:
        ctx.fail("Q1", loop, "get_read_blocks", "block-opening ops %s" % sorted(openers),
                 "blocks are opened by %s, expected M,=,X,I,D" % sorted(openers))
    else:
        ctx.ok("Q1", "%s:%d" % (COMMON, loop.lineno), "M,=,X,I,D open a block; N,S,H,P do not")
    # every recording append (in the loop and after it) is guarded by has_match, and records the three lists together
    appends = [c for c in walk_no_nested(f) if isinstance(c, ast.Call) and isinstance(c.func, ast.Attribute) and c.func.attr == "append"]
    groups = {}
    for c in appends:
        st = c
        while not isinstance(st, ast.stmt):
            st = st._parent
        blk = id(st._parent), tuple(g.text() for g in flow.guards_of(st, stop=f))
        groups.setdefault(blk, []).append(c)
    for blk, cs in groups.items():
        lists = sorted(dotted(c.func.value) for c in cs)
        guards = " and ".join(blk[1])
        if lists != ["cigar_blocks", "read_blocks", "ref_blocks"]:
            ctx.fail("Q1", cs[0], "get_read_blocks", src(cs[0]), "block recorded in %s only; the three parallel lists must grow together" % lists)
        elif "has_match" not in guards:
            ctx.fail("Q1", cs[0], "get_read_blocks", src(cs[0]), "block recorded without has_match guard (guards: %s)" % guards)
        else:
            ctx.ok("Q1", "%s:%d" % (COMMON, cs[0].lineno), "three parallel lists appended together under has_match")
        # coordinates: (start, pos - 1) closed interval
        for c in cs:
            a = c.args[0]
            if not (isinstance(a, ast.Tuple) and len(a.elts) == 2 and src(a.elts[1]).endswith("- 1")):
                ctx.fail("Q1", c, "get_read_blocks", src(c), "recorded block end is not 'cursor - 1' (closed interval)")
    # 1-based start: ref_pos = ref_start + 1
    init = [s for s in f.body if isinstance(s, ast.Assign) and dotted(s.targets[0]) == "ref_pos"]
    if not init or src(init[0].value) != "ref_start + 1":
        ctx.fail("Q1", f, "get_read_blocks", "ref_pos initialisation", "reference cursor does not start at ref_start + 1 (1-based)")
    else:
        ctx.ok("Q1", "%s:%d" % (COMMON, init[0].lineno), "reference cursor starts at ref_start + 1 (0-based BAM -> 1-based)")
    return n


def q1_move_ref(prog, ctx, members, helpers):
    rel = "src/polya_finder.py"
    f = prog.func(rel, "move_ref_coord_alogn_alignment")
    loops = [s for s in f.body if isinstance(s, ast.While)]
    if len(loops) != 1:
        raise AnalysisError("move_ref_coord_alogn_alignment: expected one while loop")
    loop = loops[0]
    w = Walker(members, helpers, "cigar_event", "__none__", "read_length_consumed", "reference_length_consumed", names=_walker_names(prog, f))
    n = 0
    for op in sorted(members):
        outs = w.run(loop.body, op, "open")
        for o in outs:
            n += 1
            want = SAM[op]
            dq, dr = len(o["q"]), len(o["r"])
            if o["breaks"] and op in ("soft_clipping", "hard_clipping"):
                ctx.ok("Q1", "%s:%d" % (rel, loop.lineno), "move_ref_coord: %s stops the walk (clipping on the far side)" % op)
                continue
            same_amount = (not o["q"] or not o["r"]) or o["q"] == o["r"]
            if w.unknown_tests:
                ctx.undecided("Q1", loop, "move_ref_coord_alogn_alignment", "a test of the CIGAR op could not be evaluated: %s" % src(w.unknown_tests[0])[:60])
                return n
            if (min(dq, 1), min(dr, 1)) != want or dq > 1 or dr > 1 or not same_amount:
                ctx.fail("Q1", loop, "move_ref_coord_alogn_alignment", "op %s: read += %s, ref += %s" % (op, o["q"], o["r"]),
                         "CIGAR op %s advances query by %s and reference by %s; SAM says query=%d reference=%d (same amount)"
                         % (op, o["q"], o["r"], want[0], want[1]))
            else:
                ctx.ok("Q1", "%s:%d" % (rel, loop.lineno), "move_ref_coord: %s consumes (query=%d, ref=%d)" % (op, want[0], want[1]))
    return n


# ---------------------------------------------------------------------------
# Q2: slice-chain simulation of the trimming step (self-calls inlined)
# ---------------------------------------------------------------------------

TRACKED = ("read_exons", "read_blocks", "cigar_blocks")


class _TrimState:
    def __init__(self):
        self.chain = {a: () for a in TRACKED}       # slices applied to the list since entry, in order
        self.bad = {}                               # attr -> reason it is no longer a slice of itself
        self.derived = {}                           # read_start / read_end -> value
        self.changed = False                        # self.exons_changed (False in __init__)
        self.shift_after_cut = []                   # shift_poly* calls whose list argument is shorter than the list being cut
        self.events = []

    def copy(self):
        n = _TrimState()
        n.chain, n.bad, n.derived, n.changed = dict(self.chain), dict(self.bad), dict(self.derived), self.changed
        n.shift_after_cut, n.events = list(self.shift_after_cut), list(self.events)
        return n


class _TrimSim:
    def __init__(self, prog, clsdef):
        self.prog = prog
        self.methods = prog.methods_of(clsdef)
        self.depth = 0

    def ev(self, e, env, st):
        """-> ('chain', attr, slices) | ('elem', attr, slices, index text) | ('expr', ast)"""
        if isinstance(e, ast.Attribute) and isinstance(e.value, ast.Name) and e.value.id == "self" and e.attr in TRACKED:
            return ("chain", e.attr, st.chain[e.attr])
        if isinstance(e, ast.Name) and e.id in env:
            return env[e.id]
        if isinstance(e, ast.Subscript):
            base = self.ev(e.value, env, st)
            if base[0] == "chain" and isinstance(e.slice, ast.Slice):
                return ("chain", base[1], base[2] + ("[%s]" % self.text(e.slice, env),))
            # a slice object passed around: xs[kept] with kept = slice(a, b)
            sl = e.slice
            if isinstance(sl, ast.Name) and sl.id in env and env[sl.id][0] == "expr":
                sl = env[sl.id][1]
            if base[0] == "chain" and isinstance(sl, ast.Call) and call_name(sl) == "slice":
                return ("chain", base[1], base[2] + ("[%s]" % self.text(sl, env),))
            if base[0] == "chain":
                return ("elem", base[1], base[2], "[%s]" % self.text(e.slice, env))
            if base[0] == "elem":
                return ("elem", base[1], base[2], base[3] + "[%s]" % self.text(e.slice, env))
        return ("expr", symexec.subst(e, {k: v[1] for k, v in env.items() if v[0] == "expr"}))

    def text(self, e, env):
        return src(symexec.subst(e, {k: v[1] for k, v in env.items() if v[0] == "expr"}))

    def run_function(self, f, env, st):
        """All end states of f started in st (paths enumerated; loops 0/1)."""
        outs = []
        for p in flow.paths(f):
            states = [(st.copy(), dict(env))]
            for evn in p.events:
                nxt = []
                for s, en in states:
                    nxt.extend(self.step(evn, s, en))
                states = nxt
                if not states:
                    break
            outs.extend(s for s, _e in states)
        return outs

    def step(self, evn, st, env):
        if evn[0] == "cond":
            t, pol = evn[1], evn[2]
            if isinstance(t, ast.UnaryOp) and isinstance(t.op, ast.Not):
                t, pol = t.operand, not pol
            if src(t) == "self.exons_changed" and st.changed != pol:
                return []                          # infeasible
            return [(st, env)]
        if evn[0] != "stmt":
            return [(st, env)]
        s = evn[1]
        if isinstance(s, ast.Assign):
            val = self.ev(s.value, env, st)
            for t in s.targets:
                if isinstance(t, ast.Name):
                    env[t.id] = val
                elif isinstance(t, (ast.Tuple, ast.List)):
                    for x in t.elts:
                        if isinstance(x, ast.Name):
                            env[x.id] = ("expr", ast.Name(id=x.id, ctx=ast.Load()))
                elif isinstance(t, ast.Attribute) and isinstance(t.value, ast.Name) and t.value.id == "self":
                    if t.attr in TRACKED:
                        if val[0] == "chain" and val[1] == t.attr:
                            st.chain[t.attr] = val[2]
                        elif val[0] == "chain":
                            st.bad[t.attr] = "assigned from a slice of self.%s" % val[1]
                        else:
                            st.bad[t.attr] = "assigned %s" % src(s.value)[:60]
                        st.events.append(s)
                    elif t.attr in ("read_start", "read_end"):
                        st.derived[t.attr] = val
                    elif t.attr == "exons_changed":
                        if isinstance(s.value, ast.Constant) and isinstance(s.value.value, bool):
                            st.changed = s.value.value
            for c in ast.walk(s.value):
                if isinstance(c, ast.Call) and (call_name(c) or "").startswith("shift_poly") and c.args:
                    from ..engine import argswap as _as
                    hd = self.prog.try_func("src/polya_verification.py", (call_name(c) or "").split(".")[-1])
                    exon_arg = c.args[0]
                    if hd is not None:                       # the exon list by parameter name, whatever its position
                        bnd = _as.bind_args(c, hd)
                        exon_arg = next((v for k, v in bnd.items() if "exon" in k and "count" not in k), exon_arg)
                    a = self.ev(exon_arg, env, st)
                    if a[0] != "chain" or a[1] != "read_exons":
                        st.bad.setdefault("shift", "%s is not given the exon list" % src(c)[:50])
            return [(st, env)]
        if isinstance(s, ast.Expr) and isinstance(s.value, ast.Call) and isinstance(s.value.func, ast.Attribute) \
                and isinstance(s.value.func.value, ast.Name) and s.value.func.value.id == "self" and s.value.func.attr in self.methods \
                and self.depth < 3:
            callee = self.methods[s.value.func.attr]
            params = [a.arg for a in callee.args.args][1:]
            cenv = {}
            for pn, a in zip(params, s.value.args):
                cenv[pn] = self.ev(a, env, st)
            for k in s.value.keywords:
                if k.arg:
                    cenv[k.arg] = self.ev(k.value, env, st)
            self.depth += 1
            try:
                outs = self.run_function(callee, cenv, st)
            finally:
                self.depth -= 1
            return [(o, dict(env)) for o in outs]
        return [(st, env)]


def q2(prog, ctx, tag="Q2"):
    rel = "src/alignment_info.py"
    cls = prog.cls(rel, "AlignmentInfo")
    f = prog.func(rel, "AlignmentInfo.add_polya_info")
    init = prog.func(rel, "AlignmentInfo.__init__")
    if not any(src(s) == "self.exons_changed = False" for s in walk_no_nested(init)):
        raise AnalysisError("AlignmentInfo.__init__ no longer initialises exons_changed to False")
    sim = _TrimSim(prog, cls)
    ends = sim.run_function(f, {}, _TrimState())
    n = 0
    seen = set()
    for st in ends:
        chains = tuple(st.chain[a] for a in TRACKED)
        key = (chains, tuple(sorted(st.bad.items())), tuple(sorted((k, str(v[:1]) + str(v[2:]) if v[0] != "expr" else src(v[1])) for k, v in st.derived.items())))
        if key in seen:
            continue
        seen.add(key)
        n += 1
        where = st.events[-1] if st.events else f
        desc = "; ".join("%s%s" % (a, "".join(st.chain[a])) for a in TRACKED)
        if st.bad:
            a, why = sorted(st.bad.items())[0]
            ctx.fail(tag, where, f._qualname, "%s: %s" % (a, why), "on a path of the trimming step self.%s is %s: it is no longer the "
                     "same slice of its own previous value as its sister lists, so exon i no longer corresponds to read block i" % (a, why))
            continue
        if len(set(chains)) != 1:
            ctx.fail(tag, where, f._qualname, desc,
                     "after the polyA/polyT trimming step the three parallel lists are different slices of their original values (%s): "
                     "exon i no longer corresponds to read block i / cigar block i (a trimmed terminal exon comes back, or a block is lost)" % desc)
            continue
        final = st.chain["read_exons"]
        if final:
            want = {"read_start": ("elem", "read_exons", final, "[0][0]"), "read_end": ("elem", "read_exons", final, "[-1][1]")}
            badd = [k for k in want if st.derived.get(k) != want[k]]
            if badd:
                got = st.derived.get(badd[0])
                ctx.fail(tag, where, f._qualname, "%s after %s" % (badd[0], "".join(final)),
                         "exons were trimmed (read_exons%s) but self.%s is %s: the read span must be recomputed from the list as it is after "
                         "the last trim" % ("".join(final), badd[0], "not recomputed" if got is None else
                                            ("taken from read_exons%s%s" % ("".join(got[2]), got[3]) if got[0] == "elem" else src(got[1]))))
                continue
            if not st.changed:
                ctx.fail(tag, where, f._qualname, "exons_changed", "exons were trimmed but exons_changed is not set on this path")
                continue
        ctx.ok(tag, "%s:%d" % (rel, f.lineno), "path outcome: %s; read span %s" % (desc, "recomputed from the final list" if final else "untouched"))
    ctx.floor(tag, "distinct outcomes of the trimming step", n, 4)
    # the tail position is moved with the list as it is before the cut of the same side: shift_poly* is called before the cut in its block
    for m, q, g in prog.all_functions():
        if m.rel != rel:
            continue
        for blk_owner in ast.walk(g):
            body = getattr(blk_owner, "body", None)
            if not isinstance(body, list):
                continue
            cuts = [s for s in body if isinstance(s, ast.Assign) and dotted(s.targets[0]) == "self.read_exons" and isinstance(s.value, ast.Subscript)]
            shifts = [s for s in body if any(isinstance(c, ast.Call) and (call_name(c) or "").startswith("shift_poly") for c in ast.walk(s))]
            if cuts and shifts and max(s.lineno for s in shifts) > min(s.lineno for s in cuts):
                ctx.fail(tag, cuts[0], q, src(cuts[0]), "the exon list is cut before the tail position is moved onto the retained exon (shift_poly*)")
    # correct_read_info never lets the two counts consume all exons (see q2_guard)
    q2_guard(prog, ctx, tag)


def _upper_bound(constraints):
    """Largest integer s allowed by a conjunction of constraints  s + c (op) 0  (op as text), or None when unbounded above."""
    hi = None
    for c, op in constraints:
        b = {"==": -c, "<": -c - 1, "<=": -c}.get(op)
        if b is not None:
            hi = b if hi is None else min(hi, b)
    return hi


_NEG = {"==": "!=", "!=": "==", "<": ">=", ">=": "<", ">": "<=", "<=": ">"}
_OPS = {ast.Eq: "==", ast.NotEq: "!=", ast.Lt: "<", ast.LtE: "<=", ast.Gt: ">", ast.GtE: ">="}


def q2_guard(prog, ctx, tag):
    """On every path of correct_read_info that returns counts, the path condition must imply
           returned polyA count + returned polyT count < len(read_exons)
    (linear reasoning over s = found polyA count + found polyT count - len(read_exons); loops taken 0 or 1 times, the exit of a while
    loop contributes the negation of its test), both counts are only ever changed by the same amount (so that a count driven below zero,
    which the caller treats as zero, means the other one was reduced as well), and each counter is bounded by the number of exons
    (initialised to 0, incremented by one at most once per iteration of a loop over range(len(read_exons)))."""
    from ..engine import linform as _lf
    rel = "src/polya_verification.py"
    cf = prog.func(rel, "PolyAFixer.correct_read_info")
    exons_param = cf.args.args[1].arg
    checked = 0
    problem = None
    for pth in flow.paths(cf):
        rv_ = pth.exit_node.value if pth.exit == "return" and pth.exit_node is not None else None
        if isinstance(rv_, ast.Call) and len(rv_.args) == 2 and not rv_.keywords and isinstance(rv_.func, ast.Name) and rv_.func.id[:1].isupper():
            rv_ = ast.Tuple(elts=list(rv_.args), ctx=ast.Load())          # a two-field record (namedtuple) instead of a pair
        if not isinstance(rv_, ast.Tuple) or len(rv_.elts) != 2:
            continue
        if all(isinstance(e, ast.Constant) and e.value == 0 for e in rv_.elts):
            continue                      # nothing is trimmed on this path
        env = symexec.run_path(pth)
        first = {}
        for ev in pth.events:
            if ev[0] == "stmt" and isinstance(ev[1], ast.Assign) and len(ev[1].targets) == 1 and isinstance(ev[1].targets[0], ast.Name) \
                    and isinstance(ev[1].value, ast.Call) and "count_poly" in (call_name(ev[1].value) or ""):
                first.setdefault(ev[1].targets[0].id, ev[1].value)
        if len(first) != 2:
            problem = problem or "the two exon counts are not both computed on path %s" % pth.describe()[:80]
            continue
        base = {src(v): 1 for v in first.values()}
        base["len(%s)" % exons_param] = -1

        def offset(form):
            """c if form == s + c for s = sum of the found counts - len(exons), else None"""
            d = dict(form)
            for k, v in base.items():
                d[k] = d.get(k, 0) - v
            d = {k: v for k, v in d.items() if v}
            return d.get("1", 0) if set(d) <= {"1"} else None

        sub = symexec.cond_substituter(pth)
        constraints = []
        for i, ev in enumerate(pth.events):
            if ev[0] != "cond":
                continue
            for atom, pol in flow.conjuncts(ev[1], ev[2]):
                if isinstance(atom, ast.Compare) and len(atom.ops) == 1 and type(atom.ops[0]) in _OPS:
                    d = dict(_lf.linform(sub(atom.left, i)))
                    for k, v in _lf.linform(sub(atom.comparators[0], i)).items():
                        d[k] = d.get(k, 0) - v
                    op = _OPS[type(atom.ops[0])]
                    c = offset(d)
                    if c is None:
                        c = offset({k: -v for k, v in d.items()})
                        op = {"<": ">", ">": "<", "<=": ">=", ">=": "<="}.get(op, op)
                    if c is not None:
                        constraints.append((c, op if pol else _NEG[op]))
        ret = [symexec.subst(e, env) for e in rv_.elts]
        diffs = []
        for r in ret:
            best = None
            for nm, v in first.items():
                d = dict(_lf.linform(r))
                for k, c in _lf.linform(v).items():
                    d[k] = d.get(k, 0) - c
                d = {k: c for k, c in d.items() if c}
                if set(d) <= {"1"}:
                    best = d.get("1", 0)
            diffs.append(best)
        checked += 1
        if None in diffs or diffs[0] != diffs[1] or diffs[0] > 0:
            problem = problem or "the returned counts differ from the found ones by %s (they must be reduced together, by the same amount)" % diffs
            continue
        hi = _upper_bound(constraints)
        ret_off = diffs[0] + diffs[1]
        if hi is None or hi + ret_off >= 0:
            conds = ", ".join("s%+d %s 0" % (c, op) for c, op in constraints) or "no test of the sum"
            problem = problem or ("a path returns the counts%s with only [%s] known about s = polyA count + polyT count - len(%s): the sum of the "
                                  "returned counts can reach the number of exons (an exon counted from both sides makes the sum exceed it), "
                                  "every exon is trimmed" % (" reduced by %d each" % -diffs[0] if diffs[0] else " unchanged", conds, exons_param))
    # the counters are bounded by the number of exons
    bounded = 0
    for name in ("PolyAFixer.count_polya_exons", "PolyAFixer.count_polyt_exons"):
        g = prog.func(rel, name)
        rets = [r for r in walk_no_nested(g) if isinstance(r, ast.Return) and r.value is not None]
        counters = {r.value.id for r in rets if isinstance(r.value, ast.Name)}
        consts = [r for r in rets if isinstance(r.value, ast.Constant)]
        if len(counters) != 1 or any(r.value.value != 0 for r in consts) or len([r for r in rets if isinstance(r.value, ast.Name)]) + len(consts) != len(rets):
            problem = problem or "%s: the returned counter is not a single local variable" % name
            continue
        cnt = next(iter(counters))
        ok = True
        for st in walk_no_nested(g):
            if isinstance(st, ast.Assign) and any(isinstance(t, ast.Name) and t.id == cnt for t in st.targets):
                if not (isinstance(st.value, ast.Constant) and st.value.value == 0 and st._parent is g):
                    ok = False
            elif isinstance(st, ast.AugAssign) and isinstance(st.target, ast.Name) and st.target.id == cnt:
                loops = []
                n = st._parent
                while n is not g:
                    if isinstance(n, (ast.For, ast.While)):
                        loops.append(n)
                    n = n._parent
                if not (isinstance(st.op, ast.Add) and isinstance(st.value, ast.Constant) and st.value.value == 1 and len(loops) == 1
                        and isinstance(loops[0], ast.For) and any(src(loops[0].iter) in ("range(len(%s))" % a_.arg, a_.arg, "reversed(%s)" % a_.arg)
                                                                  for a_ in g.args.args if a_.arg not in ("self", "cls"))):
                    ok = False
                else:
                    # at most one increment per iteration: no second increment of the counter in the same loop body on one path
                    incs = [x for x in walk_no_nested(loops[0]) if isinstance(x, ast.AugAssign) and isinstance(x.target, ast.Name) and x.target.id == cnt]
                    if len(incs) != 1:
                        ok = False
        if not ok:
            problem = problem or "%s: the counter %s is not bounded by the number of exons (0, then += 1 once per iteration over the exons)" % (name, cnt)
        else:
            bounded += 1
    if problem or checked == 0:
        ctx.fail(tag, cf, cf._qualname, "all-exons guard", "guard against trimming every exon is missing or wrong: %s" % (problem or "no path returns counts"))
    else:
        ctx.ok(tag, "%s:%d" % (rel, cf.lineno), "on all %d count-returning paths the path condition implies returned polyA + polyT counts < len(%s); "
               "both are reduced together; %d counters bounded by the number of exons" % (checked, exons_param, bounded))


# ---------------------------------------------------------------------------
# Q3: where the walk along the alignment starts (leading / trailing clip operations are skipped, nothing else)
# ---------------------------------------------------------------------------

from ..engine.staticeval import NoEval as _NoEval, evaluate as _eval, execute as _exec  # noqa: E402


def q3(prog, ctx, members):
    rel = "src/polya_finder.py"
    f = prog.func(rel, "move_ref_coord_alogn_alignment")
    loop = [s for s in f.body if isinstance(s, ast.While)][0]
    pre = [s for s in f.body if isinstance(s, ast.If) and s.lineno < loop.lineno and "current_pos" in src(s)]
    if len(pre) != 1 or "direction" not in src(pre[0].test):
        raise AnalysisError("move_ref_coord_alogn_alignment: start-position block (if direction == 1 ... else ...) not found")
    S, H, M = members["soft_clipping"], members["hard_clipping"], members["match"]
    enum_env = {"CigarEvent.%s" % k: v for k, v in members.items()}
    enum_env.update({"CigarEvent.%s.value" % k: v for k, v in members.items()})
    # module-level names for op codes / op sets (evaluated over the enum, in definition order)
    for _name, _v in prog.module(rel).assigns.items():
        try:
            enum_env[_name] = _eval(_v, enum_env)
        except (_NoEval, IndexError, KeyError, TypeError):
            pass
    n = 0
    for direction in (1, -1):
        for clips in ([], [S], [H], [H, S]):
            ops = clips + [M, M]
            tuples = [(o, 10) for o in ops]
            if direction == -1:
                tuples = list(reversed(tuples))
            env = dict(enum_env, cigar_tuples=tuples, direction=direction)
            try:
                _exec([pre[0]], env)
            except (_NoEval, IndexError, KeyError, TypeError) as e:
                raise AnalysisError("move_ref_coord_alogn_alignment: start-position block is not statically evaluable (%s)" % e)
            want = len(clips) if direction == 1 else -1 - len(clips)
            n += 1
            name = "+".join({S: "S", H: "H"}[c] for c in clips) or "no clip"
            if env.get("current_pos") != want:
                ctx.fail("Q3", pre[0], "move_ref_coord_alogn_alignment", "%s, %s end" % (name, "left" if direction == 1 else "right"),
                         "for an alignment whose %s end carries [%s] the walk starts at operation index %s, expected %d (just past the clip "
                         "operations, which consume no reference): it starts on a clip operation, stops at once and the tail position is "
                         "computed as if no base had been walked" % ("left" if direction == 1 else "right", name, env.get("current_pos"), want))
            else:
                ctx.ok("Q3", "%s:%d" % (rel, pre[0].lineno), "%s end with [%s]: walk starts at index %d" % ("left" if direction == 1 else "right", name, want))
    ctx.floor("Q3", "clip shapes x directions", n, 8)


def q4(prog, ctx):
    legacy = ("concat_gapless_blocks", "correct_bam_coords")
    for name in legacy:
        prog.func(COMMON, name)           # anchor must exist
    sites = []
    for m, q, f in prog.all_functions():
        for c in calls_in_all(f):
            cn = (call_name(c) or "").split(".")[-1]
            if cn in legacy:
                sites.append((m, q, c, cn))
    for m, q, c, cn in sites:
        ctx.fail("Q4", c, q, src(c)[:80], "%s is called from the pipeline: its blocks differ from the SAM exon blocks of get_read_blocks when a deletion "
                 "is not followed by a match in its segment (e.g. 3D51N9M), and it returns no read-coordinate blocks" % cn)
    if not sites:
        ctx.ok("Q4", COMMON, "no call site of %s in the %d modules of the closure" % (" / ".join(legacy), len(prog.modules)))
    producers = 0
    for m, q, f in prog.all_functions():
        for st in walk_no_nested(f):
            if isinstance(st, ast.Assign) and any(dotted(t) == "self.read_exons" for t in ast.walk(st.targets[0])):
                v = st.value
                okv = (isinstance(v, ast.Call) and (call_name(v) or "").split(".")[-1] == "get_read_blocks") or \
                      (isinstance(v, ast.Subscript) and dotted(v.value) == "self.read_exons")
                if m.rel == "src/alignment_info.py":
                    producers += 1
                    if not okv:
                        ctx.fail("Q4", st, q, src(st)[:80], "AlignmentInfo.read_exons is assigned from something else than get_read_blocks(...) or a "
                                 "slice of itself")
    if producers:
        ctx.ok("Q4", "src/alignment_info.py", "%d assignments of AlignmentInfo.read_exons: get_read_blocks(...) or a slice of itself" % producers)
    ctx.floor("Q4", "assignments of AlignmentInfo.read_exons", producers, 2)


def calls_in_all(f):
    return [n for n in ast.walk(f) if isinstance(n, ast.Call)]


def q6(prog, ctx):
    """The three parallel block lists of an alignment (reference exons, read blocks, CIGAR blocks) are what the CIGAR walker produced, minus
    whole blocks trimmed from the ends: each is assigned only from the walker's result or from a slice of itself - nothing recomputes or
    shifts the coordinates of a block afterwards (H consumes no query: read blocks index SEQ as it is stored)."""
    AI_ = "src/alignment_info.py"
    cls = prog.cls(AI_, "AlignmentInfo")
    lists = ("read_exons", "read_blocks", "cigar_blocks")
    n = 0
    for name, f in sorted(prog.methods_of(cls, inherited=False).items()):
        for st in walk_no_nested(f):
            if not isinstance(st, (ast.Assign, ast.AugAssign)):
                continue
            tgs = st.targets if isinstance(st, ast.Assign) else [st.target]
            flat = [e for t in tgs for e in (t.elts if isinstance(t, ast.Tuple) else [t])]
            hit = [e for e in flat if isinstance(e, ast.Attribute) and e.attr in lists and src(e.value) == "self"]
            sub = [e for e in flat if isinstance(e, ast.Subscript) and isinstance(e.value, ast.Attribute) and e.value.attr in lists
                   and src(e.value.value) == "self"]
            for e in sub:
                n += 1
                ctx.fail("Q6", st, "AlignmentInfo." + name, src(st)[:80], "an element of self.%s is overwritten: the block no longer is what the "
                         "CIGAR walk produced" % e.value.attr)
            for e in hit:
                n += 1
                v = st.value
                if isinstance(st, ast.Assign) and isinstance(v, ast.Call) and (call_name(v) or "").split(".")[-1] == "get_read_blocks":
                    ctx.ok("Q6", "%s:%d" % (AI_, st.lineno), "self.%s <- get_read_blocks(...)" % e.attr)
                elif isinstance(st, ast.Assign) and isinstance(v, ast.Subscript) and not isinstance(v.slice, ast.Constant) and src(v.value) == src(e):
                    ctx.ok("Q6", "%s:%d" % (AI_, st.lineno), "self.%s trimmed by a slice of itself" % e.attr)
                elif isinstance(st, ast.Assign) and (isinstance(v, (ast.Call, ast.Name, ast.Attribute)) or
                                                     (isinstance(v, ast.Subscript) and not isinstance(v.slice, ast.Constant))):
                    ctx.undecided("Q6", st, "AlignmentInfo." + name, "self.%s is assigned from %s, which is neither the walker call nor a slice "
                                  "of itself" % (e.attr, src(v)[:50]))
                else:
                    ctx.fail("Q6", st, "AlignmentInfo." + name, src(st)[:80], "self.%s is recomputed (%s) after the CIGAR walk: its blocks are no "
                             "longer the walker's blocks in the coordinates of the stored SEQ / reference - for read blocks a shift by a hard "
                             "clip, which consumes no query, points past the stored sequence" % (e.attr, src(v)[:50]))
    for name, f in sorted(prog.methods_of(cls, inherited=False).items()):
        for c in walk_no_nested(f):
            if isinstance(c, ast.Call) and isinstance(c.func, ast.Attribute) and isinstance(c.func.value, ast.Attribute) \
                    and c.func.value.attr in lists and src(c.func.value.value) == "self" \
                    and c.func.attr in ("append", "insert", "extend", "pop", "remove", "sort", "reverse", "clear"):
                n += 1
                ctx.fail("Q6", c, "AlignmentInfo." + name, src(c)[:80], "self.%s is changed in place by .%s()" % (c.func.value.attr, c.func.attr))
    ctx.floor("Q6", "assignments of the parallel block lists", n, 4)


def run(prog, ctx):
    ctx.rule("Q6", "AlignmentInfo.read_exons / read_blocks / cigar_blocks are assigned only from get_read_blocks(...) or from a slice of "
                   "themselves, and never changed in place")
    q6(prog, ctx)
    ctx.rule("Q1", "abstract evaluation of the CIGAR walkers' branch structure for each CigarEvent member and block state: the "
                   "(query, reference) cursor increments equal the SAM consumption table, by the op length; only N and S close a "
                   "block, M/=/X/I/D open one; a block is recorded into the three parallel lists together and only under has_match")
    ctx.rule("Q2", "slice-chain simulation of AlignmentInfo.add_polya_info with self-calls inlined: on every feasible path the three "
                   "parallel lists end as the same chain of slices of their own original values, read_start/read_end are taken from "
                   "read_exons as it is after the last trim, exons_changed is set; the tail position is shifted before the cut; "
                   "trimming all exons is guarded")
    members, helpers = cigar_enum(prog)
    for name, code in SAM_CODE.items():
        if members.get(name) != code:
            ctx.fail("Q1", prog.cls(COMMON, "CigarEvent"), "CigarEvent", name,
                     "CigarEvent.%s = %s but the BAM op code of %s is %d" % (name, members.get(name), name, code))
        else:
            ctx.ok("Q1", COMMON, "CigarEvent.%s == BAM op code %d" % (name, code))
    n1 = q1_read_blocks(prog, ctx, members, helpers)
    n2 = q1_move_ref(prog, ctx, members, helpers)
    q2(prog, ctx)
    ctx.rule("Q3", "finite case analysis of the start-position block of move_ref_coord_alogn_alignment: for clip shapes {none, S, H, H+S} "
                   "at the walked end, in both directions, the first operation visited is the first non-clip operation")
    q3(prog, ctx, members)
    ctx.rule("Q5", "the polyA-side and polyT-side helpers of the trimming step (shift_polya / shift_polyt, count_polya_exons / count_polyt_exons) "
                   "are exact mirror images of each other (typed reflection of C11/X1): the tail position is moved over the removed exons "
                   "in the same way at both ends of the read")
    from . import x1_pairs as _x1
    n5 = _x1.run_function_pairs(prog, ctx, "Q5", {"src/polya_verification.py"}, only={"shift_polya", "PolyAFixer.count_polya_exons"})
    ctx.floor("Q5", "mirror pairs of the trimming step", n5, 2)
    ctx.rule("Q4", "who-may-call: the exon lists of the pipeline come from get_read_blocks only; the legacy walkers concat_gapless_blocks / "
                   "correct_bam_coords (kept for the stand-alone src/10x_profiles.py script, and known to deviate from SAM for a deletion "
                   "that is not followed by a match in its segment) have no call site in the import closure of isoquant.py")
    q4(prog, ctx)
    ctx.floor("Q1", "op x state outcomes in get_read_blocks", n1, 18)
    ctx.floor("Q1", "op outcomes in move_ref_coord", n2, 9)
    ctx.extra["exhaustive"] = True
    ctx.assume("block boundaries / maximality for every CIGAR string is an enumeration job (other family) and is not decided")
