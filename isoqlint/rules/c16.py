"""C16 - alignment records become exon blocks per SAM semantics (structural part).

Q1 the CIGAR op -> (consumes query, consumes reference) table realised by the walkers equals the SAM table,
   in every branch an op can take; only N and S close a block; a block is recorded only if it has a match
Q2 the parallel block lists are trimmed identically and the read span is recomputed after trimming
"""
import ast

from ..engine.program import AnalysisError, dotted, src, walk_no_nested, call_name
from ..engine import flow

COMMON = "src/common.py"

# SAM specification, section 1.4.6: op -> (consumes query, consumes reference)
SAM = {"match": (1, 1), "insertion": (1, 0), "deletion": (0, 1), "skipped": (0, 1), "soft_clipping": (1, 0),
       "hard_clipping": (0, 0), "padding": (0, 0), "seq_match": (1, 1), "seq_mismatch": (1, 1)}
SAM_CODE = {"match": 0, "insertion": 1, "deletion": 2, "skipped": 3, "soft_clipping": 4, "hard_clipping": 5,
            "padding": 6, "seq_match": 7, "seq_mismatch": 8}


def cigar_enum(prog):
    c = prog.cls(COMMON, "CigarEvent")
    members = {}
    helpers = {}
    for st in c.body:
        if isinstance(st, ast.Assign) and isinstance(st.targets[0], ast.Name) and isinstance(st.value, ast.Constant):
            members[st.targets[0].id] = st.value.value
        elif isinstance(st, ast.FunctionDef):
            ret = [s for s in st.body if isinstance(s, ast.Return)]
            if ret and isinstance(ret[0].value, ast.Set):
                helpers[st.name] = {dotted(e).split(".")[-1] for e in ret[0].value.elts if dotted(e)}
    return members, helpers


class Walker:
    """Evaluates the branch structure of a CIGAR loop body for one op and one block state."""

    def __init__(self, members, helpers, event_var, state_var, qcur, rcur):
        self.members = members
        self.helpers = helpers
        self.by_code = {v: k for k, v in members.items()}
        self.event_var = event_var
        self.state_var = state_var
        self.qcur = qcur
        self.rcur = rcur

    def opset(self, node):
        if isinstance(node, (ast.Set, ast.List, ast.Tuple)):
            out = set()
            for e in node.elts:
                if isinstance(e, ast.Constant) and isinstance(e.value, int):
                    out.add(self.by_code.get(e.value, "code%d" % e.value))
                elif dotted(e) and dotted(e).split(".")[-1] in self.members:
                    out.add(dotted(e).split(".")[-1])
                else:
                    return None
            return out
        if isinstance(node, ast.Call) and dotted(node.func) and dotted(node.func).split(".")[-1] in self.helpers:
            return set(self.helpers[dotted(node.func).split(".")[-1]])
        return None

    def ev(self, test, op, state):
        """True / False / None (unknown)."""
        if isinstance(test, ast.BoolOp):
            vals = [self.ev(v, op, state) for v in test.values]
            if isinstance(test.op, ast.And):
                if any(v is False for v in vals):
                    return False
                return True if all(v is True for v in vals) else None
            if any(v is True for v in vals):
                return True
            return False if all(v is False for v in vals) else None
        if isinstance(test, ast.UnaryOp) and isinstance(test.op, ast.Not):
            v = self.ev(test.operand, op, state)
            return None if v is None else not v
        if isinstance(test, ast.Constant):
            return bool(test.value)
        if isinstance(test, ast.Name) and test.id == self.state_var:
            return state == "open"
        if isinstance(test, ast.Compare) and len(test.ops) == 1:
            l, r, o = test.left, test.comparators[0], test.ops[0]
            if isinstance(l, ast.Name) and l.id == self.state_var and isinstance(r, ast.Constant) and r.value is None:
                if isinstance(o, ast.Is):
                    return state == "closed"
                if isinstance(o, ast.IsNot):
                    return state == "open"
            if isinstance(l, ast.Name) and l.id == self.event_var:
                if isinstance(o, (ast.Eq, ast.NotEq)):
                    s = self.opset(ast.Tuple(elts=[r], ctx=ast.Load()))
                    if s is not None:
                        v = op in s
                        return v if isinstance(o, ast.Eq) else not v
                if isinstance(o, (ast.In, ast.NotIn)):
                    s = self.opset(r)
                    if s is not None:
                        v = op in s
                        return v if isinstance(o, ast.In) else not v
        return None

    def run(self, stmts, op, state):
        """All outcomes: list of dicts {q:[amount exprs], r:[...], closes, opens, records:[(node, guarded)], breaks}."""
        outs = [dict(q=[], r=[], closes=False, opens=False, records=[], breaks=False, has_match_guard=[])]
        for st in stmts:
            new = []
            for o in outs:
                if o["breaks"]:
                    new.append(o)
                    continue
                new.extend(self.step(st, op, state, o))
            outs = new
        return outs

    def step(self, st, op, state, o):
        def clone(o):
            return dict(q=list(o["q"]), r=list(o["r"]), closes=o["closes"], opens=o["opens"], records=list(o["records"]),
                        breaks=o["breaks"], has_match_guard=list(o["has_match_guard"]))
        if isinstance(st, ast.If):
            v = self.ev(st.test, op, state)
            res = []
            if v is not False:
                o2 = clone(o)
                if "has_match" in src(st.test):
                    o2["has_match_guard"].append(st)
                for x in self.run_from(st.body, op, state, o2):
                    res.append(x)
            if v is not True:
                for x in self.run_from(st.orelse, op, state, clone(o)):
                    res.append(x)
            return res
        o = clone(o)
        if isinstance(st, ast.AugAssign) and isinstance(st.op, ast.Add) and isinstance(st.target, ast.Name):
            if st.target.id == self.qcur:
                o["q"].append(src(st.value))
            elif st.target.id == self.rcur:
                o["r"].append(src(st.value))
        elif isinstance(st, ast.Assign) and isinstance(st.targets[0], ast.Name) and st.targets[0].id == self.state_var:
            if isinstance(st.value, ast.Constant) and st.value.value is None:
                o["closes"] = True
            else:
                o["opens"] = True
        elif isinstance(st, ast.Expr) and isinstance(st.value, ast.Call) and isinstance(st.value.func, ast.Attribute) \
                and st.value.func.attr == "append":
            o["records"].append((st, bool(o["has_match_guard"])))
        elif isinstance(st, ast.Break):
            o["breaks"] = True
        return [o]

    def run_from(self, stmts, op, state, o):
        outs = [o]
        for st in stmts:
            new = []
            for x in outs:
                if x["breaks"]:
                    new.append(x)
                else:
                    new.extend(self.step(st, op, state, x))
            outs = new
        return outs


def q1_read_blocks(prog, ctx, members, helpers):
    f = prog.func(COMMON, "get_read_blocks")
    loops = [s for s in f.body if isinstance(s, ast.While)]
    if len(loops) != 1:
        raise AnalysisError("get_read_blocks: expected one while loop over the CIGAR")
    loop = loops[0]
    names = {n.id for n in ast.walk(loop) if isinstance(n, ast.Name)}
    for need in ("cigar_event", "current_ref_block_start", "read_pos", "ref_pos", "event_len"):
        if need not in names:
            raise AnalysisError("get_read_blocks: variable %s not found (walker was restructured)" % need)
    w = Walker(members, helpers, "cigar_event", "current_ref_block_start", "read_pos", "ref_pos")
    n = 0
    closers = set()
    openers = set()
    always_closes = {}
    for op in sorted(members):
        for state in ("closed", "open"):
            outs = w.run(loop.body, op, state)
            for o in outs:
                n += 1
                dq = len(o["q"])
                dr = len(o["r"])
                amounts = set(o["q"]) | set(o["r"])
                want = SAM[op]
                where = "%s:%d" % (COMMON, loop.lineno)
                if (min(dq, 1), min(dr, 1)) != want or dq > 1 or dr > 1 or (amounts and amounts != {"event_len"}):
                    ctx.fail("Q1", loop, "get_read_blocks", "op %s, block %s: read_pos += %s, ref_pos += %s" % (op, state, o["q"], o["r"]),
                             "CIGAR op %s (block %s) advances query %d time(s) and reference %d time(s) by %s; SAM says "
                             "query=%d reference=%d by the op length" % (op, state, dq, dr, sorted(amounts), want[0], want[1]))
                else:
                    ctx.ok("Q1", where, "get_read_blocks: %s/%s consumes (query=%d, ref=%d)" % (op, state, want[0], want[1]))
                if state == "open":
                    always_closes[op] = always_closes.get(op, True) and o["closes"]
                if state == "open" and o["closes"]:
                    closers.add(op)
                    # the record must be guarded by has_match and happen before the cursor of this op moves
                    if not o["records"]:
                        pass
                    for rec, guarded in o["records"]:
                        if not guarded:
                            ctx.fail("Q1", rec, "get_read_blocks", src(rec), "a block is recorded without testing has_match")
                if state == "closed" and o["opens"]:
                    openers.add(op)
                if state == "closed" and o["closes"] and False:
                    pass
    want_closers = {"skipped", "soft_clipping"}
    for op in sorted(want_closers):
        if not always_closes.get(op, False):
            ctx.fail("Q1", loop, "get_read_blocks", "op %s does not always close the open block" % op,
                     "an open exon block survives a %s op on some path: the following aligned bases are merged into the same exon" % op)
    if closers != want_closers:
        ctx.fail("Q1", loop, "get_read_blocks", "block-closing ops %s" % sorted(closers),
                 "exon blocks are closed by %s; per SAM only N (skipped) and S (soft clip) end an exon block here" % sorted(closers))
    else:
        ctx.ok("Q1", "%s:%d" % (COMMON, loop.lineno), "only N and S close a block")
    want_openers = {"match", "seq_match", "seq_mismatch", "insertion", "deletion"}
    if openers != want_openers:
        ctx.fail("Q1", loop, "get_read_blocks", "block-opening ops %s" % sorted(openers),
                 "blocks are opened by %s, expected M,=,X,I,D" % sorted(openers))
    else:
        ctx.ok("Q1", "%s:%d" % (COMMON, loop.lineno), "M,=,X,I,D open a block; N,S,H,P do not")
    # every recording append (in the loop and after it) is guarded by has_match, and records the three lists together
    appends = [c for c in walk_no_nested(f) if isinstance(c, ast.Call) and isinstance(c.func, ast.Attribute) and c.func.attr == "append"]
    groups = {}
    for c in appends:
        st = c
        while not isinstance(st, ast.stmt):
            st = st._parent
        blk = id(st._parent), tuple(g.text() for g in flow.guards_of(st, stop=f))
        groups.setdefault(blk, []).append(c)
    for blk, cs in groups.items():
        lists = sorted(dotted(c.func.value) for c in cs)
        guards = " and ".join(blk[1])
        if lists != ["cigar_blocks", "read_blocks", "ref_blocks"]:
            ctx.fail("Q1", cs[0], "get_read_blocks", src(cs[0]), "block recorded in %s only; the three parallel lists must grow together" % lists)
        elif "has_match" not in guards:
            ctx.fail("Q1", cs[0], "get_read_blocks", src(cs[0]), "block recorded without has_match guard (guards: %s)" % guards)
        else:
            ctx.ok("Q1", "%s:%d" % (COMMON, cs[0].lineno), "three parallel lists appended together under has_match")
        # coordinates: (start, pos - 1) closed interval
        for c in cs:
            a = c.args[0]
            if not (isinstance(a, ast.Tuple) and len(a.elts) == 2 and src(a.elts[1]).endswith("- 1")):
                ctx.fail("Q1", c, "get_read_blocks", src(c), "recorded block end is not 'cursor - 1' (closed interval)")
    # 1-based start: ref_pos = ref_start + 1
    init = [s for s in f.body if isinstance(s, ast.Assign) and dotted(s.targets[0]) == "ref_pos"]
    if not init or src(init[0].value) != "ref_start + 1":
        ctx.fail("Q1", f, "get_read_blocks", "ref_pos initialisation", "reference cursor does not start at ref_start + 1 (1-based)")
    else:
        ctx.ok("Q1", "%s:%d" % (COMMON, init[0].lineno), "reference cursor starts at ref_start + 1 (0-based BAM -> 1-based)")
    return n


def q1_move_ref(prog, ctx, members, helpers):
    rel = "src/polya_finder.py"
    f = prog.func(rel, "move_ref_coord_alogn_alignment")
    loops = [s for s in f.body if isinstance(s, ast.While)]
    if len(loops) != 1:
        raise AnalysisError("move_ref_coord_alogn_alignment: expected one while loop")
    loop = loops[0]
    w = Walker(members, helpers, "cigar_event", "__none__", "read_length_consumed", "reference_length_consumed")
    n = 0
    for op in sorted(members):
        outs = w.run(loop.body, op, "open")
        for o in outs:
            n += 1
            want = SAM[op]
            dq, dr = len(o["q"]), len(o["r"])
            if o["breaks"] and op in ("soft_clipping", "hard_clipping"):
                ctx.ok("Q1", "%s:%d" % (rel, loop.lineno), "move_ref_coord: %s stops the walk (clipping on the far side)" % op)
                continue
            same_amount = (not o["q"] or not o["r"]) or o["q"] == o["r"]
            if (min(dq, 1), min(dr, 1)) != want or dq > 1 or dr > 1 or not same_amount:
                ctx.fail("Q1", loop, "move_ref_coord_alogn_alignment", "op %s: read += %s, ref += %s" % (op, o["q"], o["r"]),
                         "CIGAR op %s advances query by %s and reference by %s; SAM says query=%d reference=%d (same amount)"
                         % (op, o["q"], o["r"], want[0], want[1]))
            else:
                ctx.ok("Q1", "%s:%d" % (rel, loop.lineno), "move_ref_coord: %s consumes (query=%d, ref=%d)" % (op, want[0], want[1]))
    return n


def q2(prog, ctx):
    rel = "src/alignment_info.py"
    f = prog.func(rel, "AlignmentInfo.add_polya_info")
    lists = ("self.read_exons", "self.read_blocks", "self.cigar_blocks")
    branches = [s for s in f.body if isinstance(s, ast.If)]
    n = 0
    for br in branches:
        slices = {}
        for st in br.body:
            if isinstance(st, ast.Assign) and dotted(st.targets[0]) in lists and isinstance(st.value, ast.Subscript):
                if dotted(st.value.value) != dotted(st.targets[0]):
                    ctx.fail("Q2", st, f._qualname, src(st), "list trimmed from another list")
                slices[dotted(st.targets[0])] = src(st.value.slice)
        if not slices:
            continue
        n += 1
        if set(slices) != set(lists) or len(set(slices.values())) != 1:
            ctx.fail("Q2", br, f._qualname, "if %s: %s" % (src(br.test), slices),
                     "the parallel lists read_exons / read_blocks / cigar_blocks are not trimmed with one identical slice "
                     "(%s): exon i no longer corresponds to read block i" % slices)
        else:
            ctx.ok("Q2", "%s:%d" % (rel, br.lineno), "all three lists trimmed with [%s]" % list(slices.values())[0])
        # the trim is recorded
        if not any(isinstance(st, ast.Assign) and dotted(st.targets[0]) == "self.exons_changed" and src(st.value) == "True"
                   for st in br.body):
            ctx.fail("Q2", br, f._qualname, "if %s" % src(br.test), "trimming branch does not set exons_changed")
        # the tail position is shifted before the exons are cut (shift_* needs the untrimmed list)
        shift_lines = [c.lineno for c in ast.walk(br) if isinstance(c, ast.Call) and (call_name(c) or "").startswith("shift_poly")]
        cut_lines = [st.lineno for st in br.body if isinstance(st, ast.Assign) and dotted(st.targets[0]) == "self.read_exons"]
        if not shift_lines or not cut_lines or max(shift_lines) > min(cut_lines):
            ctx.fail("Q2", br, f._qualname, "if %s" % src(br.test), "tail position must be moved onto the retained exon (shift_poly*) before trimming")
        else:
            ctx.ok("Q2", "%s:%d" % (rel, br.lineno), "tail positions shifted before the lists are cut")
    ctx.floor("Q2", "trimming branches", n, 2)
    # read_start/read_end recomputed from the trimmed list
    tail = [s for s in f.body if isinstance(s, ast.If) and "exons_changed" in src(s.test)]
    ok_tail = tail and any(src(s) == "self.read_start = self.read_exons[0][0]" for s in tail[-1].body) and \
        any(src(s) == "self.read_end = self.read_exons[-1][1]" for s in tail[-1].body)
    if not ok_tail:
        ctx.fail("Q2", f, f._qualname, "read_start/read_end", "read span is not recomputed from the trimmed exon list")
    else:
        ctx.ok("Q2", "%s:%d" % (rel, tail[-1].lineno), "read_start/read_end recomputed from trimmed read_exons")
    # correct_read_info never lets both counts consume all exons
    cf = prog.func("src/polya_verification.py", "PolyAFixer.correct_read_info")
    t = src(cf)
    if "polyt_exon_count + polya_exon_count == len(read_exons)" not in t or "polya_exon_count -= 1" not in t:
        ctx.fail("Q2", cf, cf._qualname, "all-exons guard", "guard against trimming every exon (count sum == len(read_exons)) is missing")
    else:
        ctx.ok("Q2", "src/polya_verification.py:%d" % cf.lineno, "guard against trimming all exons present")


def run(prog, ctx):
    ctx.rule("Q1", "abstract evaluation of the CIGAR walkers' branch structure for each CigarEvent member and block state: the "
                   "(query, reference) cursor increments equal the SAM consumption table, by the op length; only N and S close a "
                   "block, M/=/X/I/D open one; a block is recorded into the three parallel lists together and only under has_match")
    ctx.rule("Q2", "polyA/polyT trimming cuts read_exons, read_blocks and cigar_blocks with the identical slice, after shifting the "
                   "tail position, and recomputes read_start/read_end; trimming all exons is guarded")
    members, helpers = cigar_enum(prog)
    for name, code in SAM_CODE.items():
        if members.get(name) != code:
            ctx.fail("Q1", prog.cls(COMMON, "CigarEvent"), "CigarEvent", name,
                     "CigarEvent.%s = %s but the BAM op code of %s is %d" % (name, members.get(name), name, code))
        else:
            ctx.ok("Q1", COMMON, "CigarEvent.%s == BAM op code %d" % (name, code))
    n1 = q1_read_blocks(prog, ctx, members, helpers)
    n2 = q1_move_ref(prog, ctx, members, helpers)
    q2(prog, ctx)
    ctx.floor("Q1", "op x state outcomes in get_read_blocks", n1, 18)
    ctx.floor("Q1", "op outcomes in move_ref_coord", n2, 9)
    ctx.extra["exhaustive"] = True
    ctx.assume("block boundaries / maximality for every CIGAR string is an enumeration job (other family) and is not decided")
