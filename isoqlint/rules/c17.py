"""C17 - identifiers unique, collision-free, functional (structural part).

I1 an id memo returns the value it stores, on hit and on miss
I2 novel id numbers come only from the excluding distributor of the same annotation / chromosome
I3 every generated id embeds the chromosome
I4 exon-id key tuples agree between loader and lookup
"""
import ast
import re

from ..engine.program import AnalysisError, dotted, src, walk_no_nested, call_name, enclosing_function
from ..engine import flow, symexec

IDP = "src/id_policy.py"
GMC = "src/graph_based_model_construction.py"
DSP = "src/dataset_processor.py"


def memo_functions(prog):
    """Functions that (a) test `K in/not in D`, (b) store D[K] = V and (c) return D[K] on some path."""
    out = []
    for m, q, f in prog.all_functions():
        stores = [n for n in walk_no_nested(f) if isinstance(n, ast.Assign) and isinstance(n.targets[0], ast.Subscript)]
        if not stores:
            continue
        tests = [n for n in walk_no_nested(f) if isinstance(n, ast.Compare) and isinstance(n.ops[0], (ast.In, ast.NotIn))]
        for st in stores:
            D = src(st.targets[0].value)
            K = src(st.targets[0].slice)
            if not any(src(t.comparators[0]) == D and src(t.left) == K for t in tests):
                continue
            rets = [r for r in walk_no_nested(f) if isinstance(r, ast.Return) and r.value is not None]
            if not rets:
                continue
            out.append((m, q, f, D, K, st))
            break
    return out


def i1(prog, ctx):
    n = 0
    anchor = prog.func(IDP, "FeatureIdStorage.get_id")
    found_anchor = False
    for m, q, f, D, K, st in memo_functions(prog):
        try:
            paths = flow.paths(f, bound=512)
        except AnalysisError:
            if f is anchor:
                raise
            ctx.note("I1: %s:%s skipped (too many paths for a memo accessor)" % (m.rel, q))
            continue
        # per path: value stored under K (if any) and value returned
        hit_returns_memo = False
        results = []
        for p in paths:
            stored = {}

            def on_store(t, v, stmt, env, stored=stored):
                if isinstance(t, ast.Subscript):
                    stored[src(t)] = v
            env = symexec.run_path(p, on_store)
            if p.exit != "return" or not isinstance(p.exit_node, ast.Return) or p.exit_node.value is None:
                continue
            rv = symexec.subst(p.exit_node.value, env)
            key_txt = src(symexec.subst(ast.parse("%s[%s]" % (D, K), mode="eval").body, env))
            results.append((p, rv, stored, key_txt))
            if src(rv) == key_txt:
                hit_returns_memo = True
        if not hit_returns_memo:
            continue   # not a "returns the memoised value" function (e.g. returns a boolean derived from it)
        n += 1
        if f is anchor:
            found_anchor = True
        for p, rv, stored, key_txt in results:
            if key_txt in stored:
                # miss path: must return what was stored (or re-read it)
                if src(rv) not in (key_txt, src(stored[key_txt])):
                    ctx.fail("I1", p.exit_node, q, src(p.exit_node),
                             "on the miss path %s stores %s but returns %s; the hit path returns the stored value, so the "
                             "same key yields two different ids" % (D, src(stored[key_txt]), src(rv)),
                             path=p.describe())
                else:
                    ctx.ok("I1", "%s:%d" % (m.rel, p.exit_node.lineno), "%s miss path returns the stored value" % q)
            else:
                if src(rv) != key_txt:
                    # a path that neither stores nor re-reads: allowed only if it returns a constant default
                    if not isinstance(rv, ast.Constant):
                        ctx.fail("I1", p.exit_node, q, src(p.exit_node),
                                 "path returns %s which is neither the memoised %s nor a constant" % (src(rv), key_txt),
                                 path=p.describe())
                else:
                    ctx.ok("I1", "%s:%d" % (m.rel, p.exit_node.lineno), "%s hit path returns %s" % (q, key_txt))
    if not found_anchor:
        # the anchor must still be recognised as a value-returning memo
        ctx.fail("I1", anchor, "FeatureIdStorage.get_id", "get_id",
                 "get_id is no longer recognised as 'test key, store on miss, return stored value' - on no path does it "
                 "return id_dict[key]")
    return n


def i2(prog, ctx):
    n = 0
    m = prog.module(GMC)
    # (a) every id string built from the naming prefixes takes its number from the distributor
    getid = prog.func(GMC, "GraphBasedModelConstructor.get_transcript_id")
    rets = [r for r in walk_no_nested(getid) if isinstance(r, ast.Return)]
    if len(rets) != 1 or src(rets[0].value) != "self.id_distributor.increment()":
        ctx.fail("I2", getid, getid._qualname, src(getid.body[-1]),
                 "get_transcript_id does not return self.id_distributor.increment()")
    else:
        ctx.ok("I2", "%s:%d" % (GMC, getid.lineno), "get_transcript_id -> self.id_distributor.increment()")
    # the distributor attribute is only ever the constructor argument
    cls = prog.cls(GMC, "GraphBasedModelConstructor")
    for node in ast.walk(cls):
        if isinstance(node, ast.Assign):
            for t in node.targets:
                if dotted(t) == "self.id_distributor":
                    if not (isinstance(node.value, ast.Name) and node.value.id == "id_distributor"):
                        ctx.fail("I2", node, "GraphBasedModelConstructor", src(node),
                                 "self.id_distributor is rebound to something else than the constructor argument")
                    else:
                        ctx.ok("I2", "%s:%d" % (GMC, node.lineno), "self.id_distributor = constructor argument")
    uses = 0
    for rel in sorted(prog.modules):
        mod = prog.modules[rel]
        for node in ast.walk(mod.tree):
            if isinstance(node, ast.BinOp) and isinstance(node.op, ast.Add):
                # leftmost operand of a + chain
                left = node
                while isinstance(left, ast.BinOp) and isinstance(left.op, ast.Add):
                    left = left.left
                parent = getattr(node, "_parent", None)
                if isinstance(parent, ast.BinOp) and isinstance(parent.op, ast.Add) and parent.left is node:
                    continue  # only the outermost chain
                d = dotted(left)
                if d in ("TranscriptNaming.transcript_prefix", "TranscriptNaming.novel_gene_prefix"):
                    uses += 1
                    fn = enclosing_function(node)
                    fq = getattr(fn, "_qualname", "<module>")
                    nums = [c for c in ast.walk(node) if isinstance(c, ast.Call) and dotted(c.func) == "str"]

                    def from_distributor(e, fnode, depth=0):
                        """the number is a distributor call, a local defined by one, or a parameter that every caller fills so"""
                        if src(e) in ("self.get_transcript_id()", "self.id_distributor.increment()"):
                            return True
                        if isinstance(e, ast.Name) and fnode is not None and depth < 3:
                            ds = [x for x in walk_no_nested(fnode) if isinstance(x, ast.Assign) and any(dotted(t) == e.id for t in x.targets)]
                            if ds:
                                return all(from_distributor(x.value, fnode, depth + 1) for x in ds)
                            params = [a.arg for a in fnode.args.args]
                            if e.id in params:
                                from ..engine import argswap
                                sites = []
                                for _m2, _q2, f2 in prog.all_functions():
                                    for c2 in walk_no_nested(f2):
                                        if isinstance(c2, ast.Call) and (call_name(c2) or "").split(".")[-1] == fnode.name:
                                            sites.append((f2, c2))
                                if not sites:
                                    return False
                                for f2, c2 in sites:
                                    b = argswap.bind_args(c2, fnode, bound_method=("staticmethod" not in [dotted(x) for x in fnode.decorator_list]))
                                    if e.id not in b or not from_distributor(b[e.id], f2, depth + 1):
                                        return False
                                return True
                        return False
                    okn = nums and all(from_distributor(c.args[0], fn) for c in nums)
                    if not okn:
                        ctx.fail("I2", node, fq, src(node),
                                 "id built from %s takes its number from %s, not from the excluding distributor"
                                 % (d, [src(c.args[0]) for c in nums] or "nothing"))
                    else:
                        ctx.ok("I2", "%s:%d" % (rel, node.lineno), "%s + number from distributor" % d)
                    if d.endswith("novel_gene_prefix") and "chr_id" not in src(node):
                        ctx.fail("I3", node, fq, src(node), "novel gene id does not embed the chromosome id "
                                 "(per-chromosome distributors all start from zero)")
                    elif d.endswith("novel_gene_prefix"):
                        ctx.ok("I3", "%s:%d" % (rel, node.lineno), "novel gene id embeds chr_id")
    n += uses
    # (b) construction sites of GraphBasedModelConstructor
    sites = []
    for rel in sorted(prog.modules):
        for node in ast.walk(prog.modules[rel].tree):
            if isinstance(node, ast.Call) and call_name(node) and call_name(node).split(".")[-1] == "GraphBasedModelConstructor":
                sites.append(node)
    for c in sites:
        fn = enclosing_function(c)
        fq = getattr(fn, "_qualname", "<module>")
        arg = c.args[4] if len(c.args) > 4 else next((k.value for k in c.keywords if k.arg == "id_distributor"), None)
        okd = False
        why = "no id_distributor argument"
        if isinstance(arg, ast.Name) and fn is not None:
            defs = [s for s in walk_no_nested(fn) if isinstance(s, ast.Assign) and any(dotted(t) == arg.id for t in s.targets)]
            why = "%s defined by %s" % (arg.id, [src(d.value) for d in defs])
            if len(defs) == 1 and isinstance(defs[0].value, ast.Call) and call_name(defs[0].value) == "ExcludingIdDistributor":
                from ..engine import argswap
                einit = prog.func(IDP, "ExcludingIdDistributor.__init__")
                bound = argswap.bind_args(defs[0].value, einit, bound_method=True)
                a_db = next((v for k, v in bound.items() if "db" in k), None)
                a_chr = next((v for k, v in bound.items() if "chr" in k), None)
                if a_db is None and len(bound) == 1:
                    # the annotation scan was moved out of the constructor: ExcludingIdDistributor(<scan>(db, chr_id))
                    inner = next(iter(bound.values()))
                    hf = prog.module(IDP).functions.get((call_name(inner) or "").split(".")[-1]) if isinstance(inner, ast.Call) else None
                    if hf is not None:
                        b2 = argswap.bind_args(inner, hf)
                        a_db = next((v for k, v in b2.items() if "db" in k), None)
                        a_chr = next((v for k, v in b2.items() if "chr" in k), None)
                params = [a.arg for a in fn.args.args]
                # same database variable the loader/aggregator of this task use, and the task's chromosome parameter
                loader = [x for x in walk_no_nested(fn) if isinstance(x, ast.Call) and call_name(x) == "ReadAssignmentLoader"]
                db_ok = isinstance(a_db, ast.Name) and bool(loader) and \
                    any(isinstance(a, ast.Name) and a.id == a_db.id for a in list(loader[0].args) + [k.value for k in loader[0].keywords])
                chr_ok = isinstance(a_chr, ast.Name) and a_chr.id in params and \
                    not any(isinstance(s, (ast.Assign, ast.AugAssign)) and
                            any(dotted(t) == a_chr.id for t in (s.targets if isinstance(s, ast.Assign) else [s.target]))
                            for s in walk_no_nested(fn))
                okd = db_ok and chr_ok
                why += "; db same as loader: %s; chromosome is the task parameter: %s" % (db_ok, chr_ok)
        elif isinstance(arg, ast.Call):
            why = "inline %s" % src(arg)
        if not okd:
            ctx.fail("I2", c, fq, src(c.func) + "(..., " + (src(arg) if arg is not None else "?") + ")",
                     "GraphBasedModelConstructor must receive an ExcludingIdDistributor built from the task's own annotation "
                     "database and chromosome (%s)" % why)
        else:
            ctx.ok("I2", "%s:%d" % (c._module.rel, c.lineno), "model constructor gets ExcludingIdDistributor(db, chr_id) of the task")
        n += 1
    ctx.floor("I2", "construction sites of GraphBasedModelConstructor", len(sites), 1)
    ctx.floor("I2", "id strings built from TranscriptNaming prefixes", uses, 2)
    # (c) ExcludingIdDistributor.increment: on every path the returned number was last seen NOT to be in forbidden_ids
    from ..engine import symexec
    inc = prog.func(IDP, "ExcludingIdDistributor.increment")
    bad_path = None
    npaths = 0
    for pth in flow.paths(inc):
        if pth.exit != "return" or pth.exit_node is None or pth.exit_node.value is None:
            bad_path = bad_path or (pth, "a path returns no number")
            continue
        npaths += 1
        rv = pth.exit_node.value
        # names that hold the returned number at the end of the path (self.value = next_value makes them aliases)
        alias = {src(rv)}
        for ev in reversed(pth.events):
            if ev[0] == "stmt" and isinstance(ev[1], ast.Assign) and len(ev[1].targets) == 1:
                t, v = src(ev[1].targets[0]), src(ev[1].value)
                if t in alias and isinstance(ev[1].value, (ast.Name, ast.Attribute)):
                    alias.add(v)
                elif v in alias and isinstance(ev[1].targets[0], (ast.Name, ast.Attribute)):
                    alias.add(t)
        cleared = False
        bumped = False
        for ev in pth.events:
            if ev[0] == "stmt":
                st_ = ev[1]
                tg = [src(st_.target)] if isinstance(st_, ast.AugAssign) else ([src(t) for t in st_.targets] if isinstance(st_, ast.Assign) else [])
                if any(t in alias for t in tg):
                    if isinstance(st_, ast.AugAssign) or not (isinstance(st_.value, (ast.Name, ast.Attribute)) and src(st_.value) in alias):
                        cleared = False          # the number changed: any earlier test is void
                        bumped = True
                        # the same search written with the library: next(v for v in itertools.count(<number> + k) if v not in forbidden)
                        v_ = st_.value if isinstance(st_, ast.Assign) else None
                        if isinstance(v_, ast.Call) and call_name(v_) == "next" and v_.args and isinstance(v_.args[0], ast.GeneratorExp) \
                                and len(v_.args) == 1 and len(v_.args[0].generators) == 1:
                            g_ = v_.args[0].generators[0]
                            it_ = g_.iter
                            starts_after = isinstance(it_, ast.Call) and (call_name(it_) or "").endswith("count") and len(it_.args) == 1 \
                                and isinstance(it_.args[0], ast.BinOp) and isinstance(it_.args[0].op, ast.Add) and src(it_.args[0].left) in alias \
                                and isinstance(it_.args[0].right, ast.Constant) and isinstance(it_.args[0].right.value, int) and it_.args[0].right.value >= 1
                            filt = any(isinstance(c_, ast.Compare) and len(c_.ops) == 1 and isinstance(c_.ops[0], ast.NotIn) and src(c_.left) == src(g_.target)
                                       and src(c_.comparators[0]) == "self.forbidden_ids" for c_ in g_.ifs)
                            if starts_after and filt and src(v_.args[0].elt) == src(g_.target):
                                cleared = True
            elif ev[0] == "cond":
                for atom, pol in flow.conjuncts(ev[1], ev[2]):
                    if isinstance(atom, ast.Compare) and len(atom.ops) == 1 and src(atom.left) in alias \
                            and src(atom.comparators[0]) == "self.forbidden_ids":
                        if (isinstance(atom.ops[0], ast.In) and not pol) or (isinstance(atom.ops[0], ast.NotIn) and pol):
                            cleared = True
        if not cleared or not bumped:
            bad_path = bad_path or (pth, "the returned number %s" % ("is not tested against forbidden_ids after its last change" if bumped else "is never advanced"))
    if bad_path or npaths == 0:
        pth, why = bad_path if bad_path else (None, "no returning path")
        ctx.fail("I2", inc, inc._qualname, "increment", "increment() must advance the counter and return a number that was tested not to be in "
                 "forbidden_ids after its last change (%s)" % why, path=pth.describe() if pth else None)
    else:
        ctx.ok("I2", "%s:%d" % (IDP, inc.lineno), "increment: on all %d paths the returned number is advanced and last seen outside forbidden_ids" % npaths)
    # (d) parse prefixes == format prefixes
    init = prog.func_inlined(IDP, "ExcludingIdDistributor.__init__")
    sw = {dotted(c.args[0]) for c in ast.walk(init) if isinstance(c, ast.Call) and isinstance(c.func, ast.Attribute)
          and c.func.attr == "startswith" and c.args}
    # the scan of the annotation may live in a module-level function of id_policy whose result is handed to the constructor
    for hname, hf in prog.module(IDP).functions.items():
        if "." not in hname and any(isinstance(c, ast.Call) and (call_name(c) or "").endswith(".region") for c in ast.walk(hf)):
            sw |= {dotted(c.args[0]) for c in ast.walk(hf) if isinstance(c, ast.Call) and isinstance(c.func, ast.Attribute)
                   and c.func.attr == "startswith" and c.args}
    # a prefix may be a parameter whose value is the constant unless a caller says otherwise: resolve it when no caller does
    params_ = [a.arg for a in init.args.args]
    defaults_ = dict(zip(params_[len(params_) - len(init.args.defaults):], init.args.defaults))
    ctor_calls = [c for _m, _q, f_ in prog.all_functions() for c in walk_no_nested(f_)
                  if isinstance(c, ast.Call) and (call_name(c) or "").split(".")[-1] == "ExcludingIdDistributor"]
    undecided_prefix = []
    for name_ in [x for x in list(sw) if x and "." not in x and x in params_]:
        vals = [v for v in [defaults_.get(name_)] if v is not None and not (isinstance(v, ast.Constant) and v.value is None)]
        vals += [st_.value for st_ in walk_no_nested(init) if isinstance(st_, ast.Assign) and any(src(t) == name_ for t in st_.targets)]
        texts = {dotted(v) for v in vals}
        passed = any(len(c.args) > params_.index(name_) - 1 or any(k.arg == name_ for k in c.keywords) for c in ctor_calls)
        if len(texts) == 1 and None not in texts and not passed:
            sw.add(texts.pop())
        else:
            undecided_prefix.append(name_)
    for const in ("TranscriptNaming.novel_gene_prefix", "TranscriptNaming.transcript_prefix"):
        if const not in sw and undecided_prefix:
            ctx.undecided("I2", init, init._qualname, "the prefix by which reserved ids are recognised is the parameter %s, whose value is not "
                          "fixed by the constructor itself" % undecided_prefix)
        elif const not in sw:
            ctx.fail("I2", init, init._qualname, "startswith(...)",
                     "forbidden ids are not collected with the %s constant that is used to format new ids" % const)
        else:
            ctx.ok("I2", "%s:%d" % (IDP, init.lineno), "forbidden ids parsed with %s (same constant as formatting)" % const)
    adds = [c for c in ast.walk(init) if isinstance(c, ast.Call) and src(c.func) == "self.forbidden_ids.add"]
    ctx.floor("I2", "forbidden-id insertions", len(adds), 2)
    # both gene and transcript numbers land in the one forbidden set used by increment (shared number space)
    return n


def i7(prog, ctx, tag="I7"):
    """The distributor knows every number the annotation already uses: whenever an annotation is given, the constructor runs BOTH scans (gene
    ids and transcript ids of the chromosome) to the end - no path leaves between or before them except the one without annotation."""
    from ..engine import flow
    f = prog.func_inlined(IDP, "ExcludingIdDistributor.__init__")
    scans = [l for l in walk_no_nested(f) if isinstance(l, ast.For) and not flow.enclosing_loops(l)
             and any(isinstance(c, ast.Call) and (call_name(c) or "").endswith(".region") for c in ast.walk(l.iter))
             and any(isinstance(c, ast.Call) and isinstance(c.func, ast.Attribute) and c.func.attr == "add" for c in ast.walk(l))]
    if len(scans) < 2:
        ctx.undecided(tag, f, f._qualname, "the two scans over the annotation (genes, transcripts) were not found as top-level loops (%d found)" % len(scans))
        return
    db_param = next((a.arg for a in f.args.args if "db" in a.arg), None)
    n = 0
    for pth in flow.paths(f):
        if pth.exit not in ("return", "fall"):
            continue
        no_db = any(((isinstance(t, ast.UnaryOp) and isinstance(t.op, ast.Not) and src(t.operand) == db_param and pol)
                     or (src(t) == db_param and not pol)
                     or (isinstance(t, ast.Compare) and src(t.left) == db_param and isinstance(t.ops[0], ast.Is) and pol))
                    for c, p_ in pth.conds() for t, pol in flow.conjuncts(c, p_))
        if no_db:
            continue
        n += 1
        missing = [l for l in scans if not any(s_ is l for s_ in pth.stmts())]
        # a loop left early (break / return inside) does not scan everything
        early = [l for l in scans if any(isinstance(x, (ast.Break, ast.Return)) for x in ast.walk(l))]
        if missing or early:
            l = (missing or early)[0]
            ctx.fail(tag, pth.exit_node or l, f._qualname, "scan skipped: for ... in %s" % src(l.iter)[:60],
                     "with an annotation given, the constructor can finish on the path [%s] without having scanned %s to the end: numbers "
                     "that reference ids already use stay free, and a novel transcript / gene is given the id of a reference one"
                     % (pth.describe()[:140], src(l.iter)[:60]))
            break
    else:
        ctx.ok(tag, "%s:%d" % (IDP, f.lineno), "all %d paths with an annotation run both scans (%s)" % (n, "; ".join(src(l.iter)[:40] for l in scans)))
    ctx.floor(tag, "constructor paths with an annotation", n, 1)


def i8(prog, ctx):
    """A table that remembers the id found for a feature during one call must be keyed by everything the id depends on: ids are looked up by
    (chromosome, coordinates, strand), so a per-call cache keyed by coordinates alone gives two features on opposite strands one id."""
    from ..engine.dataflow import dependency_roots
    from ..engine import flow
    TP_ = "src/transcript_printer.py"
    n = 0
    for m, q, f in prog.all_functions():
        if m.rel not in (TP_, IDP):
            continue
        local_dicts = {}
        for st in walk_no_nested(f):
            if isinstance(st, ast.Assign) and len(st.targets) == 1 and isinstance(st.targets[0], ast.Name) and \
                    ((isinstance(st.value, ast.Dict) and not st.value.keys) or (isinstance(st.value, ast.Call) and call_name(st.value) in ("dict", "OrderedDict")
                                                                                  and not st.value.args)):
                local_dicts[st.targets[0].id] = st
        for st in walk_no_nested(f):
            if not (isinstance(st, ast.Assign) and isinstance(st.targets[0], ast.Subscript) and isinstance(st.targets[0].value, ast.Name)
                    and st.targets[0].value.id in local_dicts):
                continue
            D = st.targets[0].value.id
            # remembered values: something is read back from D under the same key expression
            K = st.targets[0].slice
            reads = [x for x in walk_no_nested(f) if (isinstance(x, ast.Subscript) and isinstance(x.ctx, ast.Load) and src(x.value) == D)
                     or (isinstance(x, ast.Call) and src(x.func) == D + ".get")]
            if not reads:
                continue
            n += 1
            outer = flow.enclosing_loops(local_dicts[D])
            loops = [l for l in flow.enclosing_loops(st) if isinstance(l, ast.For) and not any(l is o for o in outer)]
            loop_vars = {x.id for l in loops for x in ast.walk(l.target) if isinstance(x, ast.Name)}
            key_bases = {r.split(".")[0] for r in dependency_roots(f, [K])} | {x.id for x in ast.walk(K) if isinstance(x, ast.Name)}
            val_bases = {r.split(".")[0] for r in dependency_roots(f, [st.value])}
            bad = sorted((val_bases & loop_vars) - key_bases)
            if bad:
                ctx.fail("I8", st, q, "%s[%s] = %s" % (D, src(K), src(st.value)[:40]), "the per-call table %s remembers a value under the key %s, "
                         "but the value also depends on %s, which changes from one iteration to the next while the table lives on: a later "
                         "item with the same %s gets the id computed for another %s" % (D, src(K), "/".join(bad), src(K), "/".join(bad)))
            else:
                ctx.ok("I8", "%s:%d" % (m.rel, st.lineno), "%s: table %s keyed by %s covers the loop variables its values depend on" % (q, D, src(K)))
    ctx.ok("I8", "printer / id modules", "%d per-call remembering tables examined" % n, nontrivial=False)


def i3(prog, ctx):
    n = 0
    # novel TranscriptModel constructions: the id argument embeds chr_id
    for rel in sorted(prog.modules):
        for node in ast.walk(prog.modules[rel].tree):
            if isinstance(node, ast.Call) and call_name(node) == "TranscriptModel" and len(node.args) >= 6:
                fn = enclosing_function(node)
                fq = getattr(fn, "_qualname", "<module>")
                idexpr = node.args[2]
                text = src(idexpr)
                env_text = text
                if isinstance(idexpr, ast.Name) and fn is not None:
                    defs = [s for s in walk_no_nested(fn) if isinstance(s, ast.Assign)
                            and any(dotted(t) == idexpr.id for t in s.targets)]
                    env_text = " | ".join(src(d.value) for d in defs)
                if "chr_id" not in env_text:
                    ctx.fail("I3", node, fq, text, "novel transcript id %s does not embed the chromosome id" % env_text)
                else:
                    ctx.ok("I3", "%s:%d" % (rel, node.lineno), "novel transcript id embeds chr_id: %s" % env_text)
                n += 1
    # the textual prefix of a novel transcript id is the constant the distributor recognises reserved numbers by
    for node_fn, idexpr in [(enclosing_function(c), c.args[2]) for rel in sorted(prog.modules) for c in ast.walk(prog.modules[rel].tree)
                            if isinstance(c, ast.Call) and call_name(c) == "TranscriptModel" and len(c.args) >= 6]:
        if node_fn is None or not getattr(node_fn, "_qualname", None):
            continue
        fin = prog.func_inlined(node_fn._module.rel, node_fn._qualname) if getattr(node_fn, "_module", None) is not None else node_fn
        from ..engine.dataflow import single_def_env
        env = single_def_env(fin)
        # leftmost term of the concatenation that forms the id
        e = idexpr
        hops = 0
        opaque_helper = False
        while hops < 12:
            hops += 1
            if isinstance(e, ast.BinOp) and isinstance(e.op, (ast.Add, ast.Mod)):
                e = e.left
            elif isinstance(e, ast.Name) and e.id in env:
                e = env[e.id]
            elif isinstance(e, ast.Name):
                ds = [a.value for a in walk_no_nested(fin) if isinstance(a, ast.Assign) and any(src(t) == e.id for t in a.targets)]
                if len({src(d) for d in ds}) == 1:
                    e = ds[0]
                else:
                    break
            elif isinstance(e, ast.Call) and call_name(e) and call_name(e) not in ("getattr", "str", "format"):
                # a formatting helper of the project: continue in what it returns, with the arguments put in place of its parameters
                cands = [f3 for _m3, q3, f3 in prog.all_functions() if q3.split(".")[-1] == call_name(e).split(".")[-1]]
                rets = [r for f3 in cands for r in walk_no_nested(f3) if isinstance(r, ast.Return) and r.value is not None] if len(cands) == 1 else []
                if len(rets) != 1:
                    opaque_helper = bool(cands)
                    break
                from ..engine.argswap import bind_args
                e = symexec.subst(rets[0].value, {k: v for k, v in bind_args(e, cands[0]).items()})
            else:
                break
        n += 1
        if src(e) == "TranscriptNaming.transcript_prefix":
            ctx.ok("I3", "%s:%d" % (node_fn._module.rel, idexpr.lineno), "novel transcript id starts with TranscriptNaming.transcript_prefix")
        elif isinstance(e, (ast.BoolOp, ast.IfExp, ast.Call, ast.Constant, ast.Attribute, ast.JoinedStr)) and not opaque_helper:
            ctx.fail("I3", idexpr, node_fn._qualname, "id prefix %s" % src(e)[:60], "the prefix of a novel transcript id is %s, not the constant "
                     "TranscriptNaming.transcript_prefix by which ExcludingIdDistributor recognises the numbers an annotation already "
                     "uses: with another prefix the reserved numbers of ids of that form are not excluded and an id of the annotation "
                     "is given out again" % src(e)[:60])
        else:
            ctx.undecided("I3", idexpr, node_fn._qualname, "cannot follow the prefix of the novel transcript id (%s)" % src(e)[:50])
    # exon ids
    gid = prog.func(IDP, "FeatureIdStorage.get_id")
    stores = [s for s in walk_no_nested(gid) if isinstance(s, ast.Assign) and isinstance(s.targets[0], ast.Subscript)
              and src(s.targets[0].value) == "self.id_dict"]
    for s in stores:
        env = {}
        for a in walk_no_nested(gid):
            if isinstance(a, ast.Assign) and isinstance(a.targets[0], ast.Name) and a.lineno < s.lineno:
                env[a.targets[0].id] = a.value
        if "chr_id" not in symexec.text(s.value, env):
            ctx.fail("I3", s, gid._qualname, src(s), "generated exon id does not embed the chromosome id")
        else:
            ctx.ok("I3", "%s:%d" % (IDP, s.lineno), "generated exon id embeds chr_id")
        n += 1
    ctx.floor("I3", "generated-id format sites", n, 3)
    return n


def _role(e):
    t = src(e)
    if "strand" in t:
        return "strand"
    if "chr" in t or "seqid" in t:
        return "chr"
    if t.endswith(".start") or t.endswith("[0]") or t == "start" or t.endswith("_start"):
        return "start"
    if t.endswith(".end") or t.endswith("[1]") or t == "end" or t.endswith("_end"):
        return "end"
    return "?:" + t


def i4(prog, ctx):
    init = prog.func(IDP, "FeatureIdStorage.__init__")
    gid = prog.func(IDP, "FeatureIdStorage.get_id")

    def key_tuple(f):
        for s in walk_no_nested(f):
            if isinstance(s, ast.Assign) and isinstance(s.targets[0], ast.Subscript) and src(s.targets[0].value) == "self.id_dict":
                k = s.targets[0].slice
                if isinstance(k, ast.Name):
                    for a in walk_no_nested(f):
                        if isinstance(a, ast.Assign) and isinstance(a.targets[0], ast.Name) and a.targets[0].id == k.id:
                            k = a.value
                            break
                return k, s
        return None, None
    k1, s1 = key_tuple(init)
    if k1 is None:
        # the annotation's ids may be loaded by a helper of the class into another table: the store whose value is the id attribute
        for name_, f_ in prog.methods_of(prog.cls(IDP, "FeatureIdStorage"), inherited=False).items():
            for s_ in walk_no_nested(f_):
                if isinstance(s_, ast.Assign) and isinstance(s_.targets[0], ast.Subscript) and re.search(r"\.attributes\[\w+\]", src(s_.value)):
                    k = s_.targets[0].slice
                    if isinstance(k, ast.Name):
                        for a in walk_no_nested(f_):
                            if isinstance(a, ast.Assign) and isinstance(a.targets[0], ast.Name) and a.targets[0].id == k.id:
                                k = a.value
                                break
                    k1, s1 = k, s_
    k2, s2 = key_tuple(gid)

    def as_tuple(k):
        # a record type used as key (namedtuple built from the same four components)
        if isinstance(k, ast.Call) and isinstance(k.func, ast.Name) and k.func.id[:1].isupper() and k.args and not k.keywords:
            return ast.Tuple(elts=list(k.args), ctx=ast.Load())
        return k
    k1, k2 = as_tuple(k1), as_tuple(k2)
    if not isinstance(k1, ast.Tuple) or not isinstance(k2, ast.Tuple):
        raise AnalysisError("FeatureIdStorage: key tuples not found (loader %s, lookup %s)" % (k1, k2))
    r1 = [_role(e) for e in k1.elts]
    r2 = [_role(e) for e in k2.elts]
    if r1 != r2 or r1 != ["chr", "start", "end", "strand"]:
        ctx.fail("I4", s2, "FeatureIdStorage.__init__ / get_id", "%s vs %s" % (src(k1), src(k2)),
                 "exon-id keys disagree: loaded as %s, looked up as %s (must both be chr,start,end,strand)" % (r1, r2))
    else:
        ctx.ok("I4", "%s:%d" % (IDP, s2.lineno), "exon-id key (chr,start,end,strand) on both sides: %s / %s" % (src(k1), src(k2)))
    # reference ids are stored verbatim
    s1v = src(s1.value) if s1 is not None else ""
    if s1 is not None and isinstance(s1.value, (ast.Name, ast.Subscript)):
        # through a local alias:  ids = f.attributes[id_attribute]; ... = ids[0]
        base_ = s1.value.value if isinstance(s1.value, ast.Subscript) else s1.value
        if isinstance(base_, ast.Name):
            ds_ = [a_.value for a_ in walk_no_nested(init) if isinstance(a_, ast.Assign) and len(a_.targets) == 1 and src(a_.targets[0]) == base_.id]
            if len(ds_) == 1:
                s1v = s1v.replace(base_.id, src(ds_[0]), 1)
    if s1 is not None and not re.search(r"\.attributes\[\w+\]", s1v):
        ctx.fail("I4", s1, "FeatureIdStorage.__init__", src(s1), "reference exon ids are not stored verbatim from the attribute")
    else:
        ctx.ok("I4", "%s:%d" % (IDP, s1.lineno), "reference exon_id attribute stored verbatim")
    # who constructs FeatureIdStorage for per-chromosome printing: must pass db and chr_id so reference ids are preserved
    f = prog.func(DSP, "construct_models_in_parallel")
    calls = [c for c in walk_no_nested(f) if isinstance(c, ast.Call) and call_name(c) == "FeatureIdStorage"]
    from ..engine import argswap
    bound = argswap.bind_args(calls[0], init, bound_method=True) if len(calls) == 1 else {}
    b_chr = next((v for k, v in bound.items() if "chr" in k), None)
    b_db = next((v for k, v in bound.items() if "db" in k), None)
    if len(calls) != 1 or b_chr is None or b_db is None or src(b_chr) != "chr_id":
        ctx.fail("I4", f, f._qualname, "FeatureIdStorage(...)", "per-chromosome exon id storage is not built from (db, chr_id)")
    else:
        ctx.ok("I4", "%s:%d" % (DSP, calls[0].lineno), "exon id storage built once per chromosome task from (db, chr_id)")
        # both GFF printers of the task share that one storage
        pr = [c for c in walk_no_nested(f) if isinstance(c, ast.Call) and call_name(c) == "GFFPrinter"]
        stor = None
        for s in walk_no_nested(f):
            if isinstance(s, ast.Assign) and s.value is calls[0]:
                stor = dotted(s.targets[0])
        gp_init = prog.func("src/transcript_printer.py", "GFFPrinter.__init__")
        bad = [c for c in pr if src(next((v for k, v in argswap.bind_args(c, gp_init, bound_method=True).items() if "id_storage" in k or "exon_id" in k),
                                          ast.Constant(value=None))) != stor]
        if bad or len(pr) < 2:
            ctx.fail("I4", (bad or [f])[0], f._qualname, "GFFPrinter(...)",
                     "the transcript-model and extended-annotation printers of one chromosome do not share one exon id storage")
        else:
            ctx.ok("I4", "%s:%d" % (DSP, pr[0].lineno), "both GFF printers of the task share the exon id storage")


def i4_callers(prog, ctx):
    """At every lookup the key's chromosome and strand belong to the object the feature's coordinates were taken from."""
    from ..engine.dataflow import dependency_roots
    n = 0
    for m, q, f in prog.all_functions():
        for c in walk_no_nested(f):
            if not (isinstance(c, ast.Call) and isinstance(c.func, ast.Attribute) and c.func.attr == "get_id"
                    and "id_storage" in src(c.func.value) and len(c.args) in (3, 4)):
                continue
            n += 1
            # arguments by parameter name of the storage's lookup method (positions may have been reordered)
            from ..engine import argswap
            gdef = prog.try_func(IDP, "FeatureIdStorage.get_id")
            bound = argswap.bind_args(c, gdef, bound_method=True) if gdef is not None else {}
            b_chr = next((v for k, v in bound.items() if "chr" in k), None)
            b_strand = next((v for k, v in bound.items() if "strand" in k), None)
            b_feat = [v for k, v in bound.items() if "chr" not in k and "strand" not in k]
            if b_chr is not None and b_strand is not None and b_feat and len(bound) == len(c.args) + len(c.keywords):
                a_chr, a_strand = b_chr, b_strand
                a_feat = b_feat[0] if len(b_feat) == 1 else ast.Tuple(elts=b_feat, ctx=ast.Load())
                if len(b_feat) != 1:
                    a_feat._parent = c
            else:
                a_chr, a_strand = c.args[0], c.args[-1]
                a_feat = c.args[1] if len(c.args) == 3 else ast.Tuple(elts=list(c.args[1:-1]), ctx=ast.Load())
                if len(c.args) == 4:
                    a_feat._parent = c

            def unalias(e):
                if isinstance(e, ast.Name):
                    ds = [st for st in walk_no_nested(f) if isinstance(st, ast.Assign) and len(st.targets) == 1
                          and isinstance(st.targets[0], ast.Name) and st.targets[0].id == e.id]
                    if len(ds) == 1:
                        return ds[0].value
                return e
            a_chr, a_strand = unalias(a_chr), unalias(a_strand)
            oc = src(a_chr.value) if isinstance(a_chr, ast.Attribute) and a_chr.attr == "chr_id" else None
            os_ = src(a_strand.value) if isinstance(a_strand, ast.Attribute) and a_strand.attr == "strand" else None
            seen_names = set()
            roots = dependency_roots(f, [a_feat], through_loops=True, visited=seen_names)
            roots = roots | {x.split('.')[0] for x in seen_names if not x.startswith('=')}
            if oc is None or os_ is None or oc != os_:
                ctx.fail("I4", c, q, src(c), "the exon-id lookup key takes chromosome and strand from %s and %s: they must be the chr_id and "
                         "strand of one and the same transcript object" % (src(a_chr), src(a_strand)))
            elif oc.split(".")[0] not in roots:
                ctx.fail("I4", c, q, src(c), "the exon coordinates `%s` come from %s, but chromosome and strand of the lookup key are taken from "
                         "`%s`: an exon of a transcript whose strand differs from that object's is looked up under the wrong key, so its "
                         "reference exon id is not preserved (a fresh or foreign id is printed)" % (src(a_feat), sorted(r for r in roots if "." not in r)[:6], oc))
            else:
                ctx.ok("I4", "%s:%d" % (m.rel, c.lineno), "%s: lookup key (chr, exon, strand) all taken from `%s`" % (q, oc))
    ctx.floor("I4", "exon id lookup call sites", n, 1)


def i5(prog, ctx):
    """Identifier tables and distributors hold no process-wide (class-level / module-level) mutable state."""
    from ..engine import carried
    locs = carried.class_level_locations(prog)
    id_classes = ("GFFPrinter", "FeatureIdStorage", "SimpleIDDistributor", "ExcludingIdDistributor", "AtomicIDDistributor", "TranscriptNaming")
    n = 0
    for (cname, attr), (m, c, st, why) in sorted(locs.items()):
        if cname not in id_classes:
            continue
        n += 1
        acc = carried.accesses_of_class_attr(prog, cname, attr)
        muts = [a for a in acc if a[4] in ("mutate", "write")]
        if muts:
            mm = muts[0]
            ctx.fail("I5", mm[3], mm[1], "%s.%s" % (cname, attr),
                     "class-level %s.%s (%s) is modified at run time: identifiers handed out for one chromosome / experiment depend on "
                     "what the same process handled before (ids collide or differ between --threads values)" % (cname, attr, why))
        else:
            ctx.ok("I5", "%s:%d" % (m.rel, st.lineno), "%s.%s is never modified (no process-wide id state)" % (cname, attr))
    # instance state of the distributors / storages is created in __init__, not shared
    for cname in ("ExcludingIdDistributor", "FeatureIdStorage"):
        init = prog.func(IDP, cname + ".__init__")
        for a in ("forbidden_ids", "id_dict"):
            if (cname == "ExcludingIdDistributor") == (a == "forbidden_ids"):
                defs = [s for s in walk_no_nested(init) if isinstance(s, ast.Assign) and dotted(s.targets[0]) == "self." + a]
                v0 = defs[0].value if defs else None
                fresh_obj = isinstance(v0, (ast.Dict, ast.Set, ast.DictComp, ast.SetComp)) or \
                    (isinstance(v0, ast.Call) and call_name(v0) in ("set", "dict", "defaultdict", "OrderedDict"))        # a new container, whatever it is filled from
                if not fresh_obj:
                    ctx.fail("I5", init, init._qualname, "self.%s" % a, "%s.%s is not created fresh per instance (found %s)"
                             % (cname, a, [src(d) for d in defs]))
                else:
                    ctx.ok("I5", "%s:%d" % (IDP, defs[0].lineno), "%s.%s created fresh per instance" % (cname, a))
                n += 1
    ctx.floor("I5", "id-related state locations examined", n, 3)


def i6(prog, ctx):
    """Every annotated exon that carries an id gets it registered: the preload loop of FeatureIdStorage runs to the end of the
    chromosome's records and skips a record only because it has no id attribute."""
    from ..engine import flow
    cls = prog.cls(IDP, "FeatureIdStorage")
    n = 0
    for name_, f in sorted(prog.methods_of(cls, inherited=False).items()):
        from ..engine.dataflow import single_def_env
        from ..engine import symexec as _sx
        senv = single_def_env(f)
        for st in walk_no_nested(f):
            if not (isinstance(st, ast.Assign) and isinstance(st.targets[0], ast.Subscript)
                    and (re.search(r"\.attributes\[", src(st.value)) or re.search(r"\.attributes\[", src(_sx.subst(st.value, senv))))):   # (through local aliases)
                continue
            loops = [l for l in flow.enclosing_loops(st) if isinstance(l, (ast.For, ast.While))]
            if not loops:
                ctx.fail("I6", st, f._qualname, src(st)[:80], "reference ids are stored outside a loop over the annotation records")
                continue
            loop = loops[0]
            n += 1
            bad = None
            for x in ast.walk(loop):
                if isinstance(x, (ast.Break, ast.Return)) or (isinstance(x, ast.Raise) and not any(isinstance(h, ast.ExceptHandler) for h in ast.walk(loop))):
                    # a break that belongs to a nested loop does not leave this one
                    inner = [l for l in flow.enclosing_loops(x) if l is not loop and any(l is y for y in ast.walk(loop))]
                    if isinstance(x, ast.Break) and inner:
                        continue
                    bad = (x, "the loop over the annotation records can stop early (%s): the ids of all later exons of the chromosome are never "
                              "registered and those exons are printed with generated ids" % type(x).__name__.lower())
            absent_re = re.compile(r"^\w+ (not )?in \w+\.attributes$")

            class _AbsentOrEmpty:
                # presence of the attribute, or non-emptiness of its value list (same cases the try/except IndexError form skips)
                @staticmethod
                def match(text):
                    if absent_re.match(text):
                        return True
                    t2 = src(_sx.subst(ast.parse(text, mode="eval").body, senv))
                    return bool(re.match(r"^(len\()?\w+\.attributes\[.*\]\)?( > 0| != 0| >= 1)?$", t2))
            absent = _AbsentOrEmpty
            for g in flow.guards_of(st, stop=loop):
                if not absent.match(src(g.test)):
                    bad = bad or (st, "the id is registered only under %s%s, which is not a test for the presence of the id attribute"
                                  % ("" if g.polarity else "not ", src(g.test)[:60]))
            for x in ast.walk(loop):
                if isinstance(x, ast.Continue):
                    for g in flow.guards_of(x, stop=loop):
                        if not absent.match(src(g.test)):
                            bad = bad or (x, "a record is skipped under %s%s, which is not a test for the presence of the id attribute"
                                          % ("" if g.polarity else "not ", src(g.test)[:60]))
            if bad:
                ctx.fail("I6", bad[0], f._qualname, src(enclosing_stmt_(bad[0]))[:80], bad[1])
            else:
                ctx.ok("I6", "%s:%d" % (IDP, loop.lineno), "%s: the preload loop has no early exit and skips only records without the id attribute" % f._qualname)
    ctx.floor("I6", "preload loops storing reference ids", n, 1)


def enclosing_stmt_(n):
    while n is not None and not isinstance(n, ast.stmt):
        n = getattr(n, "_parent", None)
    return n


def run(prog, ctx):
    ctx.rule("I5", "GFFPrinter / FeatureIdStorage / id distributors keep no class-level mutable state that is modified at run time; "
                   "their tables are created fresh in __init__")
    ctx.rule("I1", "a lookup-or-allocate memo (tests key, stores on miss, returns stored value on hit) returns on the miss path "
                   "exactly the value it stored (path-wise symbolic comparison)")
    ctx.rule("I2", "id strings built from TranscriptNaming prefixes take their number from self.id_distributor.increment(); the "
                   "only constructor site of GraphBasedModelConstructor passes ExcludingIdDistributor(db, chr_id) of the same task; "
                   "increment() skips forbidden ids in a loop; forbidden ids are parsed with the formatting constants")
    ctx.rule("I3", "transcript, gene and exon id format expressions embed the chromosome id (per-chromosome counters start at zero)")
    ctx.rule("I6", "the loop that preloads reference exon ids into FeatureIdStorage has no break / return, and the store (and every "
                   "continue) is guarded only by tests for the presence of the id attribute")
    i6(prog, ctx)
    ctx.rule("I7", "whenever an annotation is given, every path through ExcludingIdDistributor.__init__ runs both scans of the chromosome's "
                   "records (gene ids, transcript ids) to the end")
    i7(prog, ctx)
    ctx.rule("I8", "in the printer and id modules a dict created inside a function and read back under the key it is filled with depends, in "
                   "what it stores, on no loop variable (of loops it outlives) that is not part of the key")
    i8(prog, ctx)
    ctx.rule("I4", "the exon-id key tuple has the same arity and component order (chr,start,end,strand) in loader and lookup; "
                   "reference ids stored verbatim; printers of one task share one storage")
    n1 = i1(prog, ctx)
    i2(prog, ctx)
    i4_callers(prog, ctx)
    i3(prog, ctx)
    i4(prog, ctx)
    i5(prog, ctx)
    ctx.floor("I1", "value-returning memo functions", n1, 1)
    ctx.assume("global uniqueness across files and ids already present in arbitrary annotations are not decided")
