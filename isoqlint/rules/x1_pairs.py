"""X1 - typed reflection of mirrored code pairs (placeholder until armed)."""


def run(prog, ctx):
    ctx.note("X1 not armed yet")
