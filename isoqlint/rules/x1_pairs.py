"""X1 - typed reflection of mirrored code (C11).

Four kinds of instances, all decided by the reflection engine (engine/reflect.py):
  * function pairs      facts(rho(left function)) == facts(right function)
  * block pairs         the left / right halves of one function
  * flag dualities      `A if flag else B`, `if flag ..: S1 else: S2` on a direction flag (read_end / forward): rho(A) == B
  * interval literals   a 2-tuple (f(S[0]), g(S[-1])) built from the first and last element of one sequence is its own mirror
Pairs whose canonicaliser meets an unsupported construct are reported as ANALYSIS-ERROR for that pair (never a violation).
"""
import ast

from ..engine.program import AnalysisError, dotted, src, walk_no_nested
from ..engine import reflect
from ..engine.reflect import Roles

PV = "src/polya_verification.py"
IG = "src/intron_graph.py"
GMC = "src/graph_based_model_construction.py"
LRA = "src/long_read_assigner.py"
JC = "src/junction_comparator.py"
AI = "src/alignment_info.py"
LRP = "src/long_read_profiles.py"

GRAPH_DUAL = {"is_terminal_vertex": "is_starting_vertex", "is_starting_vertex": "is_terminal_vertex",
              "VERTEX_polya": "VERTEX_polyt", "VERTEX_polyt": "VERTEX_polya",
              "VERTEX_read_end": "VERTEX_read_start", "VERTEX_read_start": "VERTEX_read_end",
              "terminal_known_positions": "starting_known_positions", "starting_known_positions": "terminal_known_positions"}


def _roles(**kw):
    csrc = kw.pop("coord_src", ())
    seq_elem = kw.pop("seq_elem", None)
    index_vars = kw.pop("index_vars", None)
    opaque = kw.pop("opaque_index", ())
    cfuncs = kw.pop("coord_funcs", ())
    single = kw.pop("singleton_index", ())
    single_seq = kw.pop("singleton_seq", ())
    citer = kw.pop("coord_iterables", ())
    r = Roles(**kw)
    r.opaque_index |= set(opaque)
    r.singleton_index |= set(single)
    r.singleton_seq |= set(single_seq)
    r.coord_funcs |= set(cfuncs)
    r.coord_iterables |= set(citer)
    r.coord_src |= set(csrc)
    if seq_elem:
        r.seq_elem.update(seq_elem)
    if index_vars:
        for k, v in index_vars.items():
            r.index_vars[k] = ast.parse(v, mode="eval").body
    return r


PF = "src/polya_finder.py"
FINDER_DUAL = {"find_polya_tail": "find_polyt_head", "find_polyt_head": "find_polya_tail",
               "check_entire_tail": "check_entire_head", "check_entire_head": "check_entire_tail"}

FUNCTION_PAIRS = [
    (PV, "shift_polya", "shift_polyt", dict(returns="C"), "polyA / polyT position shift over fake terminal exons"),
    (PV, "PolyAFixer.count_polya_exons", "PolyAFixer.count_polyt_exons", {}, "count of exons made of polyA / polyT"),
    (PV, "PolyAVerifier.verify_polya", "PolyAVerifier.verify_polyt", {}, "3' end verification on + / - strand"),
    (PV, "PolyAVerifier.check_internal_polya", "PolyAVerifier.check_internal_polyt", {}, "internal priming"),
    (PV, "PolyAVerifier.correct_polya_positions", "PolyAVerifier.correct_polyt_positions", {}, "position correction"),
    (PV, "PolyAVerifier.detect_reference_exons_beyond_polya", "PolyAVerifier.detect_reference_exons_before_polyt",
     dict(inline=["isoform_region"], index_args={("MatchEvent", 1): "len(isoform_exons) - 2"}), "missed terminal reference exons"),
    (PF, "PolyAFinder.find_polya_external", "PolyAFinder.find_polyt_external", dict(extra_dual=FINDER_DUAL), "external tail search windows"),
    (PF, "PolyAFinder.find_polya_internal", "PolyAFinder.find_polyt_internal", dict(extra_dual=FINDER_DUAL), "internal tail search windows"),
    (IG, "IntronGraph.get_outgoing", "IntronGraph.get_incoming", dict(extra_dual=GRAPH_DUAL), "graph neighbours"),
    (IG, "IntronGraph.signleton_dead_end", "IntronGraph.signleton_dead_start", dict(extra_dual=GRAPH_DUAL, other=["clustered_introns"]),
     "singleton dead ends / starts"),
    (IG, "IntronGraph.is_end_internal", "IntronGraph.is_start_internal", dict(extra_dual=GRAPH_DUAL), "read end inside next exon"),
    (GMC, "IntronPathProcessor.thread_ends", "IntronPathProcessor.thread_starts",
     dict(extra_dual=GRAPH_DUAL, tagged=["v", "rightmost_end", "leftmost_start"], seq=["all_possible_ends", "all_possible_starts"],
          seq_elem={"all_possible_ends": "T", "all_possible_starts": "T"}), "attaching read ends / starts to graph vertices"),
]

# (module, function, start-of-left, start-of-right, end marker (exclusive) or None, roles, description)
BLOCK_PAIRS = [
    (LRA, "LongReadAssigner.categorize_exon_elongation_subtype", "first_read_exon =", "last_read_exon =", "return events",
     dict(seq=["read_features", "split_exons"], length=["extra_left", "extra_right"],
          opaque_index=["common_first_exon", "common_last_exon"]), "terminal exon elongation events, left vs right"),
    (LRA, "LongReadAssigner.select_similar_isoforms@loop", "extra_left =", "extra_right =", "candidates.append",
     dict(length=["extra_left", "extra_right"], coord=["transcript_start", "transcript_end"]), "extra terminal bases penalty, left vs right"),
    (JC, "JunctionComparator.add_extra_out_exon_events", "if extra_left:", "if extra_right:", None,
     dict(index_vars={"read_pos": "len(read_intron_read_profile) - 1"}, length=["read_pos"],
          index_args={("get_exon", 2): "len(read_intron_read_profile)", ("MatchEvent", 2): "len(read_intron_read_profile) - 1"},
          other=["read_introns"], seq=["read_intron_read_profile"]),
     "flanking extra introns / fake terminal exons, left vs right"),
    (AI, "AlignmentInfo.add_polya_info", "if polya_exon_count > 0:", "if polyt_exon_count > 0:", "if self.exons_changed:",
     dict(seq=["read_exons", "read_blocks", "cigar_blocks"], extra_dual={"polya_info": "polya_info"},
          coord_funcs=["shift_polya", "shift_polyt"]), "trimming polyA / polyT exons"),
    (GMC, "IntronPathStorage.fill@loop", "read_end =", "read_start =", "path_tuple =",
     dict(extra_dual=dict(GRAPH_DUAL, polya_info="polya_info", terminal_vertex="starting_vertex", starting_vertex="terminal_vertex"),
          seq=["intron_path", "corrected_exons"], seq_elem={"intron_path": "I"}), "terminal / starting vertex of a read path"),
    (GMC, "GraphBasedModelConstructor.correct_novel_transcript_ends", "new_transcript_start = None", "new_transcript_end = None", None,
     dict(coord=["transcript_start", "transcript_end", "read_start", "read_end", "new_transcript_start", "new_transcript_end"],
          seq=["exon_blocks"], coord_iterables=["read_starts", "read_ends"]), "replacing an unsupported model start / end by a read start / end"),
    (IG, "IntronGraph.collect_terminal_positions@loop", "starting_intron =", "terminating_intron =", None,
     dict(extra_dual=dict(GRAPH_DUAL, polya_info="polya_info", terminating_intron="starting_intron", starting_intron="terminating_intron"),
          seq=["corrected_introns", "corrected_exons"], other=["polyt_starts", "read_starts", "polya_ends", "read_ends"]),
     "read start / end positions per terminal intron"),
]

# elif-branch pairs: (module, function, substring of left test, substring of right test, roles, description)
EC = "src/exon_corrector.py"
BRANCH_PAIRS = [
    (EC, "ExonCorrector.process_events", "MatchEventSubtype.fake_terminal_exon_left", "MatchEventSubtype.fake_terminal_exon_right",
     dict(interval=["corrected_read_region", "read_region", "isoform_region"], seq=["read_introns", "isoform_introns"],
          seq_elem={"read_introns": "I", "isoform_introns": "I"}, other=["new_introns"],
          singleton_index=["event.read_region", "event.isoform_region"]),
     "skipping a fake terminal exon, left vs right"),
    (EC, "ExonCorrector.process_events", "MatchEventSubtype.terminal_exon_misalignment_left", "MatchEventSubtype.terminal_exon_misalignment_right",
     dict(interval=["corrected_read_region", "read_region", "isoform_region"], seq=["read_introns", "isoform_introns"],
          seq_elem={"read_introns": "I", "isoform_introns": "I"}, other=["new_introns"],
          singleton_index=["event.read_region", "event.isoform_region"]),
     "moving a misaligned terminal exon onto the isoform's, left vs right"),
]

# direction flags: (module, function, flag name, roles)
FLAG_FUNCS = [
    (IG, "IntronGraph.attach_transcpt_ends", "read_end", dict(extra_dual=dict(GRAPH_DUAL, cluster_polya_positions="cluster_polya_positions",
                                                                             polya_confirmed_positions="polya_confirmed_positions",
                                                                             read_ends_cutoff="read_ends_cutoff", extra_end_positions="extra_end_positions"),
                                                             other=["clustered_introns", "read_terminal_positions", "polya_confirmed_positions",
                                                                    "terminal_positions", "extra_end_positions"],
                                                             coord=["position", "furtherst_confirmed_position", "pos"],
                                                             coord_iterables=["clustered_polyas"])),
    (IG, "IntronGraph.cluster_polya_positions", "read_end", dict(extra_dual=GRAPH_DUAL, coord=["top_position", "nearest_position", "pos", "k"],
                                                                other=["position_dict", "known_positions"], coord_src=["best_pair[0]"],
                                                                length=["diff_to_nearest_position"])),
    (IG, "IntronGraph.cluster_terminal_positions", "read_end", dict(extra_dual=GRAPH_DUAL, coord_iterables=["position_dict"],
                                                                   other=["position_dict"], coord=["pos"])),
    (GMC, "GraphBasedModelConstructor.is_internal_monoexonic_read", "forward",
     dict(seq=["corrected_exons"], interval=["read_coordinates", "e"], singleton_seq=["corrected_exons"])),   # the read is mono-exonic here
    (GMC, "GraphBasedModelConstructor.generate_monoexon_from_clustered", "forward",
     dict(seq=["corrected_exons"], coord=["five_prime_pos", "three_prime_pos"], interval=["coordinates"])),
]

# accepted differences: (pair key, side, substring of the fact) -> reason
ALLOWED = [
    ("GraphBasedModelConstructor.is_internal_monoexonic_read", None, ":= $1.corrected_exons[",
     "the read is mono-exonic here (single corrected exon), so corrected_exons[0] and corrected_exons[-1] are the same element"),
]


def _find_block(body, start, end_markers):
    """Consecutive statements starting at the first whose source starts with `start`, up to a statement starting with
    one of end_markers."""
    idx = [i for i, st in enumerate(body) if src(st).startswith(start)]
    if not idx:
        return None
    out = []
    for st in body[idx[0]:]:
        if out and any(src(st).startswith(m) for m in end_markers if m):
            break
        out.append(st)
    return out


def _report(ctx, key, where_node, fq, only_l, only_r, desc):
    bad = False
    for side, facts in (("mirror of left", only_l), ("right", only_r)):
        for guards, fact in facts:
            text = "%s | under {%s}" % (fact, "; ".join(guards)[:200])
            if any(k == key and sub in text for k, s_, sub, _why in ALLOWED):
                continue
            bad = True
            ctx.fail("X1", where_node, fq, "%s: %s" % (side, text[:240]),
                     "%s: this fact of the %s side has no counterpart on the other side after reflection (coordinates negated, "
                     "interval sides swapped, sequences reversed, left/right names dualised): the two strands are not treated as mirror "
                     "images here" % (desc, side))
    return bad


def run_function_pairs(prog, ctx, tag, modules, only=None):
    """The function pairs of the given modules only (used by other properties that rely on one strand being the mirror of the other)."""
    n = 0
    for rel, lq, rq, rkw, desc in FUNCTION_PAIRS:
        if rel not in modules or (only is not None and lq not in only):
            continue
        fl, fr = prog.func(rel, lq), prog.func(rel, rq)
        try:
            only_l, only_r, nl, nr = reflect.compare(fl, fr, _roles(**dict(rkw)))
        except reflect.Unsupported:
            continue
        n += 1
        bad = False
        for side, facts in (("mirror of left", only_l), ("right", only_r)):
            for guards, fact in facts:
                bad = True
                ctx.fail(tag, fr, "%s / %s" % (lq, rq), "%s: %s | under {%s}" % (side, fact[:200], "; ".join(guards)[:150]),
                         "%s: the '-' strand twin is not the mirror image of the '+' strand one (this fact of the %s side has no counterpart): "
                         "a read and its reverse-strand image are verified differently" % (desc, side))
        if not bad:
            ctx.ok(tag, "%s:%d" % (rel, fr.lineno), "%s / %s are exact mirror images (%d facts)" % (lq, rq, nr))
    return n


def run(prog, ctx):
    ctx.rule("X1", "typed reflection: function pairs, left/right block pairs, direction-flag branches and first/last interval literals are "
                   "reduced to multisets of canonical facts (guards and effects in linear normal form over dualised atoms); the mirrored "
                   "left side must equal the right side")
    armed = 0
    unarmed = []
    for rel, lq, rq, rkw, desc in FUNCTION_PAIRS:
        fl, fr = prog.func(rel, lq), prog.func(rel, rq)
        try:
            only_l, only_r, nl, nr = reflect.compare(fl, fr, _roles(**dict(rkw)))
        except reflect.Unsupported as e:
            unarmed.append("%s/%s: %s" % (lq, rq, e))
            continue
        armed += 1
        key = "%s|%s" % (lq, rq)
        if not _report(ctx, key, fr, "%s / %s" % (lq, rq), only_l, only_r, desc):
            ctx.ok("X1", "%s:%d" % (rel, fr.lineno), "%s / %s are exact mirror images (%d facts)" % (lq, rq, nr))
    for rel, fq, lstart, rstart, end, rkw, desc in BLOCK_PAIRS:
        qual = fq.split("@")[0]
        f = prog.func(rel, qual)
        body = f.body
        if fq.endswith("@loop"):
            loops = [l for l in f.body if isinstance(l, ast.For)]
            loops = [l for l in loops if any(src(s).startswith(lstart) for s in l.body)]
            if not loops:
                raise AnalysisError("X1 block pair %s: loop containing '%s' not found" % (fq, lstart))
            body = loops[0].body
        bl = _find_block(body, lstart, [rstart, end])
        br = _find_block(body, rstart, [end, lstart])
        if not bl or not br:
            raise AnalysisError("X1 block pair %s: blocks '%s' / '%s' not found" % (fq, lstart, rstart))
        # the markers delimit a left and a right block only if the code is written as two parallel blocks: same sequence of statement kinds
        if [type(x).__name__ for x in bl] != [type(x).__name__ for x in br]:
            ctx.undecided("X1", br[0], qual, "%s: the statements after '%s' and after '%s' are not two parallel blocks (%d vs %d statements of "
                          "different kinds): left and right side cannot be told apart" % (desc, lstart, rstart, len(bl), len(br)))
            continue
        try:
            only_l, only_r, nl, nr = reflect.compare_blocks(bl, br, f, _roles(**dict(rkw)))
        except reflect.Unsupported as e:
            unarmed.append("%s: %s" % (fq, e))
            continue
        armed += 1
        if not _report(ctx, fq, br[0], qual, only_l, only_r, desc):
            ctx.ok("X1", "%s:%d" % (rel, br[0].lineno), "%s: left and right blocks are exact mirror images (%d facts)" % (qual, nr))
    for rel, fq, ltest, rtest, rkw, desc in BRANCH_PAIRS:
        f = prog.func(rel, fq)
        ifs = [i for i in walk_no_nested(f) if isinstance(i, ast.If)]
        li = [i for i in ifs if ltest in src(i.test) and rtest not in src(i.test)]
        ri = [i for i in ifs if rtest in src(i.test) and ltest not in src(i.test)]
        lbody = li[0].body if len(li) == 1 else None
        rbody = ri[0].body if len(ri) == 1 else None
        # merged form: `if type in (L, R) and flag: if type == L: A else: B`
        both = [i for i in ifs if ltest in src(i.test) and rtest in src(i.test)]
        if lbody is not None and rbody is None and li[0].orelse and any(li[0] in b.body for b in both):
            rbody = li[0].orelse
        if rbody is not None and lbody is None and ri[0].orelse and any(ri[0] in b.body for b in both):
            lbody = ri[0].orelse
        if lbody is None or rbody is None:
            raise AnalysisError("X1 branch pair %s: branches testing %s / %s not found (%d, %d)" % (fq, ltest, rtest, len(li), len(ri)))
        ri = ri or li
        try:
            only_l, only_r, nl, nr = reflect.compare_blocks(lbody, rbody, f, _roles(**dict(rkw)))
        except reflect.Unsupported as e:
            unarmed.append("%s [%s]: %s" % (fq, ltest.split(".")[-1], e))
            continue
        armed += 1
        if not _report(ctx, fq, ri[0], fq, only_l, only_r, desc):
            ctx.ok("X1", "%s:%d" % (rel, ri[0].lineno), "%s: branches %s / %s are exact mirror images (%d facts)"
                   % (fq, ltest.split(".")[-1], rtest.split(".")[-1], nr))
    # direction flags: the function specialised to flag=True, mirrored, must equal the function specialised to flag=False
    for rel, fq, flag, rkw in FLAG_FUNCS:
        f = prog.func(rel, fq)
        roles = _roles(**dict(rkw))
        try:
            body_t = _specialise(f.body, flag, True)
            body_f = _specialise(f.body, flag, False)
            from collections import Counter
            rm = reflect.Reflector(roles, True, f, scope=body_t)
            rp = reflect.Reflector(roles, False, f, scope=body_f)
            rm.inl, rp.inl = {}, {}
            fl, fr = [], []
            rm._block(body_t, (), fl)
            rp._block(body_f, (), fr)
            key = lambda x: (tuple(sorted(x[0])), x[1])
            cl, cr = Counter(key(x) for x in fl), Counter(key(x) for x in fr)
            only_l, only_r = list((cl - cr).elements()), list((cr - cl).elements())
        except reflect.Unsupported as e:
            unarmed.append("%s flag %s: %s" % (fq, flag, e))
            continue
        armed += 1
        only_l = [x for x in only_l if not any(k == fq and sub in x[1] for k, _s, sub, _w in ALLOWED)]
        only_r = [x for x in only_r if not any(k == fq and sub in x[1] for k, _s, sub, _w in ALLOWED)]
        if only_l or only_r:
            for side, facts in (("%s=True mirrored" % flag, only_l), ("%s=False" % flag, only_r)):
                for g, fact in facts:
                    ctx.fail("X1", f, fq, "%s: %s {%s}" % (side, fact[:170], "; ".join(g)[:150]),
                             "direction flag `%s`: what this function does for one direction is not the mirror image of what it does for "
                             "the other (function specialised on the flag, first specialisation reflected)" % flag)
        else:
            ctx.ok("X1", "%s:%d" % (rel, f.lineno), "%s: specialisations %s=True (mirrored) and %s=False agree (%d facts)" % (fq, flag, flag, len(fr)))
    # interval literals from the first and last element of one sequence
    n_lit = 0
    for rel in sorted(prog.modules):
        if not rel.startswith("src/"):
            continue
        for q, f in sorted(prog.modules[rel].functions.items()):
            for node in walk_no_nested(f):
                if not (isinstance(node, ast.Tuple) and len(node.elts) == 2):
                    continue
                a, b = node.elts
                sa = [x for x in ast.walk(a) if isinstance(x, ast.Subscript) and isinstance(x.value, ast.Subscript)
                      and isinstance(x.value.slice, ast.Constant) and x.value.slice.value == 0]
                sb = [x for x in ast.walk(b) if isinstance(x, ast.Subscript) and isinstance(x.value, ast.Subscript)
                      and isinstance(x.value.slice, ast.UnaryOp) and src(x.value.slice) == "-1"]
                if len(sa) != 1 or len(sb) != 1 or src(sa[0].value.value) != src(sb[0].value.value):
                    continue
                if any(isinstance(x, (ast.Call, ast.IfExp, ast.Compare)) for x in list(ast.walk(a)) + list(ast.walk(b))):
                    continue
                base = sa[0].value.value
                bname = base.id if isinstance(base, ast.Name) else (base.attr if isinstance(base, ast.Attribute) else None)
                if bname is None:
                    continue
                n_lit += 1
                roles = _roles(seq=[bname])
                try:
                    rm = reflect.Reflector(roles, True, f, scope=[])
                    rp = reflect.Reflector(roles, False, f, scope=[])
                    ma = rm.pos_coord(a)
                    pb = rp.pos_coord(b)
                except reflect.Unsupported:
                    continue
                if ma != pb:
                    ctx.fail("X1", node, q, src(node)[:120], "the interval built from the first and the last element of %s is not its own "
                             "mirror image: the left border mirrors to %s but the right border is %s" % (bname, ma, pb))
                else:
                    ctx.ok("X1", "%s:%d" % (rel, node.lineno), "%s: interval literal %s is mirror-symmetric" % (q, src(node)[:60]))
    ctx.floor("X1", "armed mirrored pairs / flag functions", armed, 14)
    ctx.floor("X1", "first/last interval literals", n_lit, 8)
    ctx.extra["x1_unarmed"] = unarmed
    ctx.extra["x1_armed"] = armed
    for u in unarmed:
        ctx.note("X1 pair not armed (canonicaliser met an unsupported construct): " + u)


def _specialise(stmts, flag, value):
    """Partial evaluation of a statement list for a constant boolean flag."""
    import copy
    from ..engine.symexec import clone

    def ev(test):
        """True / False / residual expression."""
        if isinstance(test, ast.Name) and test.id == flag:
            return value
        if isinstance(test, ast.Constant) and isinstance(test.value, bool):
            return test.value
        if isinstance(test, ast.UnaryOp) and isinstance(test.op, ast.Not):
            v = ev(test.operand)
            return (not v) if isinstance(v, bool) else ast.UnaryOp(op=ast.Not(), operand=v)
        if isinstance(test, ast.BoolOp):
            vals = [ev(v) for v in test.values]
            if isinstance(test.op, ast.And):
                if any(v is False for v in vals):
                    return False
                rest = [v for v in vals if v is not True]
            else:
                if any(v is True for v in vals):
                    return True
                rest = [v for v in vals if v is not False]
            if not rest:
                return isinstance(test.op, ast.And)
            return rest[0] if len(rest) == 1 else ast.BoolOp(op=test.op, values=rest)
        return test

    class E(ast.NodeTransformer):
        def visit_IfExp(s2, node):
            node = s2.generic_visit(node)
            v = ev(node.test)
            if v is True:
                return node.body
            if v is False:
                return node.orelse
            return node

        def visit_keyword(s2, node):
            return s2.generic_visit(node)

        def visit_Name(s2, node):
            if node.id == flag and isinstance(node.ctx, ast.Load):
                c = ast.Constant(value=value)
                c._flag = True
                return c
            return node

    def block(sts):
        out = []
        for st in sts:
            if isinstance(st, ast.If):
                v = ev(st.test)
                if v is True:
                    out.extend(block(st.body))
                elif v is False:
                    out.extend(block(st.orelse))
                else:
                    n = ast.If(test=E().visit(clone(v)), body=block(st.body) or [ast.Pass()], orelse=block(st.orelse))
                    out.append(n)
            elif isinstance(st, (ast.For, ast.While)):
                n = clone(st)
                if isinstance(st, ast.For):
                    n.iter = E().visit(n.iter)
                else:
                    n.test = E().visit(n.test)
                n.body = block(st.body) or [ast.Pass()]
                n.orelse = block(st.orelse)
                out.append(n)
            else:
                out.append(E().visit(clone(st)))
        return out
    return block(stmts)


def _split_flag_chain(node, flag):
    """if <flag [and P]>: A  (elif|else) <not flag [and Q]>: B   ->  ((P, A), (Q, B))"""
    def parts(test):
        conj = test.values if isinstance(test, ast.BoolOp) and isinstance(test.op, ast.And) else [test]
        pol = None
        rest = []
        for c in conj:
            if isinstance(c, ast.Name) and c.id == flag:
                pol = True
            elif isinstance(c, ast.UnaryOp) and isinstance(c.op, ast.Not) and isinstance(c.operand, ast.Name) and c.operand.id == flag:
                pol = False
            else:
                rest.append(c)
        return pol, rest
    pol, rest = parts(node.test)
    if pol is None:
        return None, None
    first = (rest, node.body)
    other = None
    if len(node.orelse) == 1 and isinstance(node.orelse[0], ast.If):
        p2, r2 = parts(node.orelse[0].test)
        if p2 is not None and p2 != pol and not node.orelse[0].orelse:
            other = (r2, node.orelse[0].body)
    elif node.orelse:
        other = ([], node.orelse)
    if other is None:
        return None, None
    return (first, other) if pol else (other, first)


def _compare_guarded(tp, bp, tn, bn, f, roles):
    from collections import Counter
    rm = reflect.Reflector(roles, True, f)
    rp = reflect.Reflector(roles, False, f)
    rm.inl, rp.inl = {}, {}
    fl, fr = [], []
    gl = tuple(sorted(rm.cond(c) for c in tp))
    gr = tuple(sorted(rp.cond(c) for c in tn))
    rm._block(bp, gl, fl)
    rp._block(bn, gr, fr)
    key = lambda x: (tuple(sorted(x[0])), x[1])
    cl, cr = Counter(key(x) for x in fl), Counter(key(x) for x in fr)
    return list((cl - cr).elements()), list((cr - cl).elements()), len(fl), len(fr)
